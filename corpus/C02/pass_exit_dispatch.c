/* thread passed to another worker's queue and dispatched from that worker's thread-exit path */
#include <myth/myth.h>
#include <stdio.h>
#include <stdlib.h>
#include <unistd.h>
static volatile int go = 0, xrank = -1, t_ran = 0, t_rank = -1, t_done = 0;
static void * X(void * a) { xrank = myth_get_worker_num(); while (!go) ; return 0; }   /* exits -> cleanup pops */
static void * T(void * a) { t_rank = myth_get_worker_num(); t_ran++; return (void *)7; }
static void * Y(void * a) { int i; for (i = 0; i < 10; i++) myth_yield(); return 0; }
int main(int argc, char ** argv) {
  myth_thread_attr_t at; myth_thread_t x, t, ys[4]; void * r = 0; int i;
  myth_init();
  myth_thread_attr_init(&at);
  /* X: runs on another worker (stolen), spins */
  x = myth_create(X, 0);
  while (xrank < 0) myth_yield();   /* if main moved, fine */
  if (xrank == myth_get_worker_num()) { printf("SKIP same worker\n"); return 0; }
  /* T: created parent-first so that it sits in this worker's queue */
  at.child_first = 0;
  myth_create_ex(&t, &at, T, 0);
  myth_thread_t h = myth_wsapi_runqueue_pop();
  if (h != t) { printf("SKIP pop gave %p not T %p\n", (void*)h, (void*)t); return 0; }
  int rc = myth_wsapi_runqueue_pass(xrank, t);
  if (!rc) { printf("SKIP pass refused\n"); return 0; }
  /* some more work for this worker's queue so that a wrong pop from it is visible */
  for (i = 0; i < 4; i++) myth_create_ex(&ys[i], &at, Y, 0);   /* parent-first: they wait in this worker's queue */
  go = 1;
  while (!t_ran) ;            /* keep this worker busy: T must be dispatched by the other worker's exit path */
  { volatile long k; for (k = 0; k < 200000000; k++) ; }
  myth_join(t, &r);
  for (i = 0; i < 4; i++) myth_join(ys[i], 0);
  myth_join(x, 0);
  printf("t_ran=%d t_rank=%d xrank=%d r=%ld\n", t_ran, t_rank, xrank, (long)r);
  if (t_ran != 1 || (long)r != 7) { printf("FAIL\n"); return 1; }
  printf("PASS\n");
  return 0;
}
