/*
 * c13_mem.c -- uncontrolled ONE-worker create/reap history for C13 (bounded memory, measured on the process).
 * Built by tools/props/c13.py from /repo's current tree.
 *
 *   c13_mem <cycles> <seed>
 *
 * Every cycle creates one thread and has it reaped by one of: join, a tryjoin loop, timedjoin, detach before
 * the thread has run (parent-first creation), detach after it has finished (child-first creation), the
 * detached attribute; with the default stack (attr == NULL), the default size through an initialised
 * attribute, and two custom sizes (one of them not a power of two after rounding to 4 KiB).  Every other round of
 * 24 cycles the joining calls pass a NULL result pointer.
 * The address-space size of the process (/proc/self/statm, first field, pages) is sampled after the first
 * 10% of the cycles, then after every further 10%.
 *
 * Output: "statm base=<pages> max_after=<pages> end=<pages> growth=<pages> cycles=<n> kinds=<per-kind counts>
 *          finished=<n>"
 */
#define _GNU_SOURCE
#include <stdio.h>
#include <stdlib.h>
#include <string.h>
#include <stdint.h>
#include <errno.h>
#include <time.h>
#include <unistd.h>
#include "myth/myth.h"

static long statm_pages(void) {
  FILE * f = fopen("/proc/self/statm", "r"); long v = -1;
  if (f) { if (fscanf(f, "%ld", &v) != 1) v = -1; fclose(f); }
  return v;
}
static uint64_t mix(uint64_t z) {
  z += 0x9E3779B97F4A7C15ULL; z = (z ^ (z >> 30)) * 0xBF58476D1CE4E5B9ULL; z = (z ^ (z >> 27)) * 0x94D049BB133111EBULL;
  return z ^ (z >> 31);
}
static volatile long finished;
static void * body(void * p) { volatile char pad[256]; pad[0] = 1; finished = finished + pad[0]; return p; }

enum { R_JOIN, R_TRYJOIN, R_TIMEDJOIN, R_DETACH_BEFORE, R_DETACH_AFTER, R_DETATTR, R_N };
static const size_t sizes[4] = { 0 /* attr == NULL */, 1 /* initialised attribute, default size */, 40000, 262144 };

int main(int argc, char ** argv) {
  long cycles = argc > 1 ? atol(argv[1]) : 100000; uint64_t rs = argc > 2 ? strtoull(argv[2], 0, 0) : 1;
  myth_globalattr_t ga; myth_globalattr_init(&ga);
  myth_globalattr_set_n_workers(&ga, 1);
  myth_init_ex(&ga);
  alarm(300);
  long kinds[R_N] = { 0 }, base = -1, maxafter = -1, bad = 0;
  for (long i = 0; i < cycles; i++) {
    int kind = (int)(i % R_N);
    int sz = (int)((i / R_N) % 4);
    if (mix(rs++) % 16 == 0) sz = (int)(mix(rs++) % 4);
    kinds[kind]++;
    myth_thread_attr_t at; myth_thread_t id = 0; void * v = 0;
    int use_attr = sz != 0 || kind == R_DETACH_BEFORE || kind == R_DETATTR;
    if (use_attr) {
      memset(&at, 0x5a, sizeof(at));
      myth_thread_attr_init(&at);
      if (sz >= 2) myth_thread_attr_setstacksize(&at, sizes[sz]);
      if (kind == R_DETACH_BEFORE) at.child_first = 0;
      if (kind == R_DETATTR) myth_thread_attr_setdetachstate(&at, 1);
      myth_create_ex(&id, &at, body, (void *)i);
    } else {
      id = myth_create(body, (void *)i);
    }
    int nl = (int)((i / (R_N * 4)) & 1);          /* every other round of 24: NULL result pointer */
    void ** vp = nl ? 0 : &v;
    switch (kind) {
    case R_JOIN:
      if (myth_join(id, vp) != 0 || (!nl && v != (void *)i)) bad++;
      break;
    case R_TRYJOIN:
      while (myth_tryjoin(id, vp) != 0) myth_yield();
      if (!nl && v != (void *)i) bad++;
      break;
    case R_TIMEDJOIN: {
      struct timespec ts; clock_gettime(CLOCK_REALTIME, &ts); ts.tv_sec += 5;
      if (myth_timedjoin(id, vp, &ts) != 0 || (!nl && v != (void *)i)) bad++;
      break; }
    case R_DETACH_BEFORE:             /* parent-first: the child has not run yet */
      myth_detach(id);
      myth_yield(); myth_yield();
      break;
    case R_DETACH_AFTER:              /* child-first, one worker: the child has finished */
      myth_detach(id);
      break;
    case R_DETATTR:
      break;
    }
    if ((i + 1) % (cycles / 10 ? cycles / 10 : 1) == 0) {
      long p = statm_pages();
      if (base < 0) base = p; else if (p > maxafter) maxafter = p;
    }
  }
  for (int k = 0; k < 8; k++) myth_yield();
  long end = statm_pages();
  if (end > maxafter) maxafter = end;
  printf("statm base=%ld max_after=%ld end=%ld growth=%ld cycles=%ld kinds=%ld/%ld/%ld/%ld/%ld/%ld finished=%ld bad=%ld\n",
         base, maxafter, end, maxafter - base, cycles, kinds[0], kinds[1], kinds[2], kinds[3], kinds[4], kinds[5], finished, bad);
  fflush(stdout);
  _exit(bad ? 1 : 0);
}
