/* C03 dynamic cross-check: registers and stack survive every context switch and migration.
 *
 *   c03_probe <nthreads> <iters> <seed>          (workers: MYTH_NUM_WORKERS)
 *
 * Probe threads load per-thread patterns into rbx, rbp, r12-r15 (assembly trampoline
 * c03_regprobe) and into a 16 KiB stack array, call a switching API (yield, mutex under
 * contention, create+join, cond_wait ping-pong, barrier) and compare on return.  rsp alignment is
 * sampled at every "cb.enter" event (the MYTH_VERIF hook inside each context-switch callback, which
 * runs on the TARGET stack) and at thread entry.
 * Hint phase (first): threads created with attr.custom_data_size in {16,24,100,512}, child-first and
 * parent-first; each fills a stack array, checks the hint copied at creation, suspends; the main thread
 * overwrites the hint through myth_wsapi_get_hint_ptr (and swaps it out and back with myth_wsapi_set_hint);
 * the thread verifies its locals and the new hint contents.  The layout (stack top from the "alloc.stack"
 * event, hint region, initial rsp read from the context at the "create.start" event) is printed as a
 * `hint ...` line per thread; an overlap of hint region and initial frames is reported with the byte range.
 * Yield storm (c03_probe <nthreads> <iters> <seed> yield <rounds>): per round a batch of nthreads threads, each calls myth_yield_ex with EVERY option
 * (half_half, local_only, local_first, steal_only, steal_first) in a tight loop through the register trampoline,
 * verifies registers and a stack array after every return, and keeps a per-thread owner word (cleared before the
 * yield, test-and-set after it): finding it already set means the thread runs on two workers at once.  A crash
 * (SIGSEGV/SIGBUS/SIGABRT) prints a `CRASH` line from an alternate signal stack and exits with status 3.
 * FP control state (c03_probe <nthreads> <iters> <seed> fp; separate process): every thread sets its own MXCSR control
 * bits and x87 control word, makes a switching call (yield / create child-first / create parent-first + join /
 * contended mutex) while siblings and children set other patterns on the same worker, and reads them back.
 * Output `fp mode=fp ... mxcsr_bad=.. x87_bad=..`; exit status 0 (the verdict is taken from the counters).
 * Main mode: every other probe thread and half of the children are created parent-first; the hook samples rsp
 * alignment in the first function of a new stack (create.start: myth_create_1 / myth_entry_point) and inside the
 * scheduler loop (sched.run); the counters are printed on the line before the last.
 * Last line of output:
 *   ok|FAIL threads=.. ops=.. switches_cb=.. migrations=.. reg_bad=.. stack_bad=.. cb_misaligned=.. entry_misaligned=.. first=<description>
 */
#include <stdio.h>
#include <stdlib.h>
#include <stdint.h>
#include <string.h>
#include <signal.h>
#include <unistd.h>
#include <myth/myth.h>
#include "myth_config.h"
#include "myth_verif.h"
#include "myth_thread.h"      /* struct myth_thread: context.rsp is read at the "create.start" event */

#define NWORDS 2048            /* 16 KiB of stack per probe thread */
#define CHILD_WORDS 256

static long g_cb_enter, g_cb_misaligned, g_entry, g_entry_misaligned;
static long g_first_cf, g_first_cf_mis, g_first_pf, g_first_pf_mis, g_sched, g_sched_mis;   /* first function on a stack / scheduler loop */
static long g_reg_bad, g_stack_bad, g_ops, g_migr, g_children;
static long g_hint_cases, g_hint_overlap, g_hint_bad, g_hint_local_bad;
static volatile uintptr_t g_last_stk;
static struct { const void *th; uintptr_t rsp; } g_init_rsp[64];
static int g_init_n;
static char g_first[256];
static int g_first_set;

static void note_first(const char *what, int tid, int op, long idx, uint64_t exp, uint64_t got) {
  if (__sync_bool_compare_and_swap(&g_first_set, 0, 1))
    snprintf(g_first, sizeof g_first, "%s tid=%d op=%d index=%ld expected=0x%llx got=0x%llx",
             what, tid, op, idx, (unsigned long long)exp, (unsigned long long)got);
}

/* the hook: called from inside the library (possibly on a stack that is being switched to) */
static void hook(int kind, const char *id, const void *obj, long val) {
  if (kind == MYTH_VERIF_KIND_EVENT && id[0] == 'a' && !strcmp(id, "alloc.stack")) g_last_stk = (uintptr_t)obj;
  if (kind == MYTH_VERIF_KIND_EVENT && id[0] == 's' && !strcmp(id, "sched.run")) {
    /* inside myth_sched_loop, i.e. on the scheduler's own stack, entered through a voidcall context */
    __sync_fetch_and_add(&g_sched, 1);
    if ((uintptr_t)__builtin_frame_address(0) % 16 != 0) {
      __sync_fetch_and_add(&g_sched_mis, 1);
      note_first("scheduler loop runs with misaligned rsp", -3, -1, 0, 0, (uintptr_t)__builtin_frame_address(0));
    }
  }
  if (kind == MYTH_VERIF_KIND_EVENT && id[0] == 'c' && id[1] == 'r' && !strcmp(id, "create.start")) {
    /* val 1: inside myth_create_1 (child-first: first function on a fresh empty context);
       val 0: inside myth_entry_point (parent-first: first function of a voidcall context) */
    uintptr_t fp0 = (uintptr_t)__builtin_frame_address(0);
    __sync_fetch_and_add(val ? &g_first_cf : &g_first_pf, 1);
    if (fp0 % 16 != 0) {
      __sync_fetch_and_add(val ? &g_first_cf_mis : &g_first_pf_mis, 1);
      note_first(val ? "first function of a child-first thread (myth_create_1) entered with misaligned rsp"
                     : "first function of a parent-first thread (myth_entry_point) entered with misaligned rsp", -4, (int)val, 0, 0, fp0);
    }
    /* the new thread has just been entered and has not been suspended yet: context.rsp is the initial one */
    int k = __sync_fetch_and_add(&g_init_n, 1) % 64;
    g_init_rsp[k].rsp = (uintptr_t)((const struct myth_thread *)obj)->context.rsp;
    g_init_rsp[k].th = obj;
  }
  if (kind == MYTH_VERIF_KIND_EVENT && id[0] == 'c' && id[1] == 'b' && id[3] == 'e') {   /* "cb.enter" */
    /* this function is compiled with a frame pointer: rbp = rsp at entry - 8; the ABI requires
       rsp at entry = 8 mod 16, which holds iff every caller up to the callback was entered aligned */
    uintptr_t fp = (uintptr_t)__builtin_frame_address(0);
    __sync_fetch_and_add(&g_cb_enter, 1);
    if (fp % 16 != 0) {
      __sync_fetch_and_add(&g_cb_misaligned, 1);
      note_first("callback entered with misaligned rsp", -1, -1, (long)(fp % 16), 0, fp);
    }
  }
}

/* void c03_regprobe(void (*fn)(void*), void *arg, uint64_t pat, uint64_t out[6]);
   loads pat+1..pat+6 into rbx rbp r12 r13 r14 r15, calls fn(arg), stores the registers to out */
__asm__(
  ".text\n"
  ".globl c03_regprobe\n"
  ".type c03_regprobe,@function\n"
  "c03_regprobe:\n"
  "  push %rbp\n  push %rbx\n  push %r12\n  push %r13\n  push %r14\n  push %r15\n"
  "  sub $24,%rsp\n"                      /* 8 (ret) + 48 + 24 = 80: rsp = 0 mod 16 at the call */
  "  mov %rcx,(%rsp)\n"
  "  lea 1(%rdx),%rbx\n  lea 2(%rdx),%rbp\n  lea 3(%rdx),%r12\n"
  "  lea 4(%rdx),%r13\n  lea 5(%rdx),%r14\n  lea 6(%rdx),%r15\n"
  "  mov %rdi,%rax\n  mov %rsi,%rdi\n"
  "  call *%rax\n"
  "  mov (%rsp),%rcx\n"
  "  mov %rbx,0(%rcx)\n  mov %rbp,8(%rcx)\n  mov %r12,16(%rcx)\n"
  "  mov %r13,24(%rcx)\n  mov %r14,32(%rcx)\n  mov %r15,40(%rcx)\n"
  "  add $24,%rsp\n"
  "  pop %r15\n  pop %r14\n  pop %r13\n  pop %r12\n  pop %rbx\n  pop %rbp\n"
  "  ret\n"
  ".size c03_regprobe,.-c03_regprobe\n");
void c03_regprobe(void (*fn)(void *), void *arg, uint64_t pat, uint64_t out[6]);

static uint64_t mix(uint64_t x) {
  x += 0x9E3779B97F4A7C15ull; x = (x ^ (x >> 30)) * 0xBF58476D1CE4E5B9ull;
  x = (x ^ (x >> 27)) * 0x94D049BB133111EBull; return x ^ (x >> 31);
}

static int g_n, g_iters;
static uint64_t g_seed;
static myth_mutex_t g_mtx;
static myth_barrier_t g_bar;
static volatile long g_shared;
typedef struct { myth_mutex_t m; myth_cond_t c; volatile int flag; } pair_t;
static pair_t *g_pairs;

typedef struct { int tid; int op; uint64_t rnd; } call_t;

static void *child(void *a) {
  volatile uint64_t arr[CHILD_WORDS];
  uint64_t key = (uint64_t)(uintptr_t)a;
  long i;
  if ((uintptr_t)__builtin_frame_address(0) % 16 != 0) {
    __sync_fetch_and_add(&g_entry_misaligned, 1);
    note_first("thread entered with misaligned rsp", -2, -1, 0, 0, (uintptr_t)__builtin_frame_address(0));
  }
  __sync_fetch_and_add(&g_entry, 1);
  for (i = 0; i < CHILD_WORDS; i++) arr[i] = mix(key + i);
  myth_yield();
  myth_yield();
  for (i = 0; i < CHILD_WORDS; i++)
    if (arr[i] != mix(key + i)) { __sync_fetch_and_add(&g_stack_bad, 1); note_first("child stack word changed", -2, 2, i, mix(key + i), arr[i]); break; }
  __sync_fetch_and_add(&g_children, 1);
  return (void *)(uintptr_t)(key ^ 0x5555);
}

/* the switching call, made with the patterns live in the callee-saved registers */
static void do_op(void *a) {
  call_t *c = (call_t *)a;
  switch (c->op) {
  case 0: myth_yield(); break;
  case 1:
    myth_mutex_lock(&g_mtx);
    g_shared++;
    if (c->rnd & 1) myth_yield();            /* hold the lock across a switch: contention blocks others */
    myth_mutex_unlock(&g_mtx);
    break;
  case 2: {
    void *res = 0;
    uint64_t key = c->rnd | 1;
    myth_thread_t th;
    myth_thread_attr_t attr;
    myth_thread_attr_init(&attr);
    attr.child_first = (int)((c->rnd >> 1) & 1);          /* half of the children parent-first */
    myth_create_ex(&th, &attr, child, (void *)(uintptr_t)key);
    myth_join(th, &res);
    if ((uint64_t)(uintptr_t)res != (key ^ 0x5555)) { __sync_fetch_and_add(&g_reg_bad, 1); note_first("join result wrong", c->tid, 2, 0, key ^ 0x5555, (uint64_t)(uintptr_t)res); }
    break; }
  case 3: myth_barrier_wait(&g_bar); break;
  case 4: {                                   /* cond_wait ping-pong inside a pair of threads */
    pair_t *p = &g_pairs[c->tid / 2];
    myth_mutex_lock(&p->m);
    if (c->tid % 2 == 0) {
      p->flag = 1; myth_cond_broadcast(&p->c);
      while (p->flag != 2) myth_cond_wait(&p->c, &p->m);
      p->flag = 0;
    } else {
      while (p->flag != 1) myth_cond_wait(&p->c, &p->m);
      p->flag = 2; myth_cond_broadcast(&p->c);
    }
    myth_mutex_unlock(&p->m);
    break; }
  case 5: myth_yield_ex(c->rnd & 1 ? myth_yield_option_steal_first : myth_yield_option_local_first); break;
  }
}


/* ---------------- hint (custom data) phase ---------------- */
#define HWORDS 512
typedef struct { volatile int ready, go; int child_first; size_t size; unsigned char a, b; long bad0, bad1, lbad; uintptr_t frame; } hctl_t;

static void *hint_victim(void *arg) {
  hctl_t *c = (hctl_t *)arg;
  volatile uint64_t arr[HWORDS];
  unsigned char *h;
  long i;
  for (i = 0; i < HWORDS; i++) arr[i] = mix(0xABCD0000ull + c->size * 1024 + i);
  c->frame = (uintptr_t)__builtin_frame_address(0);
  h = (unsigned char *)myth_wsapi_get_hint_ptr(0);
  if (myth_wsapi_get_hint_size(0) != c->size) c->bad0 += 1000000;
  for (i = 0; i < (long)c->size; i++) c->bad0 += (h[i] != c->a);       /* own frames must not have clobbered it */
  c->ready = 1;
  while (!c->go) myth_yield();
  for (i = 0; i < HWORDS; i++) c->lbad += (arr[i] != mix(0xABCD0000ull + c->size * 1024 + i));
  h = (unsigned char *)myth_wsapi_get_hint_ptr(0);
  for (i = 0; i < (long)c->size; i++) c->bad1 += (h[i] != c->b);
  return 0;
}

static void hint_phase(void) {
  static const size_t sizes[] = {16, 24, 100, 512};
  int order, k, j;
  for (order = 1; order >= 0; order--)
    for (k = 0; k < 4; k++) {
      hctl_t c;
      myth_thread_attr_t attr;
      myth_thread_t th;
      unsigned char buf[512], other[512];
      unsigned char *h;
      uintptr_t stk, rsp0 = 0, lo, hi, ohi;
      size_t size = sizes[k], i;
      memset(&c, 0, sizeof c);
      c.child_first = order; c.size = size; c.a = (unsigned char)(0x5A + k); c.b = (unsigned char)(0xA5 - k);
      memset(buf, c.a, sizeof buf);
      myth_thread_attr_init(&attr);
      attr.child_first = order; attr.custom_data = buf; attr.custom_data_size = size;
      myth_create_ex(&th, &attr, hint_victim, &c);
      stk = g_last_stk;
      while (!c.ready) myth_yield();
      for (j = 0; j < 64; j++) if (g_init_rsp[j].th == (const void *)th) rsp0 = g_init_rsp[j].rsp;
      h = (unsigned char *)myth_wsapi_get_hint_ptr(th);
      lo = (uintptr_t)h; hi = lo + size;
      ohi = rsp0 + (order ? 0 : 8);            /* parent-first: the word at the initial rsp holds the entry address */
      if (ohi > hi) ohi = hi;
      __sync_fetch_and_add(&g_hint_cases, 1);
      printf("hint order=%s size=%zu stk_minus_hint=%ld stk_minus_rsp0=%ld hint_mod16=%ld frame_below_hint=%d overlap=%ld",
             order ? "child" : "parent", size, (long)(stk - lo), (long)(stk - rsp0), (long)(lo % 16), c.frame < lo,
             lo < ohi ? (long)(ohi - lo) : 0L);
      if (lo < ohi) {
        printf(" overlap_bytes=[hint+0,hint+%ld) = [rsp0%+ld,rsp0%+ld) own_frames_clobbered_hint=%ld\n",
               (long)(ohi - lo), (long)lo - (long)rsp0, (long)ohi - (long)rsp0, c.bad0);
        fflush(stdout);
        __sync_fetch_and_add(&g_hint_overlap, 1);
        note_first("hint region overlaps the initial frames of its thread (index = bytes)", order, (int)size, (long)(ohi - lo), rsp0, lo);
        /* do not write into the thread's frames: it could not be resumed */
      } else {
        printf("\n");
        for (i = 0; i < size; i++) h[i] = c.b;                 /* update through the public pointer */
        if (k & 1) {                                           /* swap the hint out and back in */
          void *d = other; size_t s = sizeof other;
          myth_wsapi_set_hint(th, &d, &s);
          if (d != (void *)h || s != size) c.bad1 += 1000000;
          myth_wsapi_set_hint(th, &d, &s);
        }
      }
      c.b = (lo < ohi) ? c.a : c.b;
      c.go = 1;
      myth_join(th, 0);
      if (c.bad0 || c.bad1) { __sync_fetch_and_add(&g_hint_bad, 1); note_first("hint contents wrong (index: 0 at entry, 1 after update)", order, (int)size, c.bad0 ? 0 : 1, 0, c.bad0 ? c.bad0 : c.bad1); }
      if (c.lbad) { __sync_fetch_and_add(&g_hint_local_bad, 1); note_first("locals of a suspended thread changed by a hint update (index = words)", order, (int)size, c.lbad, 0, 0); }
    }
}

static void *probe(void *a) {
  int tid = (int)(intptr_t)a;
  volatile uint64_t arr[NWORDS];
  uint64_t out[6];
  uint64_t st = mix(g_seed * 1000003ull + tid);
  long i, k;
  if ((uintptr_t)__builtin_frame_address(0) % 16 != 0) {
    __sync_fetch_and_add(&g_entry_misaligned, 1);
    note_first("thread entered with misaligned rsp", tid, -1, 0, 0, (uintptr_t)__builtin_frame_address(0));
  }
  __sync_fetch_and_add(&g_entry, 1);
  for (k = 0; k < NWORDS; k++) arr[k] = mix(((uint64_t)tid << 32) + k);
  for (i = 0; i < g_iters; i++) {
    call_t c;
    uint64_t pat;
    int w0, w1;
    st = mix(st);
    c.tid = tid; c.rnd = st >> 8;
    if (i % 7 == 3) c.op = 3;                     /* everybody meets at the barrier */
    else if (i % 5 == 2 && (tid / 2) * 2 + 1 < g_n) c.op = 4;   /* both threads of a pair ping-pong */
    else { static const int free_ops[] = {0, 0, 1, 1, 2, 5}; c.op = free_ops[st % 6]; }
    pat = (mix(st) & ~0xFFull) | ((uint64_t)(tid & 0xF) << 4);
    w0 = myth_get_worker_num();
    c03_regprobe(do_op, &c, pat, out);
    w1 = myth_get_worker_num();
    if (w0 != w1) __sync_fetch_and_add(&g_migr, 1);
    __sync_fetch_and_add(&g_ops, 1);
    for (k = 0; k < 6; k++)
      if (out[k] != pat + k + 1) { __sync_fetch_and_add(&g_reg_bad, 1); note_first("callee-saved register changed (0=rbx 1=rbp 2..5=r12..r15)", tid, c.op, k, pat + k + 1, out[k]); }
    for (k = 0; k < NWORDS; k++)
      if (arr[k] != mix(((uint64_t)tid << 32) + k)) { __sync_fetch_and_add(&g_stack_bad, 1); note_first("stack word changed", tid, c.op, k, mix(((uint64_t)tid << 32) + k), arr[k]); break; }
  }
  return 0;
}


/* ---------------- yield storm ---------------- */
#define YWORDS 24
static long g_twice, g_yields;
static volatile long g_round;
static int g_force_opt = -1;
static const char *g_mode = "main";
typedef struct { volatile int owner; int tid; long resumed_elsewhere; } ythr_t;
static ythr_t *g_y;

static void do_yield(void *a) {
  call_t *c = (call_t *)a;
  ythr_t *y = &g_y[c->tid];
  y->owner = 0;                                   /* about to be suspended */
  __sync_synchronize();
  myth_yield_ex(c->op);
  if (__sync_lock_test_and_set(&y->owner, 1) != 0) {   /* somebody is already running this thread */
    __sync_fetch_and_add(&g_twice, 1);
    note_first("thread resumed while it is already running on another worker (yield option = op)", c->tid, c->op, 0, 0, 1);
  }
}

static void *ystorm(void *a) {
  int tid = (int)(intptr_t)a;
  volatile uint64_t arr[YWORDS];
  uint64_t out[6];
  uint64_t st = mix(g_seed * 7919ull + tid);
  long i, k;
  g_y[tid].owner = 1;
  for (k = 0; k < YWORDS; k++) arr[k] = mix(((uint64_t)(tid + 77) << 32) + k);
  for (i = 0; i < g_iters; i++) {
    call_t c;
    uint64_t pat;
    st = mix(st);
    c.tid = tid; c.rnd = st >> 8;
    /* rounds 0..4 (mod 6): every yield of the batch uses that one option; round 5: all options interleaved */
    c.op = g_force_opt >= 0 ? g_force_opt : (g_round % 6 < 5) ? (int)(g_round % 6) : (int)((i + tid) % 5);
    pat = (st & ~0xFFull) | ((uint64_t)(tid & 0xF) << 4);
    c03_regprobe(do_yield, &c, pat, out);
    for (k = 0; k < 6; k++)
      if (out[k] != pat + k + 1) { __sync_fetch_and_add(&g_reg_bad, 1); note_first("callee-saved register changed across myth_yield_ex (0=rbx 1=rbp 2..5=r12..r15; op = option)", tid, c.op, k, pat + k + 1, out[k]); }
    for (k = 0; k < YWORDS; k++)
      if (arr[k] != mix(((uint64_t)(tid + 77) << 32) + k)) { __sync_fetch_and_add(&g_stack_bad, 1); note_first("stack word changed across myth_yield_ex (op = option)", tid, c.op, k, mix(((uint64_t)(tid + 77) << 32) + k), arr[k]); break; }
    if (g_reg_bad || g_stack_bad || g_twice) break;
  }
  __sync_fetch_and_add(&g_yields, i);
  g_y[tid].owner = 0;
  return 0;
}


/* ---------------- floating-point control state ---------------- */
/* MXCSR control bits: exception masks 7-12, rounding 13-14, FZ 15, DAZ 6 (status flags 0-5 excluded);
   x87 control word: exception masks 0-5, precision 8-9, rounding 10-11 */
#define MXCSR_CTL 0xFFC0u
#define X87_CTL   0x0F3Fu
static long g_fp_checks, g_fp_mx_bad, g_fp_x87_bad, g_fp_by_op[4], g_fp_bad_by_op[4], g_fp_migr_bad;
static inline void fp_set(unsigned mx, unsigned short cw) { __asm__ volatile("ldmxcsr %0\n\tfldcw %1" : : "m"(mx), "m"(cw)); }
static inline void fp_get(unsigned *mx, unsigned short *cw) { __asm__ volatile("stmxcsr %0\n\tfnstcw %1" : "=m"(*mx), "=m"(*cw)); }
static void fp_pattern(int k, unsigned *mx, unsigned short *cw) {
  /* all exceptions masked (no SIGFPE); rounding mode k&3 in both units, FZ / DAZ and x87 precision vary with k */
  *mx = 0x1F80u | ((unsigned)(k & 3) << 13) | ((k & 4) ? 0x8000u : 0) | ((k & 8) ? 0x0040u : 0);
  *cw = (unsigned short)(0x003Fu | ((unsigned)(k & 3) << 10) | ((k & 4) ? 0x0300u : 0x0200u));
}
static void *fp_child(void *a) {
  unsigned mx; unsigned short cw;
  fp_pattern((int)(intptr_t)a, &mx, &cw);
  fp_set(mx, cw);                                   /* the other thread changes the worker's control state ... */
  myth_yield();
  return 0;                                         /* ... and finishes without restoring it */
}
static void *fp_thread(void *a) {
  int tid = (int)(intptr_t)a;
  uint64_t st = mix(g_seed * 31337ull + tid);
  unsigned mx0, mx, gmx; unsigned short cw0, cw, gcw;
  long i;
  fp_get(&mx0, &cw0);
  for (i = 0; i < g_iters; i++) {
    int op, k, w0, w1;
    st = mix(st);
    op = (int)(st % 4); k = (int)((st >> 8) % 16);
    fp_pattern((tid & 3) | (k & 12), &mx, &cw);     /* this thread's own pattern: rounding mode = tid mod 4 */
    fp_set(mx, cw);
    w0 = myth_get_worker_num();
    switch (op) {
    case 0: myth_yield(); break;
    case 1: { myth_thread_t c = myth_create(fp_child, (void *)(intptr_t)((tid + 1) & 3)); myth_join(c, 0); break; }   /* child-first: runs at once on this worker */
    case 2: { myth_thread_attr_t at; myth_thread_t c; myth_thread_attr_init(&at); at.child_first = 0;
              myth_create_ex(&c, &at, fp_child, (void *)(intptr_t)((tid + 2) & 3)); myth_join(c, 0); break; }          /* parent-first: join blocks */
    case 3: myth_mutex_lock(&g_mtx); myth_yield(); myth_mutex_unlock(&g_mtx); break;                                  /* contended mutex */
    }
    w1 = myth_get_worker_num();
    fp_get(&gmx, &gcw);
    __sync_fetch_and_add(&g_fp_checks, 1);
    __sync_fetch_and_add(&g_fp_by_op[op], 1);
    if ((gmx & MXCSR_CTL) != (mx & MXCSR_CTL)) {
      __sync_fetch_and_add(&g_fp_mx_bad, 1); __sync_fetch_and_add(&g_fp_bad_by_op[op], 1);
      if (w0 != w1) __sync_fetch_and_add(&g_fp_migr_bad, 1);
      note_first("MXCSR control bits changed across a switching call (op: 0 yield 1 create child-first 2 create parent-first+join 3 contended mutex)", tid, op, i, mx & MXCSR_CTL, gmx & MXCSR_CTL);
    }
    if ((gcw & X87_CTL) != (cw & X87_CTL)) {
      __sync_fetch_and_add(&g_fp_x87_bad, 1);
      note_first("x87 control word changed across a switching call", tid, op, i, cw & X87_CTL, gcw & X87_CTL);
    }
  }
  fp_set(mx0, cw0);
  return 0;
}

static char g_altstack[65536];
static void on_crash(int sig) {
  char buf[200];
  int n = snprintf(buf, sizeof buf, "CRASH signal=%d mode=%s threads=%d iters=%d seed=%llu yields_so_far=%ld\n",
                   sig, g_mode, g_n, g_iters, (unsigned long long)g_seed, g_yields);
  if (n > 0) { ssize_t r = write(1, buf, (size_t)n); (void)r; }
  _exit(3);
}
static void install_crash_handler(void) {
  stack_t ss; struct sigaction sa;
  ss.ss_sp = g_altstack; ss.ss_size = sizeof g_altstack; ss.ss_flags = 0;
  sigaltstack(&ss, 0);
  memset(&sa, 0, sizeof sa);
  sa.sa_handler = on_crash; sa.sa_flags = SA_ONSTACK | SA_RESETHAND;
  sigaction(SIGSEGV, &sa, 0); sigaction(SIGBUS, &sa, 0); sigaction(SIGABRT, &sa, 0); sigaction(SIGILL, &sa, 0);
}

int main(int argc, char **argv) {
  int i;
  myth_thread_t *th;
  g_n = argc > 1 ? atoi(argv[1]) : 4;
  g_iters = argc > 2 ? atoi(argv[2]) : 50;
  g_seed = argc > 3 ? strtoull(argv[3], 0, 10) : 1;
  if (g_n < 1) g_n = 1;
  if (argc > 4) g_mode = argv[4];
  install_crash_handler();
  if (!strcmp(g_mode, "main")) g_myth_verif_cb = hook;   /* the fp and yield modes run without the hook */
  myth_init();
  if (!strcmp(g_mode, "fp")) {
    /* separate process: the integer / stack / alignment probe is never run with a modified control state */
    g_myth_verif_cb = 0;
    myth_mutex_init(&g_mtx, 0);
    th = calloc(g_n, sizeof *th);
    for (i = 0; i < g_n; i++) th[i] = myth_create(fp_thread, (void *)(intptr_t)i);
    for (i = 0; i < g_n; i++) myth_join(th[i], 0);
    printf("fp mode=fp threads=%d checks=%ld mxcsr_bad=%ld x87_bad=%ld bad_after_migration=%ld checks_by_op=%ld,%ld,%ld,%ld mxcsr_bad_by_op=%ld,%ld,%ld,%ld first=%s\n",
           g_n, g_fp_checks, g_fp_mx_bad, g_fp_x87_bad, g_fp_migr_bad, g_fp_by_op[0], g_fp_by_op[1], g_fp_by_op[2], g_fp_by_op[3],
           g_fp_bad_by_op[0], g_fp_bad_by_op[1], g_fp_bad_by_op[2], g_fp_bad_by_op[3], g_first_set ? g_first : "-");
    fflush(stdout);
    myth_fini();
    return 0;
  }
  if (!strcmp(g_mode, "yield")) {
    g_myth_verif_cb = 0;      /* no hook here: the storm must run at full speed (alignment is sampled in the main mode) */
    /* batches: one worker creates nthreads short threads that rotate through ITS run queue with yields of every
       option; the other workers are idle thieves that take whatever appears at the steal end of that queue */
    long rounds = argc > 5 ? atol(argv[5]) : 200, r;
    if (argc > 6) g_force_opt = atoi(argv[6]);
    g_y = calloc(g_n, sizeof *g_y);
    th = calloc(g_n, sizeof *th);
    for (r = 0; r < rounds && !(g_reg_bad || g_stack_bad || g_twice); r++) {
      g_seed += 0x9E3779B9ull; g_round = r + (long)(g_seed % 6);
      for (i = 0; i < g_n; i++) th[i] = myth_create(ystorm, (void *)(intptr_t)i);
      for (i = 0; i < g_n; i++) myth_join(th[i], 0);
    }
    g_myth_verif_cb = 0;
    {
      int bad = g_reg_bad || g_stack_bad || g_twice || g_cb_misaligned;
      printf("%s mode=yield threads=%d yields=%ld switches_cb=%ld two_workers=%ld reg_bad=%ld stack_bad=%ld cb_misaligned=%ld first=%s\n",
             bad ? "FAIL" : "ok", g_n, g_yields, g_cb_enter, g_twice, g_reg_bad, g_stack_bad, g_cb_misaligned,
             g_first_set ? g_first : "-");
      fflush(stdout);
      if (bad) _exit(1);          /* do not run finalisation on a corrupted scheduler state */
      myth_fini();
      return 0;
    }
  }
  hint_phase();
  myth_mutex_init(&g_mtx, 0);
  myth_barrier_init(&g_bar, 0, g_n);
  g_pairs = calloc((g_n + 1) / 2, sizeof(pair_t));
  for (i = 0; i < (g_n + 1) / 2; i++) { myth_mutex_init(&g_pairs[i].m, 0); myth_cond_init(&g_pairs[i].c, 0); }
  th = calloc(g_n, sizeof *th);
  for (i = 0; i < g_n; i++) {
    myth_thread_attr_t attr;
    myth_thread_attr_init(&attr);                 /* global default: child-first unless MYTH_CHILD_FIRST=0 */
    if (i % 2) attr.child_first = 0;              /* every other probe thread parent-first */
    myth_create_ex(&th[i], &attr, probe, (void *)(intptr_t)i);
  }
  for (i = 0; i < g_n; i++) myth_join(th[i], 0);
  g_myth_verif_cb = 0;
  {
    int bad = g_reg_bad || g_stack_bad || g_cb_misaligned || g_entry_misaligned || g_hint_overlap || g_hint_bad || g_hint_local_bad
              || g_first_cf_mis || g_first_pf_mis || g_sched_mis;
    printf("first_child_first=%ld first_child_first_misaligned=%ld first_parent_first=%ld first_parent_first_misaligned=%ld sched_loop_samples=%ld sched_loop_misaligned=%ld\n",
           g_first_cf, g_first_cf_mis, g_first_pf, g_first_pf_mis, g_sched, g_sched_mis);
    printf("%s threads=%d ops=%ld children=%ld switches_cb=%ld entries=%ld migrations=%ld reg_bad=%ld stack_bad=%ld cb_misaligned=%ld entry_misaligned=%ld hint_cases=%ld hint_overlap=%ld hint_bad=%ld hint_local_bad=%ld first=%s\n",
           bad ? "FAIL" : "ok", g_n, g_ops, g_children, g_cb_enter, g_entry, g_migr, g_reg_bad, g_stack_bad,
           g_cb_misaligned, g_entry_misaligned, g_hint_cases, g_hint_overlap, g_hint_bad, g_hint_local_bad,
           g_first_set ? g_first : "-");
    fflush(stdout);
    myth_fini();
    return bad ? 1 : 0;
  }
}
