/* C17 harness for myth_create_join_many_ex / myth_create_join_various_ex.
 *
 * Reads cases on stdin, prints one result line per case.  Every case runs in a forked child
 * (the parent never initialises the runtime), so a crash, an assertion or a hang of the library
 * is an outcome line ("outcome=signal:11", "outcome=timeout", "outcome=runaway"), not a harness crash.
 *
 *   info
 *       -> "info attr_size=<sizeof(myth_thread_attr_t)> ptr=8 nfun=16 many_fid=3 default_child_first=<0|1>"
 *   bulk W kind n fs as rs is ts hasres hasids hasattrs [cf sk seed [wk]]
 *       W workers (MYTH_NUM_WORKERS), kind = many | various, n items, byte strides of the
 *       function / argument / result / id / attribute arrays, and whether results / ids /
 *       attrs are passed (1) or NULL (0).  Per-item attributes (slot j of the attrs array):
 *       cf = child_first pattern: 0 all 0 (help-first / parent-first creation), 1 all 1, 2 = j mod 2,
 *            3 = (j+1) mod 2, 4 = pseudo-random bit of (seed, j), 5 = what myth_thread_attr_init gives;
 *       sk = stack size pattern: 0 all 128 KiB, 1 pseudo-random 16..256 KiB incl. sizes that are not a
 *            power of two, 2 all 0 (the library's default stack path), 3 pseudo-random mix of 1 and 2.
 *            A custom stack size carries the slot number j in its low 12 bits (the library rounds up to 4 KiB).
 *       wk = 1: every application does work that forces interleaving: 0-3 myth_yield()s and a spin of a
 *            few hundred iterations (pseudo-random per item), a 256-byte stack array and, on a custom
 *            stack, a quarter of the promised stack (at most 32 KiB) filled with a private pattern and
 *            verified after every yield.  wk = 0: the body returns at once.
 *       Defaults when omitted: cf = 5, sk = 0, seed = 0, wk = 0.
 *   bulkbig W kind n ny
 *       one call over n items (argument stride 8, result stride 8, no ids, no attrs) whose bodies yield ny
 *       times -> "big n=<n> once=<items applied exactly once> other=<items applied another number of
 *       times> resok=<result slots holding the item's value> created=<k> reaped=<k>"
 *
 * Input layout: function slot j (at funcs + j*fs; only slot 0 when fs = 0) holds function number
 * j mod 16 (16 distinct C functions); `many` passes function number 3.  Function number k applied
 * to argument address x logs (k, x - args, myth_self()) and returns enc(k, x - args), a value whose
 * bytes are all in 0x40..0x7f.  Attribute slot j requests stack size pages(j)*4096 + j; the hook events
 * alloc.stack (stack block, requested size), create.init (descriptor, on the creating worker) and
 * create.start (descriptor, 1 = started by the creator switching to it, 0 = started later from the run
 * queue) give, for every created thread, the attribute slot it was created with and whether it was
 * created child first.  Every array lives in a buffer pre-filled with 0xA5 with PAD bytes in front and behind.
 *
 * Output (one line, no addresses; the part after " | " is schedule dependent and not compared):
 *   ret=<r> inv=<fid:argoff:inl:atag,...> res=<off:fid:argoff,...> resstray=<k> ids=<off,...>
 *   idmis=<k> idstray=<k> cre=<attr offset | -1 | -2>:<cf>,... created=<k> reaped=<k> argchg=<k> funchg=<k>
 *   attrchg=<k> stkbad=<k> | xw=<k> maxact=<k> yields=<k>
 * inv: every application (sorted; inl = 1 if it ran in the calling thread; atag = byte offset of the
 * attribute slot the thread running it was created with, found from inside the item through its thread's
 * creation record; -1 = calling thread or no attribute, -2 = attribute with stack size 0); res: every
 * 8-byte slot of the result buffer that now holds an encoded value (deduplicated), resstray: changed bytes
 * of the result buffer that are not part of such a slot; ids: offsets of the slots of the id buffer that
 * hold the handle of a thread that ran an application, idmis: slots i*is whose handle is not that of the
 * thread that ran item i (where the item is identifiable), idstray: changed bytes of the id buffer that are
 * not part of such a slot; cre: per creation the attribute slot offset (-1 = no attribute, -2 = attribute
 * with stack size 0) and the observed start path (1 child first, 0 parent first); created / reaped:
 * create.init / join.reap hook events during the call; *chg: changed bytes in the argument / function /
 * attribute arrays; stkbad: applications whose local variables were not inside the stack block their
 * thread was promised, or whose private stack pattern was overwritten.
 * xw: applications that started on a worker other than the one that created their thread; maxact: largest
 * number of applications started and not yet finished; yields: myth_yield() calls made by the bodies. */
#include <stdio.h>
#include <stdlib.h>
#include <string.h>
#include <stdint.h>
#include <unistd.h>
#include <signal.h>
#include <errno.h>
#include <time.h>
#include <sys/types.h>
#include <sys/wait.h>
#include <alloca.h>
#include "myth/myth.h"
#include "myth_verif.h"

#define PAD 64
#define FILL 0xA5
#define NFUN 16
#define MANY_FID 3
#define MAXEV 200000
#define CHILD_TIMEOUT 10
#define BIG_TIMEOUT 45
#define MAXW 64

typedef struct { int fid; long off; myth_thread_t self; long atag; } inv_t;
/* one record per created thread, filled by the hooks */
typedef struct { volatile myth_thread_t th; long size; char * stk; int creator; volatile int startval; } cre_t;
static inv_t g_inv[MAXEV];
static cre_t g_cre[MAXEV];
static volatile long g_ninv;
static char * g_args;
static volatile int g_in_call;
static myth_thread_t g_caller;
static volatile long g_ncreated, g_nreaped;
static long g_runaway = 20000;
static int g_big;                       /* bulkbig: hooks only count */
static long g_pend_size[MAXW]; static char * g_pend_stk[MAXW];
static volatile long g_active, g_maxact, g_xw, g_yields, g_stkbad;
static int g_wk; static long g_seed; static size_t g_ts; static int g_hasattrs;

static void emit_and_exit(const char * s, int code) {
  ssize_t r_ = write(1, s, strlen(s)); (void)r_;
  _exit(code);
}

/* latest creation record of a thread descriptor (descriptors are recycled; the latest one is the live one) */
static cre_t * cre_lookup(myth_thread_t th) {
  long k = g_ncreated < MAXEV ? g_ncreated : MAXEV;
  for (k--; k >= 0; k--) if (g_cre[k].th == th) return &g_cre[k];
  return 0;
}
static void cb(int kind, const char * id, const void * obj, long val) {
  (void)kind;
  if (!g_in_call) return;
  if (strcmp(id, "create.init") == 0) {
    long k = __sync_fetch_and_add(&g_ncreated, 1);
    if (k > g_runaway) emit_and_exit("outcome=runaway\n", 3);
    if (!g_big && k < MAXEV) {
      int w = myth_get_worker_num();
      g_cre[k].size = (w >= 0 && w < MAXW) ? g_pend_size[w] : 0;
      g_cre[k].stk = (w >= 0 && w < MAXW) ? g_pend_stk[w] : 0;
      g_cre[k].creator = w;
      g_cre[k].startval = -1;
      __sync_synchronize();
      g_cre[k].th = (myth_thread_t)obj;
    }
  } else if (strcmp(id, "join.reap") == 0) {
    __sync_fetch_and_add(&g_nreaped, 1);
  } else if (g_big) {
    return;
  } else if (strcmp(id, "alloc.stack") == 0) {
    int w = myth_get_worker_num();
    if (w >= 0 && w < MAXW) { g_pend_size[w] = val; g_pend_stk[w] = (char *)obj; }
  } else if (strcmp(id, "create.start") == 0) {
    cre_t * r = cre_lookup((myth_thread_t)obj);
    if (r) r->startval = (int)val;
  }
}

/* per-slot pseudo-random number, the same formula as in ocaml/driver_C17.ml */
static long slot_hash(long seed, long j) {
  return (seed * 7919 + j * 104729 + ((j * j) % 1009) * 31) % 1000003;
}
static int slot_child_first(int cf, long seed, long j, int dflt) {
  switch (cf) {
  case 0: return 0;
  case 1: return 1;
  case 2: return (int)(j % 2);
  case 3: return (int)((j + 1) % 2);
  case 4: return (int)(slot_hash(seed, j + 7) % 2);
  default: return dflt;
  }
}
static int slot_stack_zero(int sk, long seed, long j) {
  return sk == 2 || (sk == 3 && slot_hash(seed, j) % 3 == 0);
}
static size_t slot_stack(int sk, long seed, long j) {
  static const long pages[14] = { 4, 5, 6, 7, 8, 9, 12, 16, 20, 24, 32, 33, 48, 64 };
  if (slot_stack_zero(sk, seed, j)) return 0;
  if (sk == 0) return 32 * 4096 + (j & 0xfff);
  return pages[slot_hash(seed, j + 1) % 14] * 4096 + (j & 0xfff);
}
static long tag_of_size(long size) {
  return size == 0 ? (g_hasattrs ? -2 : -1) : (long)((size & 0xfff) * (long)g_ts);
}

static uint64_t enc(int fid, long off) {
  uint64_t x = ((uint64_t)fid << 40) | (uint64_t)off, r = 0;
  int i;
  for (i = 0; i < 8; i++) r |= (uint64_t)(0x40 | ((x >> (6 * i)) & 0x3f)) << (8 * i);
  return r;
}
static int dec(uint64_t v, int * fid, long * off) {
  uint64_t x = 0;
  int i;
  for (i = 0; i < 8; i++) {
    unsigned b = (v >> (8 * i)) & 0xff;
    if ((b & 0xc0) != 0x40) return 0;
    x |= (uint64_t)(b & 0x3f) << (6 * i);
  }
  *fid = (int)(x >> 40); *off = (long)(x & 0xffffffffffULL);
  return 1;
}

/* bulkbig: per-item counters */
static volatile int * g_cnt; static int g_ny;

static void * leaf_body(int fid, void * a) {
  volatile unsigned char loc[256];
  long off = (char *)a - g_args, k, act, m, atag = -1;
  myth_thread_t self = myth_self();
  if (g_big) {
    int y;
    for (y = 0; y < g_ny; y++) myth_yield();
    __sync_fetch_and_add(&g_cnt[off / 8], 1);
    return (void *)enc(fid, off);
  }
  act = __sync_add_and_fetch(&g_active, 1);
  while ((m = g_maxact) < act && !__sync_bool_compare_and_swap(&g_maxact, m, act)) { }
  {
    cre_t * rec = self == g_caller ? 0 : cre_lookup(self);
    long h = slot_hash(g_seed + fid, off), rounded = 0;
    int ny = g_wk ? (int)(h % 4) : 0, spin = g_wk ? (int)((h / 4) % 400) : 0, y, j, bad = 0;
    size_t use = 0, q;
    volatile unsigned char * buf = 0;
    if (rec) {
      atag = tag_of_size(rec->size);
      if (rec->creator != myth_get_worker_num()) __sync_fetch_and_add(&g_xw, 1);
      if (rec->size) {
        /* are we on the stack block this thread was promised? */
        rounded = (rec->size + 0xfff) & ~0xfffL;
        if (!((char *)loc >= rec->stk + 16 - rounded && (char *)loc < rec->stk + 16)) bad = 1;
        if (g_wk && rec->size >= 16384) { use = rec->size / 4; if (use > 32768) use = 32768; }
      }
    }
    if (g_wk) {
      for (j = 0; j < 256; j++) loc[j] = (unsigned char)(off * 31 + fid + j);
      if (use) {
        buf = (volatile unsigned char *)alloca(use);
        for (q = 0; q < use; q += 64) buf[q] = (unsigned char)(off * 7 + fid + q);
      }
      for (y = 0; y <= ny; y++) {
        volatile int sp;
        if (y > 0) { myth_yield(); __sync_fetch_and_add(&g_yields, 1); }
        for (sp = 0; sp < spin; sp++) { }
        for (j = 0; j < 256; j++) if (loc[j] != (unsigned char)(off * 31 + fid + j)) bad = 1;
        if (use)
          for (q = 0; q < use; q += 64) if (buf[q] != (unsigned char)(off * 7 + fid + q)) bad = 1;
      }
    }
    if (bad) __sync_fetch_and_add(&g_stkbad, 1);
  }
  k = __sync_fetch_and_add(&g_ninv, 1);
  if (k < MAXEV) { g_inv[k].fid = fid; g_inv[k].off = off; g_inv[k].self = self; g_inv[k].atag = atag; }
  __sync_fetch_and_sub(&g_active, 1);
  return (void *)enc(fid, off);
}
#define DEF(k) static void * fn##k(void * a) { return leaf_body(k, a); }
DEF(0) DEF(1) DEF(2) DEF(3) DEF(4) DEF(5) DEF(6) DEF(7)
DEF(8) DEF(9) DEF(10) DEF(11) DEF(12) DEF(13) DEF(14) DEF(15)
static myth_func_t FT[NFUN] = { fn0, fn1, fn2, fn3, fn4, fn5, fn6, fn7, fn8, fn9, fn10, fn11, fn12, fn13, fn14, fn15 };

static char * mkbuf(size_t stride, long n, size_t elem, size_t * len) {
  size_t body = (size_t)(n > 0 ? n : 1) * stride + elem;
  char * b;
  *len = PAD + body + PAD;
  b = malloc(*len);
  memset(b, FILL, *len);
  return b;
}
static long changed(const char * cur, const char * ref, size_t len) {
  long c = 0; size_t i;
  for (i = 0; i < len; i++) if (cur[i] != ref[i]) c++;
  return c;
}
static int cmp_inv(const void * a, const void * b) {
  const inv_t * x = a, * y = b;
  if (x->fid != y->fid) return x->fid < y->fid ? -1 : 1;
  if (x->off != y->off) return x->off < y->off ? -1 : 1;
  if ((x->self == g_caller) != (y->self == g_caller)) return (x->self == g_caller) ? 1 : -1;
  if (x->atag != y->atag) return x->atag < y->atag ? -1 : 1;
  return 0;
}
static int cmp_long2(const void * a, const void * b) {
  const long * x = a, * y = b;
  if (x[0] != y[0]) return x[0] < y[0] ? -1 : 1;
  return x[1] < y[1] ? -1 : x[1] > y[1];
}

static char g_out[1 << 22];
static size_t g_len;
#define OUT(...) do { g_len += snprintf(g_out + g_len, sizeof g_out - g_len, __VA_ARGS__); } while (0)

static void run_bulk(int W, const char * kind, long n, size_t fs, size_t as, size_t rs, size_t is, size_t ts,
                     int hasres, int hasids, int hasattrs, int cf, int sk, long seed, int wk) {
  char wbuf[16];
  size_t flen, alen, rlen, ilen, tlen, i;
  char * fbuf, * abuf, * rbuf, * ibuf, * tbuf, * fref, * tref;
  long j, ninv, nres = 0, resstray = 0, nid = 0, idmis = 0, idstray = 0;
  int many = strcmp(kind, "many") == 0, r;
  myth_thread_t caller;
  snprintf(wbuf, sizeof wbuf, "%d", W);
  setenv("MYTH_NUM_WORKERS", wbuf, 1);
  g_myth_verif_cb = cb;
  g_wk = wk; g_seed = seed; g_ts = ts; g_hasattrs = hasattrs;
  if (4 * n > g_runaway) g_runaway = 4 * n;
  myth_init();
  caller = g_caller = myth_self();

  fbuf = mkbuf(fs, n, sizeof(myth_func_t), &flen);
  abuf = mkbuf(as, n, 8, &alen);
  rbuf = mkbuf(rs, n, sizeof(void *), &rlen);
  ibuf = mkbuf(is, n, sizeof(myth_thread_t), &ilen);
  tbuf = mkbuf(ts, n, sizeof(myth_thread_attr_t), &tlen);
  g_args = abuf + PAD;
  for (j = 0; j < (fs ? (n > 0 ? n : 1) : 1); j++) {
    myth_func_t f = FT[j % NFUN];
    memcpy(fbuf + PAD + j * fs, &f, sizeof f);
  }
  for (j = 0; j < (ts ? (n > 0 ? n : 1) : 1); j++) {
    myth_thread_attr_t at;
    myth_thread_attr_init(&at);
    at.child_first = slot_child_first(cf, seed, j, at.child_first);
    at.stacksize = slot_stack(sk, seed, j);
    memcpy(tbuf + PAD + j * ts, &at, sizeof at);
  }
  fref = malloc(flen); memcpy(fref, fbuf, flen);
  tref = malloc(tlen); memcpy(tref, tbuf, tlen);

  g_in_call = 1;
  if (many)
    r = myth_create_join_many_ex(hasids ? (myth_thread_t *)(ibuf + PAD) : 0,
                                 hasattrs ? (myth_thread_attr_t *)(tbuf + PAD) : 0,
                                 FT[MANY_FID], abuf + PAD, hasres ? rbuf + PAD : 0,
                                 is, ts, as, rs, n);
  else
    r = myth_create_join_various_ex(hasids ? (myth_thread_t *)(ibuf + PAD) : 0,
                                    hasattrs ? (myth_thread_attr_t *)(tbuf + PAD) : 0,
                                    (myth_func_t *)(fbuf + PAD), abuf + PAD, hasres ? rbuf + PAD : 0,
                                    is, ts, fs, as, rs, n);
  g_in_call = 0;

  ninv = g_ninv < MAXEV ? g_ninv : MAXEV;
  OUT("ret=%d inv=", r);
  {
    inv_t * s = malloc(sizeof(inv_t) * (ninv + 1));
    memcpy(s, g_inv, sizeof(inv_t) * ninv);
    qsort(s, ninv, sizeof(inv_t), cmp_inv);
    for (j = 0; j < ninv; j++)
      OUT("%s%d:%ld:%d:%ld", j ? "," : "", s[j].fid, s[j].off, s[j].self == caller, s[j].atag);
    free(s);
  }
  /* result buffer: maximal runs of changed bytes, cut into 8-byte values */
  OUT(" res=");
  for (i = 0; i < rlen; ) {
    if ((unsigned char)rbuf[i] == FILL) { i++; continue; }
    if (i + 8 <= rlen) {
      uint64_t v; int fid; long off;
      memcpy(&v, rbuf + i, 8);
      if (dec(v, &fid, &off)) {
        OUT("%s%ld:%d:%ld", nres ? "," : "", (long)i - PAD, fid, off);
        nres++; i += 8; continue;
      }
    }
    resstray++; i++;
  }
  OUT(" resstray=%ld ids=", resstray);
  /* id buffer: 8-byte windows holding the handle of a thread that ran an application */
  for (i = 0; i < ilen; ) {
    int any = 0, hit = 0; size_t k;
    if (i + 8 <= ilen) {
      myth_thread_t h;
      for (k = 0; k < 8; k++) if ((unsigned char)ibuf[i + k] != FILL) any = 1;
      if (any) {
        memcpy(&h, ibuf + i, 8);
        for (j = 0; j < ninv; j++) if (g_inv[j].self == h) { hit = 1; break; }
        if (hit) { OUT("%s%ld", nid ? "," : "", (long)i - PAD); nid++; i += 8; continue; }
      }
    }
    if ((unsigned char)ibuf[i] != FILL) {
      /* a changed byte that does not start a valid handle: either a garbage slot or a stray write */
      idstray++;
    }
    i++;
  }
  if (hasids && is >= 8 && as > 0) {
    for (j = 0; j < n; j++) {
      myth_thread_t h; long q, cnt = 0, ok = 0;
      memcpy(&h, ibuf + PAD + j * is, 8);
      for (q = 0; q < ninv; q++) if (g_inv[q].off == (long)(j * as)) { cnt++; if (g_inv[q].self == h) ok = 1; }
      if (cnt == 1 && !ok) idmis++;
    }
  }
  OUT(" idmis=%ld idstray=%ld cre=", idmis, idstray);
  {
    long ns = g_ncreated < MAXEV ? g_ncreated : MAXEV;
    long * s = malloc(sizeof(long) * 2 * (ns + 1));
    for (j = 0; j < ns; j++) { s[2 * j] = tag_of_size(g_cre[j].size); s[2 * j + 1] = g_cre[j].startval; }
    qsort(s, ns, 2 * sizeof(long), cmp_long2);
    for (j = 0; j < ns; j++) OUT("%s%ld:%ld", j ? "," : "", s[2 * j], s[2 * j + 1]);
    free(s);
  }
  {
    char * aref = malloc(alen);
    memset(aref, FILL, alen);
    OUT(" created=%ld reaped=%ld argchg=%ld funchg=%ld attrchg=%ld stkbad=%ld | xw=%ld maxact=%ld yields=%ld\n",
        g_ncreated, g_nreaped, changed(abuf, aref, alen), changed(fbuf, fref, flen), changed(tbuf, tref, tlen),
        g_stkbad, g_xw, g_maxact, g_yields);
  }
  emit_and_exit(g_out, 0);
}

static void run_big(int W, const char * kind, long n, int ny) {
  char wbuf[16];
  char * abuf; void ** rbuf; myth_func_t f3 = FT[MANY_FID];
  long j, once = 0, other = 0, resok = 0;
  int r;
  snprintf(wbuf, sizeof wbuf, "%d", W);
  setenv("MYTH_NUM_WORKERS", wbuf, 1);
  g_myth_verif_cb = cb;
  g_big = 1; g_ny = ny; g_runaway = 4 * n + 1000;
  myth_init();
  g_caller = myth_self();
  abuf = malloc(8 * (n + 1)); rbuf = calloc(n + 1, sizeof(void *));
  g_cnt = calloc(n + 1, sizeof(int));
  g_args = abuf;
  g_in_call = 1;
  if (strcmp(kind, "many") == 0)
    r = myth_create_join_many_ex(0, 0, FT[MANY_FID], abuf, rbuf, 0, 0, 8, 8, n);
  else
    r = myth_create_join_various_ex(0, 0, &f3, abuf, rbuf, 0, 0, 0, 8, 8, n);
  g_in_call = 0;
  for (j = 0; j < n; j++) {
    if (g_cnt[j] == 1) once++; else other++;
    if (rbuf[j] == (void *)enc(MANY_FID, 8 * j)) resok++;
  }
  if (g_cnt[n] != 0 || rbuf[n] != 0) other++;
  OUT("big ret=%d n=%ld once=%ld other=%ld resok=%ld created=%ld reaped=%ld\n", r, n, once, other, resok, g_ncreated, g_nreaped);
  emit_and_exit(g_out, 0);
}


/* wait for the child at most `limit` seconds (SIGCHLD is blocked in main and consumed here); a child that
   is still running then is killed: the library may handle or block SIGALRM, so its own alarm is not enough */
static int wait_child(pid_t pid, int limit, int * st) {
  sigset_t ss; struct timespec to;
  sigemptyset(&ss); sigaddset(&ss, SIGCHLD);
  to.tv_sec = limit; to.tv_nsec = 0;
  for (;;) {
    pid_t r = waitpid(pid, st, WNOHANG);
    if (r == pid) return 0;
    if (r < 0) return -1;
    if (sigtimedwait(&ss, 0, &to) < 0 && errno == EAGAIN) {
      kill(pid, SIGKILL);
      waitpid(pid, st, 0);
      return 1;
    }
  }
}

int main(void) {
  { sigset_t ss; sigemptyset(&ss); sigaddset(&ss, SIGCHLD); sigprocmask(SIG_BLOCK, &ss, 0); }
  char line[1024];
  while (fgets(line, sizeof line, stdin)) {
    char op[32] = "", kind[32] = "";
    int W = 1, hr = 0, hi = 0, ht = 0, cf = 5, sk = 0, nf, wk = 0, big = 0, ny = 0; long seed = 0;
    long n = 0; unsigned long fs = 0, as = 0, rs = 0, is = 0, ts = 0;
    if (sscanf(line, "%31s", op) != 1) continue;
    if (strcmp(op, "info") == 0) {
      /* the default child_first of attr_init is read in a child: it initialises the runtime */
      int pfd[2], dcf = -1; pid_t ip;
      if (pipe(pfd) == 0 && (ip = fork()) >= 0) {
        if (ip == 0) { myth_thread_attr_t at; char c; myth_thread_attr_init(&at); c = (char)('0' + at.child_first); if (write(pfd[1], &c, 1) < 0) { } _exit(0); }
        else { char c = '?'; int st; close(pfd[1]); if (read(pfd[0], &c, 1) == 1) dcf = c - '0'; waitpid(ip, &st, 0); close(pfd[0]); }
      }
      printf("info attr_size=%zu ptr=%zu nfun=%d many_fid=%d default_child_first=%d\n", sizeof(myth_thread_attr_t), sizeof(void *), NFUN, MANY_FID, dcf);
      fflush(stdout);
      continue;
    }
    if (strcmp(op, "bulkbig") == 0) {
      if (sscanf(line, "%*s %d %31s %ld %d", &W, kind, &n, &ny) != 4 || n < 0 || n > 2000000) { printf("badcase\n"); fflush(stdout); continue; }
      big = 1;
    } else if (strcmp(op, "bulk") != 0 ||
        ((nf = sscanf(line, "%*s %d %31s %ld %lu %lu %lu %lu %lu %d %d %d %d %d %ld %d", &W, kind, &n, &fs, &as, &rs, &is, &ts, &hr, &hi, &ht,
                      &cf, &sk, &seed, &wk)) != 11 && nf != 14 && nf != 15)) {
      printf("badcase\n"); fflush(stdout); continue;
    }
    fflush(stdout);
    {
      pid_t pid = fork();
      int st = 0;
      if (pid == 0) {
        alarm(big ? BIG_TIMEOUT : CHILD_TIMEOUT);
        if (big) run_big(W, kind, n, ny);
        run_bulk(W, kind, n, fs, as, rs, is, ts, hr, hi, ht, cf, sk, seed, wk);
        _exit(0);
      }
      int wr = wait_child(pid, (big ? BIG_TIMEOUT : CHILD_TIMEOUT) + 2, &st);
      if (wr < 0) { printf("outcome=waitfail\n"); }
      else if (wr == 1) { printf("outcome=timeout\n"); }
      else if (WIFSIGNALED(st)) {
        if (WTERMSIG(st) == SIGALRM) printf("outcome=timeout\n");
        else printf("outcome=signal:%d\n", WTERMSIG(st));
      } else if (WIFEXITED(st) && WEXITSTATUS(st) != 0 && WEXITSTATUS(st) != 3) {
        printf("outcome=exit:%d\n", WEXITSTATUS(st));
      }
      fflush(stdout);
    }
  }
  return 0;
}
