/* C17 harness for myth_create_join_many_ex / myth_create_join_various_ex.
 *
 * Reads cases on stdin, prints one result line per case.  Every case runs in a forked child
 * (the parent never initialises the runtime), so a crash, an assertion or a hang of the library
 * is an outcome line ("outcome=signal:11", "outcome=timeout", "outcome=runaway"), not a harness crash.
 *
 *   info
 *       -> "info attr_size=<sizeof(myth_thread_attr_t)> ptr=8 nfun=16 many_fid=3"
 *   bulk W kind n fs as rs is ts hasres hasids hasattrs [cf sk seed]
 *       W workers (MYTH_NUM_WORKERS), kind = many | various, n items, byte strides of the
 *       function / argument / result / id / attribute arrays, and whether results / ids /
 *       attrs are passed (1) or NULL (0).  Per-item attributes (slot j of the attrs array):
 *       cf = child_first pattern: 0 all 0 (help-first / parent-first creation), 1 all 1, 2 = j mod 2,
 *            3 = (j+1) mod 2, 4 = pseudo-random bit of (seed, j), 5 = what myth_thread_attr_init gives;
 *       sk = stack size pattern: 0 all 128 KiB, 1 pseudo-random in {16,32,64,128,256} KiB, 2 all 0
 *            (the library's default stack path), 3 pseudo-random mix of 1 and 2.  A custom stack size
 *            carries the slot number j in its low 12 bits (the library rounds up to 4 KiB).
 *       Defaults when omitted: cf = 5, sk = 0, seed = 0.
 *
 * Input layout: function slot j (at funcs + j*fs; only slot 0 when fs = 0) holds function number
 * j mod 16 (16 distinct C functions); `many` passes function number 3.  Function number k applied
 * to argument address x logs (k, x - args, myth_self()) and returns enc(k, x - args), a value whose
 * bytes are all in 0x40..0x7f.  Attribute slot j requests stack size pages(j)*4096 + j, which the
 * alloc.stack hook event reports back, so the attribute slot used by every creation is observed
 * (-2 is printed for a creation through a slot that asks for stack size 0).
 * Every array lives in a buffer pre-filled with 0xA5 with PAD bytes in front and behind.
 *
 * Output (one line, no addresses):
 *   ret=<r> inv=<fid:argoff:inl,...> res=<off:fid:argoff,...> resstray=<k> ids=<off,...>
 *   idmis=<k> idstray=<k> cre=<attr offset | -1 | -2,...> created=<k> reaped=<k> argchg=<k> funchg=<k> attrchg=<k>
 * inv: every application (sorted; inl = 1 if it ran in the calling thread); res: every 8-byte slot
 * of the result buffer that now holds an encoded value (deduplicated), resstray: changed bytes of the
 * result buffer that are not part of such a slot; ids: offsets of the slots of the id buffer that hold
 * the handle of a thread that ran an application, idmis: slots
 * i*is whose handle is not that of the thread that ran item i (where the item is identifiable),
 * idstray: changed bytes of the id buffer that are not part of such a slot; cre: attribute slot offset of every creation (-1 = no attribute, -2 = attribute with stack size 0);
 * created / reaped: create.init / join.reap hook events during the call; *chg: changed bytes in the
 * argument / function / attribute arrays. */
#include <stdio.h>
#include <stdlib.h>
#include <string.h>
#include <stdint.h>
#include <unistd.h>
#include <signal.h>
#include <sys/types.h>
#include <sys/wait.h>
#include "myth/myth.h"
#include "myth_verif.h"

#define PAD 64
#define FILL 0xA5
#define NFUN 16
#define MANY_FID 3
#define MAXEV 200000
#define RUNAWAY 20000
#define CHILD_TIMEOUT 10

typedef struct { int fid; long off; myth_thread_t self; } inv_t;
static inv_t g_inv[MAXEV];
static volatile long g_ninv;
static char * g_args;
static volatile int g_in_call;
static myth_thread_t g_caller;
static volatile long g_ncreated, g_nreaped, g_nstk;
static long g_stk[MAXEV];

static void emit_and_exit(const char * s, int code) {
  ssize_t r_ = write(1, s, strlen(s)); (void)r_;
  _exit(code);
}

static void cb(int kind, const char * id, const void * obj, long val) {
  (void)kind; (void)obj;
  if (!g_in_call) return;
  if (strcmp(id, "create.init") == 0) {
    long k = __sync_fetch_and_add(&g_ncreated, 1);
    if (k > RUNAWAY) emit_and_exit("outcome=runaway\n", 3);
  } else if (strcmp(id, "join.reap") == 0) {
    __sync_fetch_and_add(&g_nreaped, 1);
  } else if (strcmp(id, "alloc.stack") == 0) {
    long k = __sync_fetch_and_add(&g_nstk, 1);
    if (k < MAXEV) g_stk[k] = val;
  }
}

/* per-slot pseudo-random number, the same formula as in ocaml/driver_C17.ml */
static long slot_hash(long seed, long j) {
  return (seed * 7919 + j * 104729 + ((j * j) % 1009) * 31) % 1000003;
}
static int slot_child_first(int cf, long seed, long j, int dflt) {
  switch (cf) {
  case 0: return 0;
  case 1: return 1;
  case 2: return (int)(j % 2);
  case 3: return (int)((j + 1) % 2);
  case 4: return (int)(slot_hash(seed, j + 7) % 2);
  default: return dflt;
  }
}
static int slot_stack_zero(int sk, long seed, long j) {
  return sk == 2 || (sk == 3 && slot_hash(seed, j) % 3 == 0);
}
static size_t slot_stack(int sk, long seed, long j) {
  static const long pages[5] = { 4, 8, 16, 32, 64 };
  if (slot_stack_zero(sk, seed, j)) return 0;
  if (sk == 0) return 32 * 4096 + (j & 0xfff);
  return pages[slot_hash(seed, j + 1) % 5] * 4096 + (j & 0xfff);
}

static uint64_t enc(int fid, long off) {
  uint64_t x = ((uint64_t)fid << 40) | (uint64_t)off, r = 0;
  int i;
  for (i = 0; i < 8; i++) r |= (uint64_t)(0x40 | ((x >> (6 * i)) & 0x3f)) << (8 * i);
  return r;
}
static int dec(uint64_t v, int * fid, long * off) {
  uint64_t x = 0;
  int i;
  for (i = 0; i < 8; i++) {
    unsigned b = (v >> (8 * i)) & 0xff;
    if ((b & 0xc0) != 0x40) return 0;
    x |= (uint64_t)(b & 0x3f) << (6 * i);
  }
  *fid = (int)(x >> 40); *off = (long)(x & 0xffffffffffULL);
  return 1;
}

static void * leaf_body(int fid, void * a) {
  long k = __sync_fetch_and_add(&g_ninv, 1);
  long off = (char *)a - g_args;
  if (k < MAXEV) { g_inv[k].fid = fid; g_inv[k].off = off; g_inv[k].self = myth_self(); }
  return (void *)enc(fid, off);
}
#define DEF(k) static void * fn##k(void * a) { return leaf_body(k, a); }
DEF(0) DEF(1) DEF(2) DEF(3) DEF(4) DEF(5) DEF(6) DEF(7)
DEF(8) DEF(9) DEF(10) DEF(11) DEF(12) DEF(13) DEF(14) DEF(15)
static myth_func_t FT[NFUN] = { fn0, fn1, fn2, fn3, fn4, fn5, fn6, fn7, fn8, fn9, fn10, fn11, fn12, fn13, fn14, fn15 };

static char * mkbuf(size_t stride, long n, size_t elem, size_t * len) {
  size_t body = (size_t)(n > 0 ? n : 1) * stride + elem;
  char * b;
  *len = PAD + body + PAD;
  b = malloc(*len);
  memset(b, FILL, *len);
  return b;
}
static long changed(const char * cur, const char * ref, size_t len) {
  long c = 0; size_t i;
  for (i = 0; i < len; i++) if (cur[i] != ref[i]) c++;
  return c;
}
static int cmp_inv(const void * a, const void * b) {
  const inv_t * x = a, * y = b;
  if (x->fid != y->fid) return x->fid < y->fid ? -1 : 1;
  if (x->off != y->off) return x->off < y->off ? -1 : 1;
  if ((x->self == g_caller) != (y->self == g_caller)) return (x->self == g_caller) ? 1 : -1;
  return 0;
}
static int cmp_long(const void * a, const void * b) {
  long x = *(const long *)a, y = *(const long *)b;
  return x < y ? -1 : x > y;
}

static char g_out[1 << 22];
static size_t g_len;
#define OUT(...) do { g_len += snprintf(g_out + g_len, sizeof g_out - g_len, __VA_ARGS__); } while (0)

static void run_bulk(int W, const char * kind, long n, size_t fs, size_t as, size_t rs, size_t is, size_t ts,
                     int hasres, int hasids, int hasattrs, int cf, int sk, long seed) {
  char wbuf[16];
  size_t flen, alen, rlen, ilen, tlen, i;
  char * fbuf, * abuf, * rbuf, * ibuf, * tbuf, * fref, * tref;
  long j, ninv, nres = 0, resstray = 0, nid = 0, idmis = 0, idstray = 0;
  int many = strcmp(kind, "many") == 0, r;
  myth_thread_t caller;
  snprintf(wbuf, sizeof wbuf, "%d", W);
  setenv("MYTH_NUM_WORKERS", wbuf, 1);
  g_myth_verif_cb = cb;
  myth_init();
  caller = g_caller = myth_self();

  fbuf = mkbuf(fs, n, sizeof(myth_func_t), &flen);
  abuf = mkbuf(as, n, 8, &alen);
  rbuf = mkbuf(rs, n, sizeof(void *), &rlen);
  ibuf = mkbuf(is, n, sizeof(myth_thread_t), &ilen);
  tbuf = mkbuf(ts, n, sizeof(myth_thread_attr_t), &tlen);
  g_args = abuf + PAD;
  for (j = 0; j < (fs ? (n > 0 ? n : 1) : 1); j++) {
    myth_func_t f = FT[j % NFUN];
    memcpy(fbuf + PAD + j * fs, &f, sizeof f);
  }
  for (j = 0; j < (ts ? (n > 0 ? n : 1) : 1); j++) {
    myth_thread_attr_t at;
    myth_thread_attr_init(&at);
    at.child_first = slot_child_first(cf, seed, j, at.child_first);
    at.stacksize = slot_stack(sk, seed, j);
    memcpy(tbuf + PAD + j * ts, &at, sizeof at);
  }
  fref = malloc(flen); memcpy(fref, fbuf, flen);
  tref = malloc(tlen); memcpy(tref, tbuf, tlen);

  g_in_call = 1;
  if (many)
    r = myth_create_join_many_ex(hasids ? (myth_thread_t *)(ibuf + PAD) : 0,
                                 hasattrs ? (myth_thread_attr_t *)(tbuf + PAD) : 0,
                                 FT[MANY_FID], abuf + PAD, hasres ? rbuf + PAD : 0,
                                 is, ts, as, rs, n);
  else
    r = myth_create_join_various_ex(hasids ? (myth_thread_t *)(ibuf + PAD) : 0,
                                    hasattrs ? (myth_thread_attr_t *)(tbuf + PAD) : 0,
                                    (myth_func_t *)(fbuf + PAD), abuf + PAD, hasres ? rbuf + PAD : 0,
                                    is, ts, fs, as, rs, n);
  g_in_call = 0;

  ninv = g_ninv < MAXEV ? g_ninv : MAXEV;
  OUT("ret=%d inv=", r);
  {
    inv_t * s = malloc(sizeof(inv_t) * (ninv + 1));
    memcpy(s, g_inv, sizeof(inv_t) * ninv);
    qsort(s, ninv, sizeof(inv_t), cmp_inv);
    for (j = 0; j < ninv; j++)
      OUT("%s%d:%ld:%d", j ? "," : "", s[j].fid, s[j].off, s[j].self == caller);
    free(s);
  }
  /* result buffer: maximal runs of changed bytes, cut into 8-byte values */
  OUT(" res=");
  for (i = 0; i < rlen; ) {
    if ((unsigned char)rbuf[i] == FILL) { i++; continue; }
    if (i + 8 <= rlen) {
      uint64_t v; int fid; long off;
      memcpy(&v, rbuf + i, 8);
      if (dec(v, &fid, &off)) {
        OUT("%s%ld:%d:%ld", nres ? "," : "", (long)i - PAD, fid, off);
        nres++; i += 8; continue;
      }
    }
    resstray++; i++;
  }
  OUT(" resstray=%ld ids=", resstray);
  /* id buffer: 8-byte windows holding the handle of a thread that ran an application */
  for (i = 0; i < ilen; ) {
    int any = 0, hit = 0; size_t k;
    if (i + 8 <= ilen) {
      myth_thread_t h;
      for (k = 0; k < 8; k++) if ((unsigned char)ibuf[i + k] != FILL) any = 1;
      if (any) {
        memcpy(&h, ibuf + i, 8);
        for (j = 0; j < ninv; j++) if (g_inv[j].self == h) { hit = 1; break; }
        if (hit) { OUT("%s%ld", nid ? "," : "", (long)i - PAD); nid++; i += 8; continue; }
      }
    }
    if ((unsigned char)ibuf[i] != FILL) {
      /* a changed byte that does not start a valid handle: either a garbage slot or a stray write */
      idstray++;
    }
    i++;
  }
  if (hasids && is >= 8 && as > 0) {
    for (j = 0; j < n; j++) {
      myth_thread_t h; long q, cnt = 0, ok = 0;
      memcpy(&h, ibuf + PAD + j * is, 8);
      for (q = 0; q < ninv; q++) if (g_inv[q].off == (long)(j * as)) { cnt++; if (g_inv[q].self == h) ok = 1; }
      if (cnt == 1 && !ok) idmis++;
    }
  }
  OUT(" idmis=%ld idstray=%ld cre=", idmis, idstray);
  {
    long ns = g_nstk < MAXEV ? g_nstk : MAXEV;
    long * s = malloc(sizeof(long) * (ns + 1));
    for (j = 0; j < ns; j++) s[j] = g_stk[j] == 0 ? (hasattrs ? -2 : -1) : (long)((g_stk[j] & 0xfff) * (long)ts);
    qsort(s, ns, sizeof(long), cmp_long);
    for (j = 0; j < ns; j++) OUT("%s%ld", j ? "," : "", s[j]);
    free(s);
  }
  {
    char * aref = malloc(alen);
    memset(aref, FILL, alen);
    OUT(" created=%ld reaped=%ld argchg=%ld funchg=%ld attrchg=%ld\n", g_ncreated, g_nreaped,
        changed(abuf, aref, alen), changed(fbuf, fref, flen), changed(tbuf, tref, tlen));
  }
  emit_and_exit(g_out, 0);
}

int main(void) {
  char line[1024];
  while (fgets(line, sizeof line, stdin)) {
    char op[32] = "", kind[32] = "";
    int W = 1, hr = 0, hi = 0, ht = 0, cf = 5, sk = 0, nf; long seed = 0;
    long n = 0; unsigned long fs = 0, as = 0, rs = 0, is = 0, ts = 0;
    if (sscanf(line, "%31s", op) != 1) continue;
    if (strcmp(op, "info") == 0) {
      printf("info attr_size=%zu ptr=%zu nfun=%d many_fid=%d\n", sizeof(myth_thread_attr_t), sizeof(void *), NFUN, MANY_FID);
      fflush(stdout);
      continue;
    }
    if (strcmp(op, "bulk") != 0 ||
        ((nf = sscanf(line, "%*s %d %31s %ld %lu %lu %lu %lu %lu %d %d %d %d %d %ld", &W, kind, &n, &fs, &as, &rs, &is, &ts, &hr, &hi, &ht,
                      &cf, &sk, &seed)) != 11 && nf != 14)) {
      printf("badcase\n"); fflush(stdout); continue;
    }
    fflush(stdout);
    {
      pid_t pid = fork();
      int st = 0;
      if (pid == 0) {
        alarm(CHILD_TIMEOUT);
        run_bulk(W, kind, n, fs, as, rs, is, ts, hr, hi, ht, cf, sk, seed);
        _exit(0);
      }
      if (waitpid(pid, &st, 0) < 0) { printf("outcome=waitfail\n"); }
      else if (WIFSIGNALED(st)) {
        if (WTERMSIG(st) == SIGALRM) printf("outcome=timeout\n");
        else printf("outcome=signal:%d\n", WTERMSIG(st));
      } else if (WIFEXITED(st) && WEXITSTATUS(st) != 0 && WEXITSTATUS(st) != 3) {
        printf("outcome=exit:%d\n", WEXITSTATUS(st));
      }
      fflush(stdout);
    }
  }
  return 0;
}
