/* C07 unit harness: calc_bits, the init fields, the word widths and wide-value ("preset") runs of the
 * join counter, from the CURRENT tree (static inline functions of src/myth_sync_func.h, included
 * directly; struct layout from include/myth/myth.h).
 *
 *   calc <x>        -> "calc <bits>"                                   calc_bits(x)
 *   init <n>        -> "init n=<n> bits=<b> mask=<m> state=<s>"        myth_join_counter_init_body(jc, 0, n)
 *   widths 0        -> "widths state=<bytes> state_signed=<0|1> n_threads=<bytes> state_mask=<bytes> n_threads_bits=<bytes>"
 *                      sizeof of the words coq/JoinCounter/JcModel.v treats as 64-bit two's-complement longs
 *   reinit <n1> <a|n> <n2> <a|n> ...
 *                   -> "reinit n=.. bits=.. mask=.. state=.. ; n=.. ..."   one group per incarnation
 *      Object lifecycle: ONE object (dirty memory first) is initialised with myth_join_counter_init_body(jc, attr, n_i)
 *      several times, attr = NULL ('n') or an initialised myth_join_counterattr_t ('a'); after each incarnation the
 *      harness stores the word of a completed round ((2 << bits) | n_i: two waiters, n_i decrements) into jc->state
 *      through the struct, so that the next init sees a used object.
 *   preset <n> <k> <w>
 *                   -> "preset n=<n> k=<k> reg=<word after k registrations> pre=<word after the preset> dec=<ret>
 *                       state=<final word> released=<r> rets=<sum of wait return values> q=<queue length at the end>"
 *      A white-box scenario that exercises wide words without 2^30 real decrements: the runtime is
 *      started with <w> workers, the counter is initialised with N = <n> (body, long argument), <k> real
 *      threads call myth_join_counter_wait and fall asleep (the harness waits until all k sit in the
 *      sleep queue), then the harness ADDS N-1 TO jc->state DIRECTLY THROUGH THE STRUCT (a harness preset
 *      standing for N-1 decrements; not an API operation), performs the final decrement with
 *      myth_join_counter_dec and gives the waiters 3 s of wall time to come back.
 *
 * Every case runs in a forked child with an alarm: a child that is killed (assertion failure ->
 * SIGABRT, non-terminating loop -> SIGALRM, exit(1) of the library) prints "<kind> none". */
#include <stdio.h>
#include <stdlib.h>
#include <string.h>
#include <unistd.h>
#include <time.h>
#include <sys/wait.h>
#include "myth/myth.h"
#include "myth_config.h"
#include "myth_sched_func.h"
#include "myth_sync_func.h"

static myth_join_counter_t g_jc[1];
static volatile long g_released, g_rets;

static void * waiter(void * arg) {
  (void)arg;
  long r = myth_join_counter_wait(g_jc);
  __sync_fetch_and_add(&g_rets, r);
  __sync_fetch_and_add(&g_released, 1);
  return 0;
}

static long qlen(myth_sleep_queue_t * q) {
  long n = 0;
  myth_sleep_queue_item_t it = q->head;
  while (it && n < 1000000) { n++; it = it->next; }
  return n;
}

static double now(void) {
  struct timespec ts; clock_gettime(CLOCK_MONOTONIC, &ts);
  return ts.tv_sec + ts.tv_nsec * 1e-9;
}

static void preset(long n, long k, long w, char * out, size_t outsz) {
  myth_globalattr_t ga; myth_globalattr_init(&ga);
  myth_globalattr_set_n_workers(&ga, (int)(w < 1 ? 1 : w));
  myth_init_ex(&ga);
  memset(g_jc, 0x5a, sizeof(g_jc));
  myth_join_counter_init_body(g_jc, 0, n);
  for (long i = 0; i < k; i++) myth_create(waiter, 0);
  /* all k waiters asleep in the queue (their registration CAS and enqueue callback done) */
  double t0 = now();
  while (qlen(g_jc->sleep_q) < k && now() - t0 < 30.0) myth_yield();   /* never waits on a healthy tree */
  long reg = (long)g_jc->state;
  /* harness preset: N-1 decrements' worth stored into the low field, through the struct */
  g_jc->state = g_jc->state + (n - 1);
  long pre = (long)g_jc->state;
  long dec = myth_join_counter_dec(g_jc);
  t0 = now();
  while (g_released < k && now() - t0 < 3.0) myth_yield();
  snprintf(out, outsz, "preset n=%ld k=%ld reg=%ld pre=%ld dec=%ld state=%ld released=%ld rets=%ld q=%ld\n",
           n, k, reg, pre, dec, (long)g_jc->state, (long)g_released, (long)g_rets, qlen(g_jc->sleep_q));
}

int main(void) {
  char line[256], kind[32];
  long x, k, w;
  while (fgets(line, sizeof(line), stdin)) {
    k = 0; w = 1;
    if (sscanf(line, "%31s %ld %ld %ld", kind, &x, &k, &w) < 2) { printf("bad\n"); fflush(stdout); continue; }
    int fd[2];
    if (pipe(fd)) { perror("pipe"); return 2; }
    fflush(stdout);
    pid_t p = fork();
    if (p == 0) {
      char out[512]; out[0] = 0;
      close(fd[0]);
      /* the assertion message of a killed child is noise */
      freopen("/dev/null", "w", stderr);
      if (!strcmp(kind, "calc")) {
        alarm(1);
        int b = calc_bits(x);
        snprintf(out, sizeof(out), "calc %d\n", b);
      } else if (!strcmp(kind, "init")) {
        alarm(1);
        static myth_join_counter_t jc;
        memset(&jc, 0x5a, sizeof(jc));
        myth_join_counter_init_body(&jc, 0, x);
        snprintf(out, sizeof(out), "init n=%ld bits=%d mask=%ld state=%ld\n",
                 jc.n_threads, jc.n_threads_bits, jc.state_mask, (long)jc.state);
      } else if (!strcmp(kind, "widths")) {
        static myth_join_counter_t jc;
        snprintf(out, sizeof(out), "widths state=%d state_signed=%d n_threads=%d state_mask=%d n_threads_bits=%d\n",
                 (int)sizeof(jc.state), (int)((__typeof__(jc.state))-1 < 0), (int)sizeof(jc.n_threads),
                 (int)sizeof(jc.state_mask), (int)sizeof(jc.n_threads_bits));
      } else if (!strcmp(kind, "reinit")) {
        alarm(2);
        static myth_join_counter_t jc;
        memset(&jc, 0x5a, sizeof(jc));
        char * save = 0; char * tok = strtok_r(line, " \t\n", &save);      /* "reinit" */
        size_t off = (size_t)snprintf(out, sizeof(out), "reinit");
        int first = 1;
        while ((tok = strtok_r(0, " \t\n", &save))) {
          long ni = strtol(tok, 0, 10);
          char * fl = strtok_r(0, " \t\n", &save);
          if (fl && fl[0] == 'a') {
            myth_join_counterattr_t a; memset(&a, 0x5a, sizeof(a));
            myth_join_counterattr_init_body(&a);
            myth_join_counter_init_body(&jc, &a, ni);
            myth_join_counterattr_destroy_body(&a);
          } else {
            myth_join_counter_init_body(&jc, 0, ni);
          }
          off += (size_t)snprintf(out + off, sizeof(out) - off, "%s n=%ld bits=%d mask=%ld state=%ld", first ? "" : " ;",
                                  jc.n_threads, jc.n_threads_bits, jc.state_mask, (long)jc.state);
          first = 0;
          /* the object is used: word of a completed round with two waiters */
          jc.state = (2L << jc.n_threads_bits) | ni;
        }
        snprintf(out + off, sizeof(out) - off, "\n");
      } else if (!strcmp(kind, "preset")) {
        alarm(45);
        preset(x, k, w, out, sizeof(out));
      } else {
        snprintf(out, sizeof(out), "bad\n");
      }
      if (write(fd[1], out, strlen(out)) < 0) _exit(3);
      _exit(0);
    }
    close(fd[1]);
    char buf[512]; ssize_t n = read(fd[0], buf, sizeof(buf) - 1);
    close(fd[0]);
    int st = 0; waitpid(p, &st, 0);
    if (n > 0 && WIFEXITED(st) && WEXITSTATUS(st) == 0) { buf[n] = 0; fputs(buf, stdout); }
    else printf("%s none\n", kind);
    fflush(stdout);
  }
  return 0;
}
