/* C07 unit harness: calc_bits and the init fields of the join counter, from the CURRENT tree
 * (static inline functions of src/myth_sync_func.h, included directly).
 *
 *   calc <x>   -> "calc <bits>"                                   calc_bits(x)
 *   init <n>   -> "init n=<n> bits=<b> mask=<m> state=<s>"        myth_join_counter_init_body(jc, 0, n)
 *
 * Every case runs in a forked child with a 1 s alarm: a child that is killed (assertion
 * failure -> SIGABRT, non-terminating loop -> SIGALRM) prints "<kind> none", which is what the
 * model answers outside the representable range.  The myth runtime is not started: none of the
 * two functions needs it. */
#include <stdio.h>
#include <stdlib.h>
#include <string.h>
#include <unistd.h>
#include <sys/wait.h>
#include "myth/myth.h"
#include "myth_config.h"
#include "myth_sched_func.h"
#include "myth_sync_func.h"

int main(void) {
  char line[256], kind[32];
  long x;
  while (fgets(line, sizeof(line), stdin)) {
    if (sscanf(line, "%31s %ld", kind, &x) != 2) { printf("bad\n"); fflush(stdout); continue; }
    int fd[2];
    if (pipe(fd)) { perror("pipe"); return 2; }
    fflush(stdout);
    pid_t p = fork();
    if (p == 0) {
      char out[256]; out[0] = 0;
      close(fd[0]);
      /* the assertion message of a killed child is noise */
      freopen("/dev/null", "w", stderr);
      alarm(1);
      if (!strcmp(kind, "calc")) {
        int b = calc_bits(x);
        snprintf(out, sizeof(out), "calc %d\n", b);
      } else if (!strcmp(kind, "init")) {
        static myth_join_counter_t jc;
        memset(&jc, 0x5a, sizeof(jc));
        myth_join_counter_init_body(&jc, 0, x);
        snprintf(out, sizeof(out), "init n=%ld bits=%d mask=%ld state=%ld\n",
                 jc.n_threads, jc.n_threads_bits, jc.state_mask, (long)jc.state);
      } else {
        snprintf(out, sizeof(out), "bad\n");
      }
      if (write(fd[1], out, strlen(out)) < 0) _exit(3);
      _exit(0);
    }
    close(fd[1]);
    char buf[256]; ssize_t n = read(fd[0], buf, sizeof(buf) - 1);
    close(fd[0]);
    int st = 0; waitpid(p, &st, 0);
    if (n > 0 && WIFEXITED(st) && WEXITSTATUS(st) == 0) { buf[n] = 0; fputs(buf, stdout); }
    else printf("%s none\n", kind);
    fflush(stdout);
  }
  return 0;
}
