/* C11 whole-library harness: threads of the real runtime store values under subsets of keys and then
 * terminate in one of three ways; every destructor call is logged with the identity of the destructor
 * (one function per created key, harness/c10_dtors.h), the value and the terminating thread.
 *
 * One case on stdin:
 *   W NK d_0 .. d_{NK-1}  T  { kind ns (slot v)*ns }*T
 *     W workers; NK keys are created in order, the j-th with destructor DTOR[j] when d_j = 1, without
 *     when d_j = 0; T threads; kind 0 = the thread function returns, 1 = myth_exit from a nested call,
 *     2 = the thread polls myth_testcancel and is cancelled by main; each thread stores value v under
 *     the slot-th created key for its (slot, v) pairs, in order (slot -1: no store).
 *     A pair (slot, v) with slot <= -2 re-creates slot j = -2 - slot: the thread deletes that key and
 *     creates a new one (with destructor DTOR[j] when v = 1, without when v = 0; v = 2: the key is only
 *     deleted and NOT created again - reported as "rec j:-1"); the free list is LIFO, so
 *     the new key has the same index unless other threads interfere - therefore W < 0 means |W| workers
 *     and the threads are run ONE AFTER THE OTHER (created, cancelled if kind 2, joined).
 *     d_j > 1 selects what the destructor of the j-th key DOES after it has recorded a call with a non-NULL value:
 *       2,3,4  myth_yield() 1, 2, 3 times          5  myth_testcancel() (a cancellation point inside the destructor)
 *       6      myth_mutex_lock / unlock of a mutex that a helper thread holds most of the time (the dying thread blocks)
 *       7 / 8  when called with a non-NULL value v: myth_setspecific(key of slot j+1 / j-1, v + 7)  (a NEW value stored
 *              during the pass, under a key the walk has not / has already visited)
 * Output:
 *   keys k_0 .. k_{NK-1}                       (index returned for the j-th creation, -1 = failed)
 *   T<i> kind=<k> ret=<r|C> rec <j>:<idx> ... calls <tag>:<v> ...      (ret: what myth_join delivered, C = MYTH_CANCELED)
 *                                              (re-creations done by thread i: slot and new index; then the
 *                                               calls made while thread i terminated, in call order;
 *                                               tag = creation number j of the destructor called)
 *   after <tag>:<v> ...                        (calls logged outside any registered thread: none expected)
 *   done */
#include <stdio.h>
#include <stdlib.h>
#include <string.h>
#include <pthread.h>
#include "myth/myth.h"
#ifndef MYTH_CANCELED
#define MYTH_CANCELED PTHREAD_CANCELED   /* src/myth_sched.h */
#endif

#define MAXT 64
#define MAXLOG 200000
struct call { int tid, tag; unsigned long v; };
static struct call g_log[MAXLOG];
static volatile int g_nlog;
static myth_thread_t g_self[MAXT];
static int g_T;

static int g_beh[1100]; static int g_NK;
static myth_key_t g_key[1100];
static myth_mutex_t g_mx[1];
static volatile int g_stop;
static void log_call(int tag, void * v) {
  int i, me = -1, b; myth_thread_t s = myth_self();
  for (i = 0; i < g_T; i++) if (g_self[i] == s) { me = i; break; }
  i = __sync_fetch_and_add(&g_nlog, 1);
  if (i < MAXLOG) { g_log[i].tid = me; g_log[i].tag = tag; g_log[i].v = (unsigned long)v; }
  /* what this destructor does while it runs */
  /* like a real destructor, it does nothing when called with NULL (the library also calls destructors of
     untouched slots with NULL, C16; a cancellation point there would re-enter the pass for ever) */
  b = (v && tag >= 0 && tag < 1100) ? g_beh[tag] : 0;
  if (b >= 2 && b <= 4) { int q; for (q = 0; q < b - 1; q++) myth_yield(); }
  else if (b == 5) myth_testcancel();
  else if (b == 6) { myth_mutex_lock(g_mx); myth_mutex_unlock(g_mx); }
  else if ((b == 7 || b == 8) && v && g_NK > 1) {
    int j2 = (b == 7) ? (tag + 1) % g_NK : (tag + g_NK - 1) % g_NK;
    myth_setspecific(g_key[j2], (void *)((unsigned long)v + 7));
  }
}
static void * holder_main(void * a) {
  (void)a;
  while (!g_stop) { int q; myth_mutex_lock(g_mx); for (q = 0; q < 20 && !g_stop; q++) myth_yield(); myth_mutex_unlock(g_mx); myth_yield(); }
  return 0;
}
#include "c10_dtors.h"

struct targ { int tid, kind, ns; int * slot; unsigned long * val; int nrec; int rec_slot[64]; int rec_idx[64]; };
static struct targ TA[MAXT];
static volatile int g_started[MAXT];

static void do_sets(struct targ * t) {
  int i;
  for (i = 0; i < t->ns; i++) {
    if (t->slot[i] <= -2) {
      int j = -2 - t->slot[i]; myth_key_t nk = -1;
      myth_key_delete(g_key[j]);
      if (t->val[i] == 2) nk = -1;              /* deleted, not created again: g_key[j] keeps the dead index */
      else { if (myth_key_create(&nk, t->val[i] ? DTOR[j] : 0) != 0) nk = -1; g_key[j] = nk; }
      if (t->nrec < 64) { t->rec_slot[t->nrec] = j; t->rec_idx[t->nrec] = nk; t->nrec++; }
      continue;
    }
    if (t->slot[i] < 0) continue;
    myth_setspecific(g_key[t->slot[i]], (void *)t->val[i]);
    if (i % 5 == 4) myth_yield();
  }
}
static void nested_exit(int depth) {
  if (depth > 0) { nested_exit(depth - 1); return; }
  myth_exit((void *)0x1234);
}
static void * th_main(void * a) {
  struct targ * t = a;
  g_self[t->tid] = myth_self();
  do_sets(t);
  g_started[t->tid] = 1;
  if (t->kind == 1) { nested_exit(3); return (void *)0x9999; }
  if (t->kind == 2) { for (;;) { myth_testcancel(); myth_yield(); } }
  return (void *)0x4321;
}

int main(void) {
  int W, NK, T, i, j, seq = 0, need_holder = 0; static int has[1100]; myth_thread_t th[MAXT], holder; myth_globalattr_t ga[1];
  static void * ret[MAXT];
  if (scanf("%d %d", &W, &NK) != 2 || NK < 0 || NK > 1024) return 2;
  if (W < 0) { seq = 1; W = -W; }
  for (j = 0; j < NK; j++) if (scanf("%d", &has[j]) != 1) return 2;
  if (scanf("%d", &T) != 1 || T < 0 || T > MAXT) return 2;
  for (i = 0; i < T; i++) {
    TA[i].tid = i;
    if (scanf("%d %d", &TA[i].kind, &TA[i].ns) != 2) return 2;
    TA[i].slot = malloc(sizeof(int) * (TA[i].ns + 1)); TA[i].val = malloc(sizeof(unsigned long) * (TA[i].ns + 1));
    for (j = 0; j < TA[i].ns; j++) if (scanf("%d %lu", &TA[i].slot[j], &TA[i].val[j]) != 2) return 2;
  }
  g_T = T; g_NK = NK;
  for (j = 0; j < NK; j++) { g_beh[j] = has[j]; if (has[j] == 6) need_holder = 1; }
  myth_globalattr_init(ga); myth_globalattr_set_n_workers(ga, W); myth_init_ex(ga);
  printf("keys");
  for (j = 0; j < NK; j++) {
    g_key[j] = -1;
    if (myth_key_create(&g_key[j], has[j] ? DTOR[j] : 0) != 0) g_key[j] = -1;
    printf(" %d", g_key[j]);
  }
  printf("\n");
  myth_mutex_init(g_mx, 0);
  if (need_holder) holder = myth_create(holder_main, 0);
  if (seq) {
    for (i = 0; i < T; i++) {
      th[i] = myth_create(th_main, &TA[i]);
      if (TA[i].kind == 2) myth_cancel(th[i]);
      myth_join(th[i], &ret[i]);
      g_self[i] = 0;            /* the descriptor may be reused by the next thread */
    }
  } else {
    for (i = 0; i < T; i++) th[i] = myth_create(th_main, &TA[i]);
    for (i = 0; i < T; i++) if (TA[i].kind == 2) myth_cancel(th[i]);
    for (i = 0; i < T; i++) myth_join(th[i], &ret[i]);
  }
  g_stop = 1;
  if (need_holder) myth_join(holder, 0);
  {
    int n = g_nlog;
    for (i = 0; i < T; i++) {
      printf("T%d kind=%d", i, TA[i].kind);
      if (ret[i] == MYTH_CANCELED) printf(" ret=C"); else printf(" ret=%lu", (unsigned long)ret[i]);
      if (TA[i].nrec) { int q; printf(" rec"); for (q = 0; q < TA[i].nrec; q++) printf(" %d:%d", TA[i].rec_slot[q], TA[i].rec_idx[q]); }
      printf(" calls");
      for (j = 0; j < n && j < MAXLOG; j++) if (g_log[j].tid == i) printf(" %d:%lu", g_log[j].tag, g_log[j].v);
      printf("\n");
    }
    printf("after");
    for (j = 0; j < n && j < MAXLOG; j++) if (g_log[j].tid < 0) printf(" %d:%lu", g_log[j].tag, g_log[j].v);
    printf("\n");
  }
  fflush(stdout);
  myth_fini();
  printf("done\n");
  return 0;
}
