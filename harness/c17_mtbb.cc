/* C17 harness for mtbb::task_group and mtbb::parallel_for (src/mtbb/task_group.h, parallel_for.h).
 *
 * Reads cases on stdin, prints one result line per case.  Every case runs in a forked child with an
 * alarm and a creation-count watchdog (through the create.init hook), so unbounded recursion, an
 * assertion or a crash of the code under test is an outcome line ("outcome=runaway",
 * "outcome=signal:6", "outcome=timeout"), not a harness crash.
 *
 *   info  -> "info cap=<TASK_GROUP_INIT_SZ> csz=<TASK_MEMORY_CHUNK_SZ> sizes=<sizeof(callable_task<Job<P>>) per class>"
 *
 *   tg W cap csz s0,s1,.. op op ...      op = r<k> (run a task of size class k) | w (wait)
 *      -> r:<chunk>:<off>:<size>:<nodes>:<tail n>   for every run: where the allocator put the task object
 *                                                   (chunk number in creation order, byte offset), and the
 *                                                   shape of the task list afterwards
 *         w:<joined>:<done>:<created>:<overlap>:<nodes>:<mem>   for every wait: join.reap events during the
 *                                                   wait, tasks of this cycle whose body has run exactly once
 *                                                   when wait returns (with W >= 2 the i-th task of a cycle is
 *                                                   busy for 30+15i us, so late tasks are still running then), create.init events of the cycle, whether
 *                                                   any two task objects of the cycle overlapped (by address),
 *                                                   entries per list node and size.offset per chunk afterwards
 *         end:<tasks whose body did not run exactly once>
 *
 *   pfbig W n ny   -> "big n=<n> once=<indices whose body ran exactly once> other=<the others>" for
 *                     parallel_for(0L, n, f) with bodies that call myth_yield() ny times
 *
 *   pf W form type first last step grain [wk]   form = fl | fls | flsg | rng, type = i (int) | l (long);
 *      wk = 1: every body call yields 0-2 times, spins a little and keeps a private 256-byte stack pattern;
 *      the line ends with " | maxact=<most bodies started and not finished> yields=<k> stkbad=<bodies whose
 *      stack pattern was overwritten>" (schedule dependent, not compared with the model)
 *      -> calls=<sorted arguments of the body>          (fl: parallel_for(first,last,f); fls: (first,last,step,f))
 *         leaves=<lo:hi sorted>                         (flsg: (first,last,step,grain,f); rng: parallel_for(Rng(first,last,grain), body))
 */
#include <stdio.h>
#include <stdlib.h>
#include <string.h>
#include <stdint.h>
#include <unistd.h>
#include <signal.h>
#include <errno.h>
#include <time.h>
#include <sys/types.h>
#include <sys/wait.h>
#include <vector>
#include <algorithm>
#include <string>
#include <myth/myth.h>
#include <mtbb/task_group.h>
#include <mtbb/parallel_for.h>

extern "C" {
  typedef void (*myth_verif_cb_t)(int kind, const char * id, const void * obj, long val);
  extern myth_verif_cb_t g_myth_verif_cb;
}

#define CHILD_TIMEOUT 10
#define BIG_TIMEOUT 45
static long g_runaway = 20000;
#define MAXLOG (1 << 20)

static volatile long g_ncreated, g_nreaped;
static volatile int g_on;

static void emit_and_exit(const char * s, int code) {
  ssize_t r_ = write(1, s, strlen(s)); (void)r_;
  _exit(code);
}
static void cb(int kind, const char * id, const void * obj, long val) {
  (void)kind; (void)obj; (void)val;
  if (!g_on) return;
  if (strcmp(id, "create.init") == 0) {
    long k = __sync_fetch_and_add(&g_ncreated, 1);
    if (k > g_runaway) emit_and_exit("outcome=runaway\n", 3);
  } else if (strcmp(id, "join.reap") == 0) {
    __sync_fetch_and_add(&g_nreaped, 1);
  }
}
void c17_start(void) { g_myth_verif_cb = cb; myth_init(); g_on = 1; }
static void start_runtime(int W) {
  char wbuf[16];
  snprintf(wbuf, sizeof wbuf, "%d", W);
  setenv("MYTH_NUM_WORKERS", wbuf, 1);
  g_myth_verif_cb = cb;
  myth_init();
  g_on = 1;
}

/* ---------------- task_group ---------------- */
#include <time.h>
static double now_us() {
  struct timespec ts;
  clock_gettime(CLOCK_MONOTONIC, &ts);
  return ts.tv_sec * 1e6 + ts.tv_nsec * 1e-3;
}
/* a task body: busy for `delay` microseconds (with two or more workers later tasks of a cycle take
   longer, so that they are still running on another worker when wait() is reached), then counts */
template<int P> struct Job {
  int * ctr;
  int delay;
  char pad[P];
  void operator()() const {
    if (delay > 0) { double t0 = now_us(); while (now_us() - t0 < delay) { } }
    __sync_fetch_and_add(ctr, 1);
  }
};
#define NCLS 6
#define CLS(X) X(0, 1) X(1, 40) X(2, 100) X(3, 200) X(4, 300) X(5, 600)
static const size_t g_sizes[NCLS] = {
#define SZ(I, P) sizeof(mtbb::callable_task<Job<P> >),
  CLS(SZ)
#undef SZ
};

static std::string g_out;
static void outf(const char * fmt, ...) __attribute__((format(printf, 1, 2)));
#include <stdarg.h>
static void outf(const char * fmt, ...) {
  char b[256];
  va_list ap; va_start(ap, fmt); vsnprintf(b, sizeof b, fmt, ap); va_end(ap);
  g_out += b;
}

static void shapes(mtbb::task_group & tg) {
  bool first = true;
  for (mtbb::task_list_node * p = tg.tasks.head; p; p = p->next) { outf("%s%d", first ? "" : "/", p->n); first = false; }
  outf(":");
  first = true;
  for (mtbb::task_memory_chunk * c = tg.mem.head; c; c = c->next) {
    outf("%s%ld.%ld", first ? "" : "/", (long)(c->end - c->a), (long)(c->p - c->a)); first = false;
  }
}

static void run_tg(int W, std::vector<std::string> & ops) {
  start_runtime(W);
  mtbb::task_group tg;
  std::vector<int> * ctrs = new std::vector<int>(ops.size() + 1, 0);
  std::vector<std::pair<char *, size_t> > live;
  size_t ntask = 0, cycle_first = 0;
  long created0 = g_ncreated;
  for (size_t i = 0; i < ops.size(); i++) {
    if (ops[i] == "w") {
      long reaped0 = g_nreaped;
      tg.wait();
      long joined = g_nreaped - reaped0, done = 0;
      for (size_t t = cycle_first; t < ntask; t++) if ((*ctrs)[t] == 1) done++;
      int overlap = 0;
      for (size_t a = 0; a < live.size(); a++)
        for (size_t b = a + 1; b < live.size(); b++)
          if (live[a].first < live[b].first + live[b].second && live[b].first < live[a].first + live[a].second) overlap = 1;
      outf("w:%ld:%ld:%ld:%d:", joined, done, g_ncreated - created0, overlap);
      shapes(tg);
      outf(" ");
      live.clear(); cycle_first = ntask; created0 = g_ncreated;
    } else {
      int k = atoi(ops[i].c_str() + 1);
      int dly = W >= 2 ? 30 + 15 * (int)(ntask - cycle_first) : 0;
      int * c = &(*ctrs)[ntask++];
      switch (k) {
#define RUN(I, P) case I: { Job<P> j; j.ctr = c; j.delay = dly; memset(j.pad, 0x5a, sizeof j.pad); tg.run(j); break; }
        CLS(RUN)
#undef RUN
        default: emit_and_exit("badcase\n", 0);
      }
      /* where did the task object go?  newest entry of the task list */
      mtbb::task * t = tg.tasks.tail->a[tg.tasks.tail->n - 1];
      int ci = 0, found = -1; long off = -1;
      for (mtbb::task_memory_chunk * ch = tg.mem.head; ch; ch = ch->next, ci++)
        if ((char *)t >= ch->a && (char *)t < ch->end) { found = ci; off = (char *)t - ch->a; }
      int nodes = 0;
      for (mtbb::task_list_node * p = tg.tasks.head; p; p = p->next) nodes++;
      outf("r:%d:%ld:%zu:%d:%d ", found, off, g_sizes[k], nodes, tg.tasks.tail->n);
      live.push_back(std::make_pair((char *)t, g_sizes[k]));
    }
  }
  long bad = 0;
  for (size_t t = 0; t < ntask; t++) if ((*ctrs)[t] != 1) bad++;
  outf("end:%ld\n", bad);
  emit_and_exit(g_out.c_str(), 0);
}

/* ---------------- parallel_for ---------------- */
static long * g_log;
static volatile long g_nlog;
static int g_wk;                       /* bodies do work that forces interleaving */
static volatile long g_active, g_maxact, g_yields, g_stkbad;
static void logv(long a, long b) {
  if (g_wk) {
    /* 0-2 yields and a short spin (pseudo-random per argument) around a private 256-byte stack pattern */
    volatile unsigned char loc[256];
    long act = __sync_add_and_fetch(&g_active, 1), m;
    unsigned long h = (unsigned long)a * 2654435761UL + (unsigned long)b * 40503UL;
    int ny = (int)((h >> 7) % 3), spin = (int)((h >> 11) % 300), bad = 0;
    while ((m = g_maxact) < act && !__sync_bool_compare_and_swap(&g_maxact, m, act)) { }
    for (int j = 0; j < 256; j++) loc[j] = (unsigned char)(a * 13 + b + j);
    for (int y = 0; y <= ny; y++) {
      if (y > 0) { myth_yield(); __sync_fetch_and_add(&g_yields, 1); }
      for (volatile int sp = 0; sp < spin; sp++) { }
      for (int j = 0; j < 256; j++) if (loc[j] != (unsigned char)(a * 13 + b + j)) bad = 1;
    }
    if (bad) __sync_fetch_and_add(&g_stkbad, 1);
    __sync_fetch_and_sub(&g_active, 1);
  }
  long k = __sync_fetch_and_add(&g_nlog, 1);
  if (k < MAXLOG) { g_log[2 * k] = a; g_log[2 * k + 1] = b; }
  else emit_and_exit("outcome=runaway\n", 3);
}
/* pfbig: parallel_for(0, n, f) with bodies that yield ny times; per-index counters */
static volatile int * g_cnt; static int g_ny;
struct BodyBig { void operator()(long i) const { for (int y = 0; y < g_ny; y++) myth_yield(); __sync_fetch_and_add(&g_cnt[i], 1); } };
static void run_pfbig(int W, long n, int ny) {
  g_runaway = 4 * n + 1000; g_ny = ny;
  g_cnt = (volatile int *)calloc(n + 1, sizeof(int));
  char wbuf[16]; snprintf(wbuf, sizeof wbuf, "%d", W); setenv("MYTH_NUM_WORKERS", wbuf, 1);
  c17_start();
  mtbb::parallel_for(0L, n, BodyBig());
  long once = 0, other = 0;
  for (long i = 0; i < n; i++) { if (g_cnt[i] == 1) once++; else other++; }
  if (g_cnt[n] != 0) other++;
  char b[128]; snprintf(b, sizeof b, "big n=%ld once=%ld other=%ld\n", n, once, other);
  emit_and_exit(b, 0);
}
template<typename T> struct Body1 { void operator()(T i) const { logv((long)i, 0); } };
template<typename T> struct Body2 { void operator()(T lo, T hi) const { logv((long)lo, (long)hi); } };
/* a range with the interface of tbb::blocked_range */
template<typename T> struct Rng {
  T b, e, g;
  Rng(T b_, T e_, T g_ = 1) : b(b_), e(e_), g(g_) {}
  T begin() const { return b; }
  T end() const { return e; }
  T grainsize() const { return g; }
  bool empty() const { return !(b < e); }
  bool is_divisible() const { return g < e - b; }
};
template<typename T> struct BodyR { void operator()(const Rng<T> & r) const { logv((long)r.begin(), (long)r.end()); } };

template<typename T> static void pf_typed(const std::string & form, long first, long last, long step, long grain) {
  if (form == "fl") mtbb::parallel_for((T)first, (T)last, Body1<T>());
  else if (form == "fls") mtbb::parallel_for((T)first, (T)last, (T)step, Body1<T>());
  else if (form == "rng") { BodyR<T> body; Rng<T> r((T)first, (T)last, (T)grain); mtbb::parallel_for(r, body); }
  else emit_and_exit("badcase\n", 0);
}
static void run_pf(int W, const std::string & form, const std::string & ty, long first, long last, long step, long grain, int wk) {
  g_wk = wk;
  start_runtime(W);
  g_log = (long *)malloc(sizeof(long) * 2 * MAXLOG);
  if (form == "flsg") {
    /* parallel_for_grainsize_aux is called with a literal 0, so the template only instantiates for int */
    if (ty != "i") emit_and_exit("badcase\n", 0);
    mtbb::parallel_for((int)first, (int)last, (int)step, (int)grain, Body2<int>());
  } else if (ty == "i") pf_typed<int>(form, first, last, step, grain);
  else pf_typed<long>(form, first, last, step, grain);
  long n = g_nlog;
  std::vector<std::pair<long, long> > v;
  for (long k = 0; k < n; k++) v.push_back(std::make_pair(g_log[2 * k], g_log[2 * k + 1]));
  std::sort(v.begin(), v.end());
  bool pairs = (form == "flsg" || form == "rng");
  g_out = pairs ? "leaves=" : "calls=";
  for (long k = 0; k < n; k++) {
    if (pairs) outf("%s%ld:%ld", k ? "," : "", v[k].first, v[k].second);
    else outf("%s%ld", k ? "," : "", v[k].first);
  }
  outf(" | maxact=%ld yields=%ld stkbad=%ld\n", (long)g_maxact, (long)g_yields, (long)g_stkbad);
  emit_and_exit(g_out.c_str(), 0);
}


/* wait for the child at most `limit` seconds (SIGCHLD is blocked in main and consumed here); a child that
   is still running then is killed: the library may handle or block SIGALRM, so its own alarm is not enough */
static int wait_child(pid_t pid, int limit, int * st) {
  sigset_t ss; struct timespec to;
  sigemptyset(&ss); sigaddset(&ss, SIGCHLD);
  to.tv_sec = limit; to.tv_nsec = 0;
  for (;;) {
    pid_t r = waitpid(pid, st, WNOHANG);
    if (r == pid) return 0;
    if (r < 0) return -1;
    if (sigtimedwait(&ss, 0, &to) < 0 && errno == EAGAIN) {
      kill(pid, SIGKILL);
      waitpid(pid, st, 0);
      return 1;
    }
  }
}

int main() {
  { sigset_t ss; sigemptyset(&ss); sigaddset(&ss, SIGCHLD); sigprocmask(SIG_BLOCK, &ss, 0); }
  char line[1 << 16];
  while (fgets(line, sizeof line, stdin)) {
    std::vector<std::string> tok;
    for (char * p = strtok(line, " \t\n"); p; p = strtok(NULL, " \t\n")) tok.push_back(p);
    if (tok.empty()) continue;
    if (tok[0] == "info") {
      printf("info cap=%d csz=%d sizes=", TASK_GROUP_INIT_SZ, TASK_MEMORY_CHUNK_SZ);
      for (int i = 0; i < NCLS; i++) printf("%s%zu", i ? "," : "", g_sizes[i]);
      printf("\n"); fflush(stdout);
      continue;
    }
    bool ok = false;
    if (tok[0] == "tg" && tok.size() >= 5) {
      /* the size table of the case must be the one of this build */
      char exp[256]; size_t l = 0;
      for (int i = 0; i < NCLS; i++) l += snprintf(exp + l, sizeof exp - l, "%s%zu", i ? "," : "", g_sizes[i]);
      ok = atoi(tok[2].c_str()) == TASK_GROUP_INIT_SZ && atoi(tok[3].c_str()) == TASK_MEMORY_CHUNK_SZ && tok[4] == exp;
    } else if (tok[0] == "pf" && (tok.size() == 8 || tok.size() == 9)) ok = true;
    else if (tok[0] == "pfbig" && tok.size() == 4) ok = true;
    if (!ok) { printf("badcase\n"); fflush(stdout); continue; }
    fflush(stdout);
    pid_t pid = fork();
    int st = 0;
    if (pid == 0) {
      alarm(tok[0] == "pfbig" ? BIG_TIMEOUT : CHILD_TIMEOUT);
      int W = atoi(tok[1].c_str());
      if (tok[0] == "pfbig") run_pfbig(W, atol(tok[2].c_str()), atoi(tok[3].c_str()));
      if (tok[0] == "tg") { std::vector<std::string> ops(tok.begin() + 5, tok.end()); run_tg(W, ops); }
      else run_pf(W, tok[2], tok[3], atol(tok[4].c_str()), atol(tok[5].c_str()), atol(tok[6].c_str()), atol(tok[7].c_str()),
                  tok.size() == 9 ? atoi(tok[8].c_str()) : 0);
      _exit(0);
    }
    int wr = wait_child(pid, (tok[0] == "pfbig" ? BIG_TIMEOUT : CHILD_TIMEOUT) + 2, &st);
    if (wr < 0) printf("outcome=waitfail\n");
    else if (wr == 1) printf("outcome=timeout\n");
    else if (WIFSIGNALED(st)) {
      if (WTERMSIG(st) == SIGALRM) printf("outcome=timeout\n");
      else printf("outcome=signal:%d\n", WTERMSIG(st));
    } else if (WIFEXITED(st) && WEXITSTATUS(st) != 0 && WEXITSTATUS(st) != 3) printf("outcome=exit:%d\n", WEXITSTATUS(st));
    fflush(stdout);
  }
  return 0;
}
