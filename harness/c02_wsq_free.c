/* C02 free-running unit harness: the real deque of the current tree hammered by several OS
 * threads AT ONCE (no controller, no schedule): validation of the abstraction on the hardware.
 *
 * Built by tools/props/c02.py from vlib.REPO with -O2 -DMYTH_VERIF_QUEUE_SIZE=<n>; it #includes the
 * real src/myth_wsqueue_func.h (the MYTH_VERIF hooks are compiled in but no callback is installed).
 *
 *   c02_wsq_free <thieves 0..3> <owner ops> <seed> <pass percent> <reps>
 *
 * One owner thread does <owner ops> random operations (push / pop / put of fresh distinct items);
 * each thief thread loops over take / trypass (fresh items) / peek until the owner is done.  Every
 * insertion first reserves a slot in an atomic counter kept below the capacity, so the overflow
 * abort() cannot happen whatever the scheduling; every successful removal releases its slot.  The
 * capacity is small, so the empty / one / two element states and both re-centrings occur all the
 * time.  Each thread logs what it inserted (trypass: only when it returned 1) and what it was
 * handed (pop / take return values).  At the end the queue is read out and the multiset oracle is
 * evaluated: every inserted item was handed out exactly once or is still in the queue, nothing was
 * handed out twice, nothing was handed out that was never inserted.
 *
 * stdout, one line per repetition:
 *   free size=<n> thieves=<k> seed=<s> ops=<all operations> inserted=<i> handed=<h> remaining=<r>
 *        duplicates=<d> lost=<l> bogus=<b> pops_null=.. takes_null=.. pass_ok=.. pass_fail=.. peeks=..
 *        recentre_push=<memmoves down> recentre_put=<memmoves up> */
#define _GNU_SOURCE
#include <stdio.h>
#include <stdlib.h>
#include <string.h>
#include <stdint.h>
#include <pthread.h>
#include <unistd.h>

#include "myth_config.h"
#include "myth_wsqueue.h"
#include "myth_wsqueue_func.h"

void * real_malloc(size_t n) { return malloc(n); }
void real_free(void * p) { free(p); }

#define MAXT 4
#define SHIFT 4
static myth_thread_queue Q;
static volatile int g_stop;
static volatile int g_go;
static int g_reserved;                 /* slots reserved by inserters (>= live entries) */
static long g_cap;

typedef struct {
  int idx;
  uint64_t rng;
  long base_id, next_id, max_id;       /* ids this thread issues: base_id .. base_id + max_id */
  long * ins;  long nins;              /* items inserted */
  long * got;  long ngot;              /* items handed to this thread */
  long ops, nulls, pass_ok, pass_fail, peeks, bad_peek, rec_push, rec_put;
  long owner_ops; int pass_pct;
} thr_t;
static thr_t T[MAXT];

static inline uint64_t xr(thr_t * t) {
  uint64_t x = t->rng; x ^= x << 13; x ^= x >> 7; x ^= x << 17; t->rng = x; return x;
}
static inline myth_thread_t id2p(long id) { return (myth_thread_t)(uintptr_t)((id + 1) << SHIFT); }
static inline long p2id(myth_thread_t p) {
  uintptr_t v = (uintptr_t)p;
  if (v == 0 || (v & ((1 << SHIFT) - 1))) return -1;
  return (long)(v >> SHIFT) - 1;
}
static inline int reserve(void) {
  if (__sync_add_and_fetch(&g_reserved, 1) <= g_cap - 1) return 1;
  __sync_sub_and_fetch(&g_reserved, 1);
  return 0;
}
static inline void release(void) { __sync_sub_and_fetch(&g_reserved, 1); }

static void * owner(void * a) {
  thr_t * t = (thr_t *)a;
  long k;
  while (!g_go) ;
  for (k = 0; k < t->owner_ops; k++) {
    unsigned r = (unsigned)(xr(t) % 100);
    t->ops++;
    if (r < 40 || r >= 90) {
      /* push (40%) or put (10%) of a fresh item */
      if (t->next_id < t->max_id && reserve()) {
        long id = t->base_id + t->next_id++;
        int tb = Q.top;                 /* top is written by this thread only */
        if (r < 40) { if (tb == Q.size) t->rec_push++; myth_queue_push(&Q, id2p(id)); }
        else { myth_queue_put(&Q, id2p(id)); if (Q.top != tb) t->rec_put++; }
        t->ins[t->nins++] = id;
        continue;
      }
    }
    {
      myth_thread_t p = myth_queue_pop(&Q);
      if (p) { t->got[t->ngot++] = p2id(p); release(); } else t->nulls++;
    }
  }
  g_stop = 1;
  return 0;
}

static void * thief(void * a) {
  thr_t * t = (thr_t *)a;
  while (!g_go) ;
  while (!g_stop) {
    unsigned r = (unsigned)(xr(t) % 100);
    t->ops++;
    if ((int)r < t->pass_pct) {
      if (t->next_id < t->max_id && reserve()) {
        long id = t->base_id + t->next_id;
        if (myth_queue_trypass(&Q, id2p(id))) { t->next_id++; t->ins[t->nins++] = id; t->pass_ok++; }
        else { release(); t->pass_fail++; }
      }
    } else if (r >= 95) {
      myth_thread_t p = myth_queue_peek(&Q);
      t->peeks++;
      if (p && p2id(p) < 0) t->bad_peek++;
    } else {
      myth_thread_t p = myth_queue_take(&Q);
      if (p) { if (t->ngot < t->max_id * MAXT) t->got[t->ngot++] = p2id(p); release(); } else t->nulls++;
    }
  }
  return 0;
}

int main(int argc, char ** argv) {
  int nth, pass_pct, reps, rep, i;
  long owner_ops;
  uint64_t seed;
  if (argc < 6) { fprintf(stderr, "usage: c02_wsq_free <thieves> <owner ops> <seed> <pass percent> <reps>\n"); return 2; }
  nth = atoi(argv[1]); owner_ops = atol(argv[2]); seed = strtoull(argv[3], 0, 10);
  pass_pct = atoi(argv[4]); reps = atoi(argv[5]);
  if (nth < 0 || nth > MAXT - 1) return 2;
  alarm(120);
  for (rep = 0; rep < reps; rep++) {
    pthread_t th[MAXT];
    long maxid = owner_ops + 16, total_ids = maxid * MAXT;
    unsigned char * cnt;
    long inserted = 0, handed = 0, remaining = 0, dup = 0, lost = 0, bogus = 0, ops = 0;
    long pops_null = 0, takes_null = 0, pass_ok = 0, pass_fail = 0, peeks = 0, bad_peek = 0;
    unsigned char * insd;
    myth_queue_init(&Q);
    g_cap = Q.size; g_reserved = 0; g_stop = 0; g_go = 0;
    for (i = 0; i <= nth; i++) {
      memset(&T[i], 0, sizeof(T[i]));
      T[i].idx = i; T[i].rng = (seed + 1) * 0x9E3779B97F4A7C15ull + (uint64_t)(rep * 977 + i * 131 + 7);
      T[i].base_id = (long)i * maxid; T[i].max_id = maxid;
      T[i].ins = malloc(sizeof(long) * (maxid + 1));
      T[i].got = malloc(sizeof(long) * (maxid * MAXT + 1));
      T[i].owner_ops = owner_ops; T[i].pass_pct = pass_pct;
    }
    pthread_create(&th[0], 0, owner, &T[0]);
    for (i = 1; i <= nth; i++) pthread_create(&th[i], 0, thief, &T[i]);
    g_go = 1;
    for (i = 0; i <= nth; i++) pthread_join(th[i], 0);
    /* the oracle */
    cnt = calloc(total_ids, 1); insd = calloc(total_ids, 1);
    for (i = 0; i <= nth; i++) {
      long k;
      for (k = 0; k < T[i].nins; k++) { insd[T[i].ins[k]] = 1; inserted++; }
      ops += T[i].ops; pass_ok += T[i].pass_ok; pass_fail += T[i].pass_fail; peeks += T[i].peeks; bad_peek += T[i].bad_peek;
      if (i == 0) pops_null = T[i].nulls; else takes_null += T[i].nulls;
    }
    for (i = 0; i <= nth; i++) {
      long k;
      for (k = 0; k < T[i].ngot; k++) {
        long id = T[i].got[k];
        handed++;
        if (id < 0 || id >= total_ids || !insd[id]) bogus++;
        else if (cnt[id]++) dup++;
      }
    }
    if (Q.base < 0 || Q.top > Q.size || Q.base > Q.top || Q.lock.locked) bogus++;
    else for (i = Q.base; i < Q.top; i++) {
      long id = p2id(Q.ptr[i]);
      remaining++;
      if (id < 0 || id >= total_ids || !insd[id]) bogus++;
      else if (cnt[id]++) dup++;
    }
    { long k; for (k = 0; k < total_ids; k++) if (insd[k] && !cnt[k]) lost++; }
    printf("free size=%d thieves=%d seed=%llu ops=%ld inserted=%ld handed=%ld remaining=%ld duplicates=%ld lost=%ld bogus=%ld "
           "pops_null=%ld takes_null=%ld pass_ok=%ld pass_fail=%ld peeks=%ld bad_peek=%ld recentre_push=%ld recentre_put=%ld\n",
           Q.size, nth, (unsigned long long)seed, ops, inserted, handed, remaining, dup, lost, bogus + bad_peek,
           pops_null, takes_null, pass_ok, pass_fail, peeks, bad_peek, T[0].rec_push, T[0].rec_put);
    fflush(stdout);
    for (i = 0; i <= nth; i++) { free(T[i].ins); free(T[i].got); }
    free(cnt); free(insd); free(Q.ptr);
  }
  return 0;
}
