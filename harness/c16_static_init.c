/* c16_static_init.c -- unit harness for myth_handle_PTHREAD_MUTEX_INITIALIZER (property C16).

   The function is static in src/myth_wrap_pthread.c and carries no MYTH_VERIF point, so this harness
   #includes the CURRENT source file (built with -DMYTH_WRAP=MYTH_WRAP_LD, linked with @myth-ld.opts against
   the library objects without myth_wrap_pthread.o) and drives N real OS threads (created with
   real_pthread_create, i.e. the system's) through the real function under real concurrency: every round
   all threads leave a sense-reversing spin barrier together and call the function on the same fresh object.

   Object kinds (round r uses kind r % 4):
     0  all zero bytes                       (what PTHREAD_MUTEX_INITIALIZER is on this platform)
     1  garbage magic word, garbage fields   ("anything else is treated as a static initialiser")
     2  an initialised myth mutex that is LOCKED with waiters (magic = myth_mutex_magic_no, state = 7)
     3  all zero bytes, odd threads arrive late
   After its call returns each thread checks what the theorem C16_static_init_once says about a thread that
   proceeds to the body: magic == myth_mutex_magic_no and the fields are an initialised mutex (kinds 0,1,3:
   state == 0, attr.type == MYTH_MUTEX_DEFAULT; kind 2: state still 7).  After the round the main thread
   checks the same.  Output: one line of counters; everything but rounds/threads must be 0.

   usage: c16_static_init <threads> <rounds> */
#include "myth_wrap_pthread.c"

#include <string.h>

#define MAXT 16
static int NT, ROUNDS;
static volatile int bar_count, bar_sense;
#define MAXROUNDS 8192
static pthread_mutex_t objs[MAXROUNDS];
static volatile long bad_magic, bad_fields, touched_initialised, bad_ret;

static void spin_barrier(int *local_sense) {
  *local_sense = !*local_sense;
  if (__sync_add_and_fetch(&bar_count, 1) == NT) {
    bar_count = 0;
    __sync_synchronize();
    bar_sense = *local_sense;
  } else {
    int spins = 0;
    while (bar_sense != *local_sense) { if (++spins > 2000) { spins = 0; real_sched_yield(); } }
  }
}

static void check_obj(pthread_mutex_t *pm, int kind) {
  myth_mutex_t *m = (myth_mutex_t *)pm;
  if (*(volatile int *)&m->magic != myth_mutex_magic_no) __sync_fetch_and_add(&bad_magic, 1);
  if (kind == 2) {
    if (m->state != 7) __sync_fetch_and_add(&touched_initialised, 1);
  } else {
    if (m->state != 0 || m->attr.type != MYTH_MUTEX_DEFAULT) __sync_fetch_and_add(&bad_fields, 1);
  }
}

static void *worker(void *a) {
  int me = (int)(intptr_t)a, sense = 0, r;
  for (r = 0; r < ROUNDS; r++) {
    int kind = r % 4;
    spin_barrier(&sense);
    if (kind == 3 && (me & 1)) { volatile int i; for (i = 0; i < 200 * me; i++) { } }
    if (myth_handle_PTHREAD_MUTEX_INITIALIZER(&objs[r]) != 0) __sync_fetch_and_add(&bad_ret, 1);
    check_obj(&objs[r], kind);
    spin_barrier(&sense);
  }
  return NULL;
}

int main(int argc, char **argv) {
  pthread_t tid[MAXT];
  int i, r;
  NT = argc > 1 ? atoi(argv[1]) : 4;
  ROUNDS = argc > 2 ? atoi(argv[2]) : 1000;
  if (NT < 1 || NT > MAXT || ROUNDS < 1 || ROUNDS > MAXROUNDS) return 2;
  for (r = 0; r < ROUNDS; r++) {
    myth_mutex_t *m = (myth_mutex_t *)&objs[r];
    switch (r % 4) {
    case 1:
      memset(&objs[r], 0xa5, sizeof(objs[r]));
      m->magic = 0x1234567 + r;
      if (m->magic == myth_mutex_magic_no || m->magic == myth_mutex_magic_no_initializing) m->magic = 1;
      break;
    case 2:
      memset(&objs[r], 0, sizeof(objs[r]));
      m->magic = myth_mutex_magic_no; m->attr.type = MYTH_MUTEX_DEFAULT; m->state = 7;
      break;
    default: {
      pthread_mutex_t z = PTHREAD_MUTEX_INITIALIZER;
      objs[r] = z;
      break; }
    }
  }
  for (i = 0; i < NT; i++) {
    if (real_pthread_create(&tid[i], NULL, worker, (void *)(intptr_t)i) != 0) return 3;
  }
  for (i = 0; i < NT; i++) real_pthread_join(tid[i], NULL);
  for (r = 0; r < ROUNDS; r++) check_obj(&objs[r], r % 4);
  printf("threads=%d rounds=%d bad_magic=%ld bad_fields=%ld touched_initialised=%ld bad_ret=%ld\n",
         NT, ROUNDS, (long)bad_magic, (long)bad_fields, (long)touched_initialised, (long)bad_ret);
  return 0;
}
