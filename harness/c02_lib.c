/* C02 library-level harness (linked against the hooks-on library built from the current tree).
 *
 *   c02_lib seq          stdin: lines of ops; stdout: one snapshot line per line of ops
 *       One worker, the main thread drives its own run queue through the public wsapi:
 *         P<tag> myth_wsapi_runqueue_push      O   myth_wsapi_runqueue_pop
 *         W0/W1  myth_wsapi_runqueue_take(0, decide, .) with a declining / accepting callback
 *         S<tag> myth_wsapi_runqueue_pass(0, .)
 *         Q      myth_wsapi_runqueue_peek(0, NULL, NULL)   (hint cache refill + seqlock read)
 *       Each output line starts with the snapshot before the first op:  @<top>,<base>,...:<slots>
 *       After every op:  |<op>=<result>:<top>,<base>,<lock>,<wc.seq>,<wc.ptr>:<slot tags>:<fences>
 *       (library built with -DMYTH_VERIF_QUEUE_SIZE=16, so the run queue has 16 slots).
 *       The queue must be empty again at the end of every line (the ops of a line drain it).
 *
 *   c02_lib conc         stdin: one case per line (format of harness/c02_wsq_unit.c)
 *       <size> <nthieves> | <owner ops> | <thief 1 ops> | ... | <schedule>
 *       Token-passing lock-step run on the run queue of worker 0 of the REAL library: the owner is
 *       the main thread (P push, O pop through the wsapi, U myth_queue_put), the thieves are
 *       pthreads (W0/W1 myth_wsapi_runqueue_take with a declining / accepting decision callback,
 *       S<tag> wsapi pass, Q wsapi peek, T myth_queue_take, K myth_queue_peek).  The decision
 *       callback is itself a scheduling point: it issues the POINT "wsapi.take.decide" (val = the
 *       candidate) before answering, so other participants can be run WHILE the callback executes.
 *       One step = up to the next POINT; output as c02_wsq_unit (snapshot after every step).
 *       The queue is reset to its initial state between cases (no overflow cases here).
 *
 *   c02_lib smoke <nthreads> <nyields> <seed>
 *       A yield/steal-heavy program on MYTH_NUM_WORKERS workers: nthreads threads, each yields
 *       nyields times (creating a child every few yields) and bumps its own execution counter.
 *       Prints "smoke threads=<n> runs_min=<a> runs_max=<b> sum=<s> expected=<e>". */
#define _GNU_SOURCE
#include <stdio.h>
#include <stdlib.h>
#include <string.h>
#include <pthread.h>
#include <semaphore.h>
#include <unistd.h>
#include "myth/myth.h"
#include "myth_config.h"
#include "myth_worker.h"
#include "myth_worker_func.h"
#include "myth_wsqueue_func.h"

/* tagged descriptors: real (zeroed) struct myth_thread objects, because the wsapi peek reads the
   hint fields (custom_data_ptr / custom_data_size) of its candidate */
#define NDESC 1024
static struct myth_thread descs[NDESC];
static myth_thread_t tag2p(long tag) { return (tag > 0 && tag < NDESC) ? &descs[tag] : NULL; }
static long p2tag(const void * p) {
  if (!p) return 0;
  if ((const struct myth_thread *)p < descs || (const struct myth_thread *)p >= descs + NDESC) return -1;
  return (const struct myth_thread *)p - descs;
}

static char fences[4096];
static int nf;
static void cb(int kind, const char * id, const void * obj, long val) {
  (void)obj; (void)val;
  if (kind == MYTH_VERIF_KIND_EVENT && strncmp(id, "wsq.fence.", 10) == 0 && nf < 4000)
    nf += sprintf(fences + nf, "%s%s", nf ? "," : "", id + 10);
}
static int decide_yes(myth_thread_t th, void * u) { (void)th; *(long *)u = p2tag(th); return 1; }
static int decide_no(myth_thread_t th, void * u) { (void)th; *(long *)u = p2tag(th); return 0; }

static int do_seq(void) {
  static char line[1 << 16];
  myth_thread_queue_t q;
  myth_globalattr_t ga[1];
  myth_globalattr_init(ga);
  myth_globalattr_set_n_workers(ga, 1);
  myth_init_ex(ga);
  q = &myth_get_current_env()->runnable_q;
  while (fgets(line, sizeof(line), stdin)) {
    char * s = 0, * tok;
    int first = 0, i;
    printf("@%d,%d,%d,%d,%ld:", q->top, q->base, q->lock.locked, q->wc.seq, p2tag((void *)q->wc.ptr));
    for (i = 0; i < q->size; i++) printf(i ? ",%ld" : "%ld", p2tag(q->ptr[i]));
    for (tok = strtok_r(line, " \n", &s); tok; tok = strtok_r(0, " \n", &s)) {
      long r = 0, seen = -2, tag = tok[1] ? atol(tok + 1) : 0;
      nf = 0; fences[0] = 0;
      g_myth_verif_cb = cb;
      switch (tok[0]) {
      case 'P': myth_wsapi_runqueue_push(tag2p(tag)); break;
      case 'O': r = p2tag(myth_wsapi_runqueue_pop()); break;
      case 'W': r = p2tag(myth_wsapi_runqueue_take(0, tok[1] == '1' ? decide_yes : decide_no, &seen)); break;
      case 'S': r = myth_wsapi_runqueue_pass(0, tag2p(tag)); break;
      case 'Q': r = p2tag(myth_wsapi_runqueue_peek(0, 0, 0)); break;
      default: r = -9;
      }
      g_myth_verif_cb = 0;
      printf("%s%s=%ld:%d,%d,%d,%d,%ld:", first ? "" : "|", tok, r, q->top, q->base, q->lock.locked,
             q->wc.seq, p2tag((void *)q->wc.ptr));
      for (i = 0; i < q->size; i++) printf(i ? ",%ld" : "%ld", p2tag(q->ptr[i]));
      printf(":%s", fences);
      if (tok[0] == 'W') printf(":cand=%ld", seen);
      first = 0;
    }
    printf("\n");
    fflush(stdout);
    if (q->top != q->base) { printf("NOT-DRAINED\n"); fflush(stdout); return 1; }
  }
  myth_fini();
  return 0;
}


/* ---- conc: lock-step on the real library's run queue ---- */
#define MAXP 8
#define MAXOPS 256
#define MAXSCHED 8192
#define STEPCAP 6000
typedef struct { char kind; long tag; } op_t;
typedef struct part {
  int idx, nops;
  op_t ops[MAXOPS];
  sem_t go;
  const char * at;
  long val, result;
  volatile int finished, ops_done;
  pthread_t th;
} part_t;
static part_t PP[MAXP];
static int NP;
static sem_t back_sem;
static __thread part_t * me;
static myth_thread_queue_t CQ;
static int csched[MAXSCHED], cuntil[MAXSCHED], ncsched;

static void cpark(const char * id, long val) {
  me->at = id; me->val = val;
  sem_post(&back_sem);
  sem_wait(&me->go);
}
static void ccb(int kind, const char * id, const void * obj, long val) {
  (void)obj;
  if (!me) return;
  if (kind == MYTH_VERIF_KIND_POINT) cpark(id, val);
}
/* the decision callback of the wsapi take: a scheduling point, then the scripted answer */
static int cdecide(myth_thread_t th, void * u) {
  cpark("wsapi.take.decide", p2tag(th));
  return *(int *)u;
}
static void cbody(part_t * p) {
  int i;
  me = p;
  for (i = 0; i < p->nops; i++) {
    long r = 0, tag = p->ops[i].tag;
    int ans;
    cpark("h.call", 0);
    switch (p->ops[i].kind) {
    case 'P': myth_wsapi_runqueue_push(tag2p(tag)); break;
    case 'O': r = p2tag(myth_wsapi_runqueue_pop()); break;
    case 'U': myth_queue_put(CQ, tag2p(tag)); break;
    case 'W': ans = (tag == 1); r = p2tag(myth_wsapi_runqueue_take(0, cdecide, &ans)); break;
    case 'S': r = myth_wsapi_runqueue_pass(0, tag2p(tag)); break;
    case 'Q': r = p2tag(myth_wsapi_runqueue_peek(0, 0, 0)); break;
    case 'T': r = p2tag(myth_queue_take(CQ)); break;
    case 'K': r = p2tag(myth_queue_peek(CQ)); break;
    }
    p->result = r;
    cpark("h.ret", 0);
    p->ops_done = i + 1;
  }
  p->finished = 1;
  me = 0;
  sem_post(&back_sem);
}
static void * cthief(void * a) { cbody((part_t *)a); return 0; }

static int cval_is_ptr(const char * id) {
  return strncmp(id, "wsq.push.", 9) == 0 || strncmp(id, "wsq.put.", 8) == 0 || strncmp(id, "wsq.pass.", 9) == 0;
}
static void csnapshot(int who, int first) {
  int i;
  myth_thread_queue_t q = CQ;
  printf("%s%d:%d,%d,%d,%d,%ld:", first ? "" : "|", who, q->top, q->base, q->lock.locked, q->wc.seq, p2tag((void *)q->wc.ptr));
  for (i = 0; i < q->size; i++) printf(i ? ",%ld" : "%ld", p2tag(q->ptr[i]));
  printf(":");
  for (i = 0; i < NP; i++) {
    part_t * p = &PP[i];
    if (i) printf("/");
    if (p->finished || strcmp(p->at, "h.call") == 0) printf("-");
    else if (strcmp(p->at, "h.ret") == 0) printf("ret(%ld)", p->result);
    else printf("%s(%ld)", p->at, cval_is_ptr(p->at) ? p2tag((void *)p->val) : p->val);
  }
}
static void cstep(int i, int * first) {
  if (i >= 0 && i < NP && !PP[i].finished) { sem_post(&PP[i].go); sem_wait(&back_sem); }
  csnapshot(i, *first);
  *first = 0;
}
static void * controller(void * a) {
  int i, k, first = 1, steps = 0;
  (void)a;
  for (i = 0; i < NP; i++) sem_wait(&back_sem);       /* everybody parked at its first h.call (or finished) */
  for (k = 0; k < ncsched; k++) {
    if (cuntil[k] < 0) { cstep(csched[k], &first); steps++; }
    else {
      int p = csched[k], guard = 0;
      while (p >= 0 && p < NP && !PP[p].finished && PP[p].ops_done < cuntil[k] && guard++ < 400) { cstep(p, &first); steps++; }
    }
  }
  for (;;) {
    int all = 1;
    for (i = 0; i < NP; i++) if (!PP[i].finished) all = 0;
    if (all || steps >= STEPCAP) break;
    for (i = 0; i < NP; i++) if (!PP[i].finished) { cstep(i, &first); steps++; }
  }
  printf("\n");
  fflush(stdout);
  return 0;
}
static int cparse(char * line) {
  char * save = 0, * fld;
  int size, nth, f = 0;
  NP = 0; ncsched = 0;
  for (fld = strtok_r(line, "|", &save); fld; fld = strtok_r(0, "|", &save), f++) {
    char * s2 = 0, * tok;
    if (f == 0) {
      if (sscanf(fld, "%d %d", &size, &nth) != 2) return -1;
      if (size != CQ->size || nth + 1 > MAXP) return -2;
      NP = nth + 1;
      continue;
    }
    if (f <= NP) {
      part_t * p = &PP[f - 1];
      p->nops = 0;
      for (tok = strtok_r(fld, " \n", &s2); tok; tok = strtok_r(0, " \n", &s2)) {
        if (p->nops >= MAXOPS) return -3;
        p->ops[p->nops].kind = tok[0];
        p->ops[p->nops].tag = tok[1] ? atol(tok + 1) : 0;
        p->nops++;
      }
    } else {
      for (tok = strtok_r(fld, " \n", &s2); tok; tok = strtok_r(0, " \n", &s2)) {
        if (ncsched >= MAXSCHED) return -4;
        if (tok[0] == 'u') {
          char * dot = strchr(tok, '.');
          if (!dot) return -6;
          csched[ncsched] = atoi(tok + 1); cuntil[ncsched] = atoi(dot + 1);
        } else { csched[ncsched] = atoi(tok); cuntil[ncsched] = -1; }
        ncsched++;
      }
    }
  }
  return f >= NP + 1 ? 0 : -5;
}
static int do_conc(void) {
  static char line[1 << 18];
  myth_globalattr_t ga[1];
  myth_globalattr_init(ga);
  myth_globalattr_set_n_workers(ga, 1);
  myth_init_ex(ga);
  CQ = &myth_get_current_env()->runnable_q;
  while (fgets(line, sizeof(line), stdin)) {
    int i, rc;
    pthread_t ctl;
    /* reset the queue to its initial state */
    memset(CQ->ptr, 0, sizeof(myth_thread_t) * CQ->size);
    CQ->base = CQ->size / 2; CQ->top = CQ->base; CQ->lock.locked = 0;
    memset(&CQ->wc, 0, sizeof(CQ->wc));
    rc = cparse(line);
    if (rc) { printf("BADCASE %d\n", rc); fflush(stdout); continue; }
    sem_init(&back_sem, 0, 0);
    for (i = 0; i < NP; i++) {
      sem_init(&PP[i].go, 0, 0);
      PP[i].idx = i; PP[i].finished = 0; PP[i].ops_done = 0; PP[i].at = "h.call";
    }
    alarm(20);
    g_myth_verif_cb = ccb;
    pthread_create(&ctl, 0, controller, 0);
    for (i = 1; i < NP; i++) pthread_create(&PP[i].th, 0, cthief, &PP[i]);
    cbody(&PP[0]);                       /* the owner is this thread: worker 0 of the library */
    for (i = 1; i < NP; i++) pthread_join(PP[i].th, 0);
    pthread_join(ctl, 0);
    g_myth_verif_cb = 0;
    alarm(0);
  }
  return 0;
}

/* ---- smoke ---- */
#define MAXT 4096
static volatile int runs[MAXT];
static int n_yields, n_threads;
static volatile int next_id;

static void * worker_fn(void * a) {
  long id = (long)a;
  int i;
  myth_thread_t child = 0;
  int child_id = -1;
  for (i = 0; i < n_yields; i++) {
    if (i == 1) {
      int c = __sync_fetch_and_add(&next_id, 1);
      if (c < n_threads) { child_id = c; child = myth_create(worker_fn, (void *)(long)c); }
    }
    myth_yield();
  }
  __sync_fetch_and_add(&runs[id], 1);
  if (child_id >= 0) myth_join(child, 0);
  return 0;
}

static int do_smoke(int nt, int ny, int seed) {
  int i, mn = 1 << 30, mx = -1; long sum = 0;
  myth_thread_t roots[8];
  int nroots = nt < 4 ? nt : 4;
  (void)seed;
  n_threads = nt; n_yields = ny; next_id = nroots;
  myth_init();
  for (i = 0; i < nroots; i++) roots[i] = myth_create(worker_fn, (void *)(long)i);
  for (i = 0; i < nroots; i++) myth_join(roots[i], 0);
  myth_fini();
  for (i = 0; i < nt; i++) { if (runs[i] < mn) mn = runs[i]; if (runs[i] > mx) mx = runs[i]; sum += runs[i]; }
  printf("smoke threads=%d runs_min=%d runs_max=%d sum=%ld expected=%d\n", nt, mn, mx, sum, nt);
  return 0;
}

int main(int argc, char ** argv) {
  if (argc >= 2 && strcmp(argv[1], "seq") == 0) return do_seq();
  if (argc >= 2 && strcmp(argv[1], "conc") == 0) return do_conc();
  if (argc >= 5 && strcmp(argv[1], "smoke") == 0) return do_smoke(atoi(argv[2]), atoi(argv[3]), atoi(argv[4]));
  fprintf(stderr, "usage: c02_lib seq | conc | smoke <nthreads> <nyields> <seed>\n");
  return 2;
}
