/* C02 library-level harness (linked against the hooks-on library built from the current tree).
 *
 *   c02_lib seq          stdin: lines of ops; stdout: one snapshot line per line of ops
 *       One worker, the main thread drives its own run queue through the public wsapi:
 *         P<tag> myth_wsapi_runqueue_push      O   myth_wsapi_runqueue_pop
 *         W0/W1  myth_wsapi_runqueue_take(0, decide, .) with a declining / accepting callback
 *         S<tag> myth_wsapi_runqueue_pass(0, .)
 *         Q      myth_wsapi_runqueue_peek(0, NULL, NULL)   (hint cache refill + seqlock read)
 *       Each output line starts with the snapshot before the first op:  @<top>,<base>,...:<slots>
 *       After every op:  |<op>=<result>:<top>,<base>,<lock>,<wc.seq>,<wc.ptr>:<slot tags>:<fences>
 *       (library built with -DMYTH_VERIF_QUEUE_SIZE=16, so the run queue has 16 slots).
 *       The queue must be empty again at the end of every line (the ops of a line drain it).
 *
 *   c02_lib smoke <nthreads> <nyields> <seed>
 *       A yield/steal-heavy program on MYTH_NUM_WORKERS workers: nthreads threads, each yields
 *       nyields times (creating a child every few yields) and bumps its own execution counter.
 *       Prints "smoke threads=<n> runs_min=<a> runs_max=<b> sum=<s> expected=<e>". */
#include <stdio.h>
#include <stdlib.h>
#include <string.h>
#include "myth/myth.h"
#include "myth_config.h"
#include "myth_worker.h"
#include "myth_worker_func.h"
#include "myth_wsqueue_func.h"

/* tagged descriptors: real (zeroed) struct myth_thread objects, because the wsapi peek reads the
   hint fields (custom_data_ptr / custom_data_size) of its candidate */
#define NDESC 1024
static struct myth_thread descs[NDESC];
static myth_thread_t tag2p(long tag) { return (tag > 0 && tag < NDESC) ? &descs[tag] : NULL; }
static long p2tag(const void * p) {
  if (!p) return 0;
  if ((const struct myth_thread *)p < descs || (const struct myth_thread *)p >= descs + NDESC) return -1;
  return (const struct myth_thread *)p - descs;
}

static char fences[4096];
static int nf;
static void cb(int kind, const char * id, const void * obj, long val) {
  (void)obj; (void)val;
  if (kind == MYTH_VERIF_KIND_EVENT && strncmp(id, "wsq.fence.", 10) == 0 && nf < 4000)
    nf += sprintf(fences + nf, "%s%s", nf ? "," : "", id + 10);
}
static int decide_yes(myth_thread_t th, void * u) { (void)th; *(long *)u = p2tag(th); return 1; }
static int decide_no(myth_thread_t th, void * u) { (void)th; *(long *)u = p2tag(th); return 0; }

static int do_seq(void) {
  static char line[1 << 16];
  myth_thread_queue_t q;
  myth_globalattr_t ga[1];
  myth_globalattr_init(ga);
  myth_globalattr_set_n_workers(ga, 1);
  myth_init_ex(ga);
  q = &myth_get_current_env()->runnable_q;
  while (fgets(line, sizeof(line), stdin)) {
    char * s = 0, * tok;
    int first = 0, i;
    printf("@%d,%d,%d,%d,%ld:", q->top, q->base, q->lock.locked, q->wc.seq, p2tag((void *)q->wc.ptr));
    for (i = 0; i < q->size; i++) printf(i ? ",%ld" : "%ld", p2tag(q->ptr[i]));
    for (tok = strtok_r(line, " \n", &s); tok; tok = strtok_r(0, " \n", &s)) {
      long r = 0, seen = -2, tag = tok[1] ? atol(tok + 1) : 0;
      nf = 0; fences[0] = 0;
      g_myth_verif_cb = cb;
      switch (tok[0]) {
      case 'P': myth_wsapi_runqueue_push(tag2p(tag)); break;
      case 'O': r = p2tag(myth_wsapi_runqueue_pop()); break;
      case 'W': r = p2tag(myth_wsapi_runqueue_take(0, tok[1] == '1' ? decide_yes : decide_no, &seen)); break;
      case 'S': r = myth_wsapi_runqueue_pass(0, tag2p(tag)); break;
      case 'Q': r = p2tag(myth_wsapi_runqueue_peek(0, 0, 0)); break;
      default: r = -9;
      }
      g_myth_verif_cb = 0;
      printf("%s%s=%ld:%d,%d,%d,%d,%ld:", first ? "" : "|", tok, r, q->top, q->base, q->lock.locked,
             q->wc.seq, p2tag((void *)q->wc.ptr));
      for (i = 0; i < q->size; i++) printf(i ? ",%ld" : "%ld", p2tag(q->ptr[i]));
      printf(":%s", fences);
      if (tok[0] == 'W') printf(":cand=%ld", seen);
      first = 0;
    }
    printf("\n");
    fflush(stdout);
    if (q->top != q->base) { printf("NOT-DRAINED\n"); fflush(stdout); return 1; }
  }
  myth_fini();
  return 0;
}

/* ---- smoke ---- */
#define MAXT 4096
static volatile int runs[MAXT];
static int n_yields, n_threads;
static volatile int next_id;

static void * worker_fn(void * a) {
  long id = (long)a;
  int i;
  myth_thread_t child = 0;
  int child_id = -1;
  for (i = 0; i < n_yields; i++) {
    if (i == 1) {
      int c = __sync_fetch_and_add(&next_id, 1);
      if (c < n_threads) { child_id = c; child = myth_create(worker_fn, (void *)(long)c); }
    }
    myth_yield();
  }
  __sync_fetch_and_add(&runs[id], 1);
  if (child_id >= 0) myth_join(child, 0);
  return 0;
}

static int do_smoke(int nt, int ny, int seed) {
  int i, mn = 1 << 30, mx = -1; long sum = 0;
  myth_thread_t roots[8];
  int nroots = nt < 4 ? nt : 4;
  (void)seed;
  n_threads = nt; n_yields = ny; next_id = nroots;
  myth_init();
  for (i = 0; i < nroots; i++) roots[i] = myth_create(worker_fn, (void *)(long)i);
  for (i = 0; i < nroots; i++) myth_join(roots[i], 0);
  myth_fini();
  for (i = 0; i < nt; i++) { if (runs[i] < mn) mn = runs[i]; if (runs[i] > mx) mx = runs[i]; sum += runs[i]; }
  printf("smoke threads=%d runs_min=%d runs_max=%d sum=%ld expected=%d\n", nt, mn, mx, sum, nt);
  return 0;
}

int main(int argc, char ** argv) {
  if (argc >= 2 && strcmp(argv[1], "seq") == 0) return do_seq();
  if (argc >= 5 && strcmp(argv[1], "smoke") == 0) return do_smoke(atoi(argv[2]), atoi(argv[3]), atoi(argv[4]));
  fprintf(stderr, "usage: c02_lib seq | smoke <nthreads> <nyields> <seed>\n");
  return 2;
}
