/* c16_prog.c -- interpreter of generated DETERMINATE pthread programs (property C16).

   Written ONLY against the POSIX threads API (no myth_* call, no MassiveThreads header): the very
   same source is built three ways by tools/props/c16.py
     plain    gcc c16_prog.c -lpthread                                   (system glibc)
     ld       gcc c16_prog.c @<repo>/src/myth-ld.opts libmyth-ld.a ...   (link-time wrapping)
     dl       the plain binary run with LD_PRELOAD=libmyth-dl.so         (preloading)
   and run with MYTH_WRAP_PTHREAD=0/1 and MYTH_NUM_WORKERS=1..4.  Outputs (canonical text on stdout)
   and exit statuses must agree with each other and with the Python oracle.

   usage:  c16_prog <case-file>

   Case language: one scene per line, executed in order by the main thread; `#` starts a comment.

     tree D F S X A R     spawn tree of depth D, fan-out F; leaf value = hash(id,S); inner value =
                          (31*sum(children, in join order weighted) + id) mod 1000003; node id uses
                          pthread_exit (from 3 frames deep) when (id+X)%3==0, else returns;
                          child k of node id is created with a non-NULL pthread_attr_t (stack size
                          64KiB<<((id+k)%3)) when ((id+k+A)%2==0); R=1: join children in reverse order
     locks T NM KINDS.. ; script0 ; script1 ; ...
                          NM mutexes of kinds (i = pthread_mutex_init NULL attr, a = init with a
                          pthread_mutexattr_t, s = PTHREAD_MUTEX_INITIALIZER) + one spin lock; T threads
                          start together behind a pthread_barrier and run their scripts:
                            mK:N lock/unlock mutex K N times (counter K ++), tK:N trylock+sched_yield loop,
                            dK:N timedlock with a far deadline, s:N spin lock (counter NM ++),
                            S:N pthread_spin_trylock loop, y sched_yield, Y pthread_yield, uN usleep(N), nN nanosleep(N ns)
     tryheld T K H        main acquires a mutex of kind K (i/a/s) by lock (H=l) or trylock (H=t), creates T
                          threads which trylock (EBUSY expected) and timedlock with a 3 ms deadline
                          (ETIMEDOUT expected); main joins, unlocks, then trylock/unlock again
     pc P C CAP N M       bounded buffer, P producers x N items, C consumers, capacity CAP;
                          M=0: two condition variables + signal, M=1: one + broadcast, M=2: as 0 with
                          pthread_cond_init(&c, &condattr), M=3: as 1 with statically initialised objects
     ring T R M           token ring: T threads, R rounds, strict turn order through mutex+cond
                          (M=0 broadcast, M=1 one cond per thread + signal); result = hash of the order
     barrier T P W        T threads (main takes part when W=1), P phases, two waits per phase;
                          counts PTHREAD_BARRIER_SERIAL_THREAD returns and consistent phase sums
     once T R Y           R once controls, T threads call pthread_once on each (thread t starts at
                          control t%R); init routine increments its counter (Y=1: yields/sleeps inside)
     keys K T DM ; t k v ; t k v ...
                          K keys, key j has the counting destructor iff bit j of DM; then per entry
                          thread t stores value v (>0; 0 = store NULL) under key k, in order;
                          every key with a destructor has its own destructor function: the destructor calls
                          are reported exactly (thread:key:value); calls with a NULL value and the key values
                          handed out are reported on separate lines
     detach T MODES       T detached threads, mode per thread: a = detachstate attribute,
                          c = creator calls pthread_detach, s = pthread_detach(pthread_self());
                          completion through a counter + condition variable
     ids T                pthread_self / pthread_equal while all threads are alive; the number of OS threads of the
                          process at that moment (/proc/self/task) is reported on a separate line
     sleep T SPEC..       T threads, one SPEC each: [u|n|s|a]N[xR]  u = usleep(N us), n = nanosleep(N us), s = sleep(N s),
                          a = usleep(N ms) started in the last N/2 ms of a CLOCK_REALTIME second; a bare number = usleep
                          (even t) / nanosleep (odd t); xR = R times with some computation in between; every sleep must
                          return 0 and not earlier than requested on CLOCK_MONOTONIC and CLOCK_REALTIME; plus sleep(0)
     solo OPS             the main thread alone, one operation per letter, in order (possibly the very first
                          use of the library): b count-1 barrier, s/B signal/broadcast without waiters, S the same on
                          a PTHREAD_COND_INITIALIZER object, m lock/unlock, l lock/unlock/destroy of a static mutex,
                          t trylock twice on a static mutex (0 then EBUSY), d timedlock twice (0 then ETIMEDOUT),
                          p spin lock + trylock (EBUSY), o pthread_once twice, k key create/set/get/delete,
                          y sched_yield, Y pthread_yield, u usleep(0)+nanosleep, i pthread_self/equal
     noyield              directive: the scenes make no sched_yield / sleep call from here on
     exit N M             exit status N; M=0 return from main, M=1 exit(N) in main,
                          M=2 exit(N) called by a created thread

   Return values of EVERY pthread call are checked; a non-zero value that the scene does not expect
   is counted in a table printed at the end as `rc <call> <value> x<count>` (no such line on a
   conforming implementation). */
#define _GNU_SOURCE
#include <pthread.h>
#include <sched.h>
#include <stdio.h>
#include <stdlib.h>
#include <string.h>
#include <errno.h>
#include <time.h>
#include <unistd.h>
#include <stdint.h>
#include <dirent.h>

/* ---------------------------------------------------------------- rc table */
enum { C_create, C_join, C_detach, C_attr_init, C_attr_destroy, C_attr_setdetachstate,
       C_attr_setstacksize, C_attr_getdetachstate, C_attr_getstacksize,
       C_mutex_init, C_mutex_destroy, C_mutex_lock, C_mutex_trylock,
       C_mutex_timedlock, C_mutex_unlock, C_mutexattr_init, C_mutexattr_destroy,
       C_cond_init, C_cond_destroy, C_cond_wait, C_cond_signal, C_cond_broadcast,
       C_condattr_init, C_condattr_destroy,
       C_barrier_init, C_barrier_destroy, C_barrier_wait,
       C_spin_init, C_spin_destroy, C_spin_lock, C_spin_trylock, C_spin_unlock,
       C_once, C_key_create, C_key_delete, C_setspecific, C_sched_yield, C_pthread_yield,
       C_usleep, C_nanosleep, C_sleep, C_equal_self, C_internal, C_NCALLS };
static const char *cname[C_NCALLS] = {
  "pthread_create", "pthread_join", "pthread_detach", "pthread_attr_init", "pthread_attr_destroy",
  "pthread_attr_setdetachstate", "pthread_attr_setstacksize", "pthread_attr_getdetachstate",
  "pthread_attr_getstacksize",
  "pthread_mutex_init", "pthread_mutex_destroy", "pthread_mutex_lock", "pthread_mutex_trylock",
  "pthread_mutex_timedlock", "pthread_mutex_unlock", "pthread_mutexattr_init", "pthread_mutexattr_destroy",
  "pthread_cond_init", "pthread_cond_destroy", "pthread_cond_wait", "pthread_cond_signal",
  "pthread_cond_broadcast", "pthread_condattr_init", "pthread_condattr_destroy",
  "pthread_barrier_init", "pthread_barrier_destroy", "pthread_barrier_wait",
  "pthread_spin_init", "pthread_spin_destroy", "pthread_spin_lock", "pthread_spin_trylock",
  "pthread_spin_unlock", "pthread_once", "pthread_key_create", "pthread_key_delete",
  "pthread_setspecific", "sched_yield", "pthread_yield", "usleep", "nanosleep", "sleep", "pthread_equal(self,self)",
  "internal-check" };
#define NVAL 6
static volatile long rc_val[C_NCALLS][NVAL];
static volatile long rc_cnt[C_NCALLS][NVAL];
static volatile long rc_used[C_NCALLS];

static void rc_note(int call, long v) {
  long i, n = rc_used[call];
  for (i = 0; i < n && i < NVAL; i++)
    if (rc_val[call][i] == v) { __sync_fetch_and_add(&rc_cnt[call][i], 1); return; }
  i = __sync_fetch_and_add(&rc_used[call], 1);
  if (i >= NVAL) { __sync_fetch_and_add(&rc_cnt[call][NVAL - 1], 1); return; }
  rc_val[call][i] = v;
  __sync_fetch_and_add(&rc_cnt[call][i], 1);
}
#define CHK(call, expr) do { long rc__ = (long)(expr); if (rc__ != 0) rc_note((call), rc__); } while (0)

static void rc_print(void) {
  int c, i, j;
  for (c = 0; c < C_NCALLS; c++) {
    long n = rc_used[c] < NVAL ? rc_used[c] : NVAL;
    /* merge duplicates that raced, sort by value */
    long v[NVAL], k[NVAL]; int m = 0;
    for (i = 0; i < n; i++) {
      for (j = 0; j < m; j++) if (v[j] == rc_val[c][i]) break;
      if (j == m) { v[m] = rc_val[c][i]; k[m] = 0; m++; }
      k[j] += rc_cnt[c][i];
    }
    for (i = 0; i < m; i++) for (j = i + 1; j < m; j++) if (v[j] < v[i]) {
      long t = v[i]; v[i] = v[j]; v[j] = t; t = k[i]; k[i] = k[j]; k[j] = t; }
    for (i = 0; i < m; i++) printf("rc %s %ld x%ld\n", cname[c], v[i], k[i]);
  }
}

/* ---------------------------------------------------------------- helpers */
static int g_yield = 1;          /* cleared by the `noyield` directive */
#define YIELD() do { if (g_yield) CHK(C_sched_yield, sched_yield()); } while (0)
#define MAXT 64
static int scene_no;

static void far_deadline(struct timespec *ts, long add_ns) {
  clock_gettime(CLOCK_REALTIME, ts);
  ts->tv_nsec += add_ns % 1000000000L;
  ts->tv_sec += add_ns / 1000000000L;
  if (ts->tv_nsec >= 1000000000L) { ts->tv_nsec -= 1000000000L; ts->tv_sec++; }
}

static long now_ns(void) {
  struct timespec ts;
  clock_gettime(CLOCK_MONOTONIC, &ts);
  return ts.tv_sec * 1000000000L + ts.tv_nsec;
}


/* number of OS threads of this process (entries of /proc/self/task) */
static int os_threads(void) {
  DIR *d = opendir("/proc/self/task");
  struct dirent *e;
  int n = 0;
  if (!d) return -1;
  while ((e = readdir(d)) != NULL) if (e->d_name[0] != '.') n++;
  closedir(d);
  return n;
}
static void busy_ns(long ns) { long t0 = now_ns(); while (now_ns() - t0 < ns) { } }
/* joined / detached threads of earlier scenes may still be leaving the kernel: take the minimum over a
   window that ends when the count has not decreased for a while */
static int os_threads_settled(void) {
  int m = os_threads(), still = 0, i;
  for (i = 0; i < 400 && still < 25; i++) {
    int n;
    busy_ns(200000);
    n = os_threads();
    if (n < m) { m = n; still = 0; } else still++;
  }
  return m;
}

/* pools of statically initialised objects: every scene takes fresh ones */
#define NSTATIC 96
static pthread_mutex_t static_mutex[NSTATIC] = { [0 ... NSTATIC - 1] = PTHREAD_MUTEX_INITIALIZER };
static pthread_cond_t static_cond[NSTATIC] = { [0 ... NSTATIC - 1] = PTHREAD_COND_INITIALIZER };
static pthread_once_t static_once[NSTATIC] = { [0 ... NSTATIC - 1] = PTHREAD_ONCE_INIT };
static int n_static_mutex, n_static_cond, n_static_once;

static pthread_mutex_t *fresh_static_mutex(void) {
  if (n_static_mutex >= NSTATIC) { fprintf(stderr, "c16_prog: out of static mutexes\n"); exit(99); }
  return &static_mutex[n_static_mutex++];
}
static pthread_cond_t *fresh_static_cond(void) {
  if (n_static_cond >= NSTATIC) { fprintf(stderr, "c16_prog: out of static conds\n"); exit(99); }
  return &static_cond[n_static_cond++];
}

/* a mutex of kind i / a / s */
typedef struct { pthread_mutex_t *m; pthread_mutex_t own; char kind; } mx_t;
static void mx_make(mx_t *x, char kind) {
  x->kind = kind;
  if (kind == 's') { x->m = fresh_static_mutex(); return; }
  x->m = &x->own;
  memset(&x->own, 0x5a, sizeof(x->own));     /* dirty memory: init must not depend on zeroes */
  if (kind == 'a') {
    pthread_mutexattr_t ma;
    CHK(C_mutexattr_init, pthread_mutexattr_init(&ma));
    CHK(C_mutex_init, pthread_mutex_init(x->m, &ma));
    CHK(C_mutexattr_destroy, pthread_mutexattr_destroy(&ma));
  } else {
    CHK(C_mutex_init, pthread_mutex_init(x->m, NULL));
  }
}
static void mx_free(mx_t *x) { CHK(C_mutex_destroy, pthread_mutex_destroy(x->m)); }

static void cond_make(pthread_cond_t *c, int with_attr) {
  memset(c, 0x5a, sizeof(*c));
  if (with_attr) {
    pthread_condattr_t ca;
    CHK(C_condattr_init, pthread_condattr_init(&ca));
    CHK(C_cond_init, pthread_cond_init(c, &ca));
    CHK(C_condattr_destroy, pthread_condattr_destroy(&ca));
  } else {
    CHK(C_cond_init, pthread_cond_init(c, NULL));
  }
}

/* ---------------------------------------------------------------- tree */
typedef struct { int depth, fan, seed, xmode, amode, rev; } tree_cfg_t;
typedef struct { tree_cfg_t *cfg; long id; int level; } tree_arg_t;
static volatile long tree_nodes;

static long leaf_value(long id, int seed) {
  unsigned long x = (unsigned long)id * 2654435761UL + (unsigned long)seed * 40503UL;
  x ^= x >> 13; x *= 0x5bd1e995UL; x ^= x >> 15;
  return (long)(x % 1000) + 1;
}

static void deep_exit(int frames, void *v) {
  volatile char pad[64];
  pad[0] = (char)frames;
  if (frames <= 0) pthread_exit(v);
  deep_exit(frames - 1, v);
  (void)pad;
}

static void *tree_node(void *a_) {
  tree_arg_t *a = (tree_arg_t *)a_;
  tree_cfg_t *c = a->cfg;
  long v;
  __sync_fetch_and_add(&tree_nodes, 1);
  if (a->level == c->depth) {
    v = leaf_value(a->id, c->seed);
  } else {
    pthread_t tid[8];
    tree_arg_t ca[8];
    long sum = 0;
    int k;
    for (k = 0; k < c->fan; k++) {
      ca[k].cfg = c; ca[k].id = a->id * c->fan + k + 1; ca[k].level = a->level + 1;
      if ((a->id + k + c->amode) % 2 == 0) {
        pthread_attr_t at;
        size_t ss = (size_t)65536 << ((a->id + k) % 3), got = 0;
        int ds = -1;
        memset(&at, 0x5a, sizeof(at));
        CHK(C_attr_init, pthread_attr_init(&at));
        CHK(C_attr_setstacksize, pthread_attr_setstacksize(&at, ss));
        CHK(C_attr_setdetachstate, pthread_attr_setdetachstate(&at, PTHREAD_CREATE_JOINABLE));
        CHK(C_attr_getstacksize, pthread_attr_getstacksize(&at, &got));
        CHK(C_attr_getdetachstate, pthread_attr_getdetachstate(&at, &ds));
        if (got != ss || ds != PTHREAD_CREATE_JOINABLE) rc_note(C_internal, 1);
        CHK(C_create, pthread_create(&tid[k], &at, tree_node, &ca[k]));
        CHK(C_attr_destroy, pthread_attr_destroy(&at));
      } else {
        CHK(C_create, pthread_create(&tid[k], NULL, tree_node, &ca[k]));
      }
    }
    for (k = 0; k < c->fan; k++) {
      int j = c->rev ? c->fan - 1 - k : k;
      void *r = (void *)-1L;
      CHK(C_join, pthread_join(tid[j], &r));
      sum = (sum * 7 + (long)(intptr_t)r) % 1000003;
    }
    v = (31 * sum + a->id) % 1000003;
  }
  if ((a->id + c->xmode) % 3 == 0) deep_exit(3, (void *)(intptr_t)v);
  return (void *)(intptr_t)v;
}

static void scene_tree(char *args) {
  tree_cfg_t c;
  tree_arg_t root;
  pthread_t t;
  void *r = (void *)-1L;
  if (sscanf(args, "%d %d %d %d %d %d", &c.depth, &c.fan, &c.seed, &c.xmode, &c.amode, &c.rev) != 6 ||
      c.fan < 1 || c.fan > 8) { fprintf(stderr, "c16_prog: bad tree scene\n"); exit(98); }
  tree_nodes = 0;
  root.cfg = &c; root.id = 0; root.level = 0;
  CHK(C_create, pthread_create(&t, NULL, tree_node, &root));
  CHK(C_join, pthread_join(t, &r));
  printf("S%d tree value=%ld nodes=%ld\n", scene_no, (long)(intptr_t)r, (long)tree_nodes);
}

/* ---------------------------------------------------------------- locks */
#define MAXM 6
typedef struct {
  int nm;
  mx_t mx[MAXM];
  pthread_spinlock_t spin;
  volatile long counter[MAXM + 1];
  pthread_barrier_t start;
} locks_sh_t;
typedef struct { locks_sh_t *sh; char *script; int idx; } locks_arg_t;

static void *locks_thread(void *a_) {
  locks_arg_t *a = (locks_arg_t *)a_;
  locks_sh_t *sh = a->sh;
  char *p = a->script;
  int r = pthread_barrier_wait(&sh->start);
  if (r != 0 && r != PTHREAD_BARRIER_SERIAL_THREAD) rc_note(C_barrier_wait, r);
  while (*p) {
    char op;
    long k = 0, n = 0, i;
    while (*p == ' ') p++;
    if (!*p) break;
    op = *p++;
    if (op == 'm' || op == 't' || op == 'd') { k = strtol(p, &p, 10); if (*p == ':') p++; n = strtol(p, &p, 10); }
    else if (op == 's' || op == 'S') { if (*p == ':') p++; n = strtol(p, &p, 10); }
    else if (op == 'u' || op == 'n') { n = strtol(p, &p, 10); }
    if ((op == 'm' || op == 't' || op == 'd') && (k < 0 || k >= sh->nm)) { rc_note(C_internal, 2); break; }
    switch (op) {
    case 'm':
      for (i = 0; i < n; i++) {
        CHK(C_mutex_lock, pthread_mutex_lock(sh->mx[k].m));
        sh->counter[k] = sh->counter[k] + 1;
        CHK(C_mutex_unlock, pthread_mutex_unlock(sh->mx[k].m));
      }
      break;
    case 't':
      for (i = 0; i < n; i++) {
        for (;;) {
          int rc = pthread_mutex_trylock(sh->mx[k].m);
          if (rc == 0) break;
          if (rc != EBUSY) { rc_note(C_mutex_trylock, rc); break; }
          YIELD();
        }
        sh->counter[k] = sh->counter[k] + 1;
        CHK(C_mutex_unlock, pthread_mutex_unlock(sh->mx[k].m));
      }
      break;
    case 'd':
      for (i = 0; i < n; i++) {
        struct timespec ts;
        far_deadline(&ts, 60L * 1000000000L);
        CHK(C_mutex_timedlock, pthread_mutex_timedlock(sh->mx[k].m, &ts));
        sh->counter[k] = sh->counter[k] + 1;
        CHK(C_mutex_unlock, pthread_mutex_unlock(sh->mx[k].m));
      }
      break;
    case 's':
      for (i = 0; i < n; i++) {
        CHK(C_spin_lock, pthread_spin_lock(&sh->spin));
        sh->counter[sh->nm] = sh->counter[sh->nm] + 1;
        CHK(C_spin_unlock, pthread_spin_unlock(&sh->spin));
      }
      break;
    case 'S':
      for (i = 0; i < n; i++) {
        for (;;) {
          int rc = pthread_spin_trylock(&sh->spin);
          if (rc == 0) break;
          if (rc != EBUSY) { rc_note(C_spin_trylock, rc); break; }
        }
        sh->counter[sh->nm] = sh->counter[sh->nm] + 1;
        CHK(C_spin_unlock, pthread_spin_unlock(&sh->spin));
      }
      break;
    case 'y': YIELD(); break;
    case 'Y': if (g_yield) CHK(C_pthread_yield, pthread_yield()); break;
    case 'u': CHK(C_usleep, usleep((useconds_t)n)); break;
    case 'n': { struct timespec ts = { 0, n }; CHK(C_nanosleep, nanosleep(&ts, NULL)); break; }
    default: rc_note(C_internal, 3); return NULL;
    }
  }
  return (void *)(intptr_t)(a->idx + 1);
}

static char *next_part(char **rest) {      /* split at ';' */
  char *s = *rest, *e;
  if (!s) return NULL;
  e = strchr(s, ';');
  if (e) { *e = 0; *rest = e + 1; } else *rest = NULL;
  return s;
}

static void scene_locks(char *args) {
  static locks_sh_t sh;
  locks_arg_t la[MAXT];
  pthread_t tid[MAXT];
  char *rest = args, *head = next_part(&rest), *tok, *save = NULL;
  int T, i;
  long joined = 0;
  memset(&sh, 0, sizeof(sh));
  tok = strtok_r(head, " ", &save); T = tok ? atoi(tok) : 0;
  tok = strtok_r(NULL, " ", &save); sh.nm = tok ? atoi(tok) : 0;
  if (T < 1 || T > MAXT || sh.nm < 0 || sh.nm > MAXM) { fprintf(stderr, "c16_prog: bad locks scene\n"); exit(98); }
  for (i = 0; i < sh.nm; i++) {
    tok = strtok_r(NULL, " ", &save);
    if (!tok) { fprintf(stderr, "c16_prog: bad locks scene (kinds)\n"); exit(98); }
    mx_make(&sh.mx[i], tok[0]);
  }
  CHK(C_spin_init, pthread_spin_init(&sh.spin, PTHREAD_PROCESS_PRIVATE));
  CHK(C_barrier_init, pthread_barrier_init(&sh.start, NULL, (unsigned)T));
  for (i = 0; i < T; i++) {
    char *s = next_part(&rest);
    la[i].sh = &sh; la[i].script = s ? s : (char *)""; la[i].idx = i;
    CHK(C_create, pthread_create(&tid[i], NULL, locks_thread, &la[i]));
  }
  for (i = 0; i < T; i++) {
    void *r = NULL;
    CHK(C_join, pthread_join(tid[i], &r));
    joined += (long)(intptr_t)r;
  }
  printf("S%d locks joined=%ld", scene_no, joined);
  for (i = 0; i <= sh.nm; i++) printf(" c%d=%ld", i, (long)sh.counter[i]);
  printf("\n");
  for (i = 0; i < sh.nm; i++) mx_free(&sh.mx[i]);
  CHK(C_spin_destroy, pthread_spin_destroy(&sh.spin));
  CHK(C_barrier_destroy, pthread_barrier_destroy(&sh.start));
}

/* ---------------------------------------------------------------- tryheld */
typedef struct { mx_t *mx; int try_rc, timed_rc; } tryheld_arg_t;
static void *tryheld_thread(void *a_) {
  tryheld_arg_t *a = (tryheld_arg_t *)a_;
  struct timespec ts;
  a->try_rc = pthread_mutex_trylock(a->mx->m);
  if (a->try_rc == 0) CHK(C_mutex_unlock, pthread_mutex_unlock(a->mx->m));
  far_deadline(&ts, 3000000L);
  a->timed_rc = pthread_mutex_timedlock(a->mx->m, &ts);
  if (a->timed_rc == 0) CHK(C_mutex_unlock, pthread_mutex_unlock(a->mx->m));
  return NULL;
}

static void scene_tryheld(char *args) {
  int T, i, busy = 0, timedout = 0, other = 0, after;
  char kind, how;
  mx_t mx;
  tryheld_arg_t ta[MAXT];
  pthread_t tid[MAXT];
  if (sscanf(args, "%d %c %c", &T, &kind, &how) != 3 || T < 1 || T > MAXT) { fprintf(stderr, "c16_prog: bad tryheld scene\n"); exit(98); }
  mx_make(&mx, kind);
  if (how == 't') CHK(C_mutex_trylock, pthread_mutex_trylock(mx.m));
  else CHK(C_mutex_lock, pthread_mutex_lock(mx.m));
  for (i = 0; i < T; i++) {
    ta[i].mx = &mx; ta[i].try_rc = ta[i].timed_rc = -1;
    CHK(C_create, pthread_create(&tid[i], NULL, tryheld_thread, &ta[i]));
  }
  for (i = 0; i < T; i++) CHK(C_join, pthread_join(tid[i], NULL));
  for (i = 0; i < T; i++) {
    if (ta[i].try_rc == EBUSY) busy++; else other++;
    if (ta[i].timed_rc == ETIMEDOUT) timedout++; else other++;
  }
  CHK(C_mutex_unlock, pthread_mutex_unlock(mx.m));
  after = pthread_mutex_trylock(mx.m);
  if (after == 0) CHK(C_mutex_unlock, pthread_mutex_unlock(mx.m));
  printf("S%d tryheld busy=%d timedout=%d other=%d after=%d\n", scene_no, busy, timedout, other, after);
  mx_free(&mx);
}

/* ---------------------------------------------------------------- producer / consumer */
typedef struct {
  pthread_mutex_t *m; pthread_cond_t *notfull, *notempty;
  mx_t mx; pthread_cond_t c0, c1;
  int bcast, cap, head, count, total, consumed;
  long buf[64];
  volatile long sum;
} pc_sh_t;
typedef struct { pc_sh_t *sh; int id, n; long local; } pc_arg_t;

static void pc_wake(pc_sh_t *sh, pthread_cond_t *c) {
  if (sh->bcast) CHK(C_cond_broadcast, pthread_cond_broadcast(c));
  else CHK(C_cond_signal, pthread_cond_signal(c));
}

static void *pc_producer(void *a_) {
  pc_arg_t *a = (pc_arg_t *)a_;
  pc_sh_t *sh = a->sh;
  int i;
  for (i = 0; i < a->n; i++) {
    CHK(C_mutex_lock, pthread_mutex_lock(sh->m));
    while (sh->count == sh->cap) CHK(C_cond_wait, pthread_cond_wait(sh->notfull, sh->m));
    sh->buf[(sh->head + sh->count) % sh->cap] = (long)a->id * 1000 + i + 1;
    sh->count++;
    pc_wake(sh, sh->notempty);
    CHK(C_mutex_unlock, pthread_mutex_unlock(sh->m));
  }
  return NULL;
}

static void *pc_consumer(void *a_) {
  pc_arg_t *a = (pc_arg_t *)a_;
  pc_sh_t *sh = a->sh;
  for (;;) {
    long v;
    CHK(C_mutex_lock, pthread_mutex_lock(sh->m));
    while (sh->count == 0 && sh->consumed < sh->total) CHK(C_cond_wait, pthread_cond_wait(sh->notempty, sh->m));
    if (sh->count == 0) {            /* everything consumed */
      CHK(C_mutex_unlock, pthread_mutex_unlock(sh->m));
      break;
    }
    v = sh->buf[sh->head]; sh->head = (sh->head + 1) % sh->cap; sh->count--; sh->consumed++;
    if (sh->consumed == sh->total) CHK(C_cond_broadcast, pthread_cond_broadcast(sh->notempty));
    pc_wake(sh, sh->notfull);
    CHK(C_mutex_unlock, pthread_mutex_unlock(sh->m));
    a->local += v;
  }
  return (void *)(intptr_t)a->local;
}

static void scene_pc(char *args) {
  static pc_sh_t sh;
  int P, C, cap, N, M, i;
  pc_arg_t pa[MAXT], ca[MAXT];
  pthread_t pt[MAXT], ct[MAXT];
  long sum = 0;
  if (sscanf(args, "%d %d %d %d %d", &P, &C, &cap, &N, &M) != 5 || P < 1 || C < 1 || P > MAXT || C > MAXT ||
      cap < 1 || cap > 64) { fprintf(stderr, "c16_prog: bad pc scene\n"); exit(98); }
  memset(&sh, 0, sizeof(sh));
  sh.bcast = (M == 1 || M == 3); sh.cap = cap; sh.total = P * N;
  if (M == 3) {
    sh.m = fresh_static_mutex(); sh.notfull = sh.notempty = fresh_static_cond();
  } else {
    mx_make(&sh.mx, M == 2 ? 'a' : 'i'); sh.m = sh.mx.m;
    cond_make(&sh.c0, M == 2); sh.notfull = &sh.c0;
    if (M == 1) sh.notempty = &sh.c0; else { cond_make(&sh.c1, M == 2); sh.notempty = &sh.c1; }
  }
  for (i = 0; i < C; i++) { ca[i].sh = &sh; ca[i].id = i; ca[i].n = 0; ca[i].local = 0;
    CHK(C_create, pthread_create(&ct[i], NULL, pc_consumer, &ca[i])); }
  for (i = 0; i < P; i++) { pa[i].sh = &sh; pa[i].id = i + 1; pa[i].n = N; pa[i].local = 0;
    CHK(C_create, pthread_create(&pt[i], NULL, pc_producer, &pa[i])); }
  for (i = 0; i < P; i++) CHK(C_join, pthread_join(pt[i], NULL));
  for (i = 0; i < C; i++) { void *r = NULL; CHK(C_join, pthread_join(ct[i], &r)); sum += (long)(intptr_t)r; }
  printf("S%d pc sum=%ld consumed=%d left=%d\n", scene_no, sum, sh.consumed, sh.count);
  if (M != 3) {
    CHK(C_cond_destroy, pthread_cond_destroy(&sh.c0));
    if (M != 1) CHK(C_cond_destroy, pthread_cond_destroy(&sh.c1));
    mx_free(&sh.mx);
  }
}

/* ---------------------------------------------------------------- ring */
typedef struct { mx_t mx; pthread_cond_t c[MAXT]; int T, R, per, turn; unsigned long hash; } ring_sh_t;
typedef struct { ring_sh_t *sh; int me; } ring_arg_t;
static void *ring_thread(void *a_) {
  ring_arg_t *a = (ring_arg_t *)a_;
  ring_sh_t *sh = a->sh;
  int r;
  for (r = 0; r < sh->R; r++) {
    pthread_cond_t *mine = sh->per ? &sh->c[a->me] : &sh->c[0];
    int nxt = (a->me + 1) % sh->T;
    CHK(C_mutex_lock, pthread_mutex_lock(sh->mx.m));
    while (sh->turn != a->me) CHK(C_cond_wait, pthread_cond_wait(mine, sh->mx.m));
    sh->hash = (sh->hash * 31 + (unsigned long)a->me + 1) % 1000000007UL;
    sh->turn = nxt;
    if (sh->per) CHK(C_cond_signal, pthread_cond_signal(&sh->c[nxt]));
    else CHK(C_cond_broadcast, pthread_cond_broadcast(&sh->c[0]));
    CHK(C_mutex_unlock, pthread_mutex_unlock(sh->mx.m));
  }
  return NULL;
}
static void scene_ring(char *args) {
  static ring_sh_t sh;
  ring_arg_t ra[MAXT];
  pthread_t tid[MAXT];
  int i, nc;
  memset(&sh, 0, sizeof(sh));
  if (sscanf(args, "%d %d %d", &sh.T, &sh.R, &sh.per) != 3 || sh.T < 1 || sh.T > MAXT) { fprintf(stderr, "c16_prog: bad ring scene\n"); exit(98); }
  mx_make(&sh.mx, 'i');
  nc = sh.per ? sh.T : 1;
  for (i = 0; i < nc; i++) cond_make(&sh.c[i], 0);
  for (i = 0; i < sh.T; i++) { ra[i].sh = &sh; ra[i].me = i; CHK(C_create, pthread_create(&tid[i], NULL, ring_thread, &ra[i])); }
  for (i = 0; i < sh.T; i++) CHK(C_join, pthread_join(tid[i], NULL));
  printf("S%d ring hash=%lu turn=%d\n", scene_no, sh.hash, sh.turn);
  for (i = 0; i < nc; i++) CHK(C_cond_destroy, pthread_cond_destroy(&sh.c[i]));
  mx_free(&sh.mx);
}

/* ---------------------------------------------------------------- barrier */
typedef struct { pthread_barrier_t b; int T, P; volatile long slot[MAXT]; volatile long serial, ok; } bar_sh_t;
typedef struct { bar_sh_t *sh; int me; } bar_arg_t;
static void *bar_thread(void *a_) {
  bar_arg_t *a = (bar_arg_t *)a_;
  bar_sh_t *sh = a->sh;
  int p, i, r;
  for (p = 0; p < sh->P; p++) {
    long s = 0, want = 0;
    sh->slot[a->me] = (long)p * sh->T + a->me + 1;
    r = pthread_barrier_wait(&sh->b);
    if (r == PTHREAD_BARRIER_SERIAL_THREAD) __sync_fetch_and_add(&sh->serial, 1);
    else if (r != 0) rc_note(C_barrier_wait, r);
    for (i = 0; i < sh->T; i++) { s += sh->slot[i]; want += (long)p * sh->T + i + 1; }
    if (s == want) __sync_fetch_and_add(&sh->ok, 1);
    r = pthread_barrier_wait(&sh->b);
    if (r == PTHREAD_BARRIER_SERIAL_THREAD) __sync_fetch_and_add(&sh->serial, 1);
    else if (r != 0) rc_note(C_barrier_wait, r);
  }
  return NULL;
}
static void scene_barrier(char *args) {
  static bar_sh_t sh;
  bar_arg_t ba[MAXT];
  pthread_t tid[MAXT];
  int W, i, first;
  memset(&sh, 0, sizeof(sh));
  if (sscanf(args, "%d %d %d", &sh.T, &sh.P, &W) != 3 || sh.T < 1 || sh.T > MAXT) { fprintf(stderr, "c16_prog: bad barrier scene\n"); exit(98); }
  memset(&sh.b, 0x5a, sizeof(sh.b));
  CHK(C_barrier_init, pthread_barrier_init(&sh.b, NULL, (unsigned)sh.T));
  first = W ? 1 : 0;
  for (i = first; i < sh.T; i++) { ba[i].sh = &sh; ba[i].me = i; CHK(C_create, pthread_create(&tid[i], NULL, bar_thread, &ba[i])); }
  if (W) { ba[0].sh = &sh; ba[0].me = 0; bar_thread(&ba[0]); }
  for (i = first; i < sh.T; i++) CHK(C_join, pthread_join(tid[i], NULL));
  printf("S%d barrier serial=%ld ok=%ld\n", scene_no, (long)sh.serial, (long)sh.ok);
  CHK(C_barrier_destroy, pthread_barrier_destroy(&sh.b));
}

/* ---------------------------------------------------------------- once */
#define NONCE 4
static volatile long once_cnt[NONCE];
static int once_slow;
static void once_body(int i) {
  long v = once_cnt[i];
  if (once_slow) { YIELD(); if (g_yield) CHK(C_usleep, usleep(200)); YIELD(); }
  once_cnt[i] = v + 1;
}
static void once_init0(void) { once_body(0); }
static void once_init1(void) { once_body(1); }
static void once_init2(void) { once_body(2); }
static void once_init3(void) { once_body(3); }
static void (*once_fn[NONCE])(void) = { once_init0, once_init1, once_init2, once_init3 };
typedef struct { pthread_once_t *ctl; int R, me; long seen; pthread_barrier_t *start; } once_arg_t;
static void *once_thread(void *a_) {
  once_arg_t *a = (once_arg_t *)a_;
  int j, r = pthread_barrier_wait(a->start);
  if (r != 0 && r != PTHREAD_BARRIER_SERIAL_THREAD) rc_note(C_barrier_wait, r);
  for (j = 0; j < a->R; j++) {
    int i = (a->me + j) % a->R;
    CHK(C_once, pthread_once(&a->ctl[i], once_fn[i]));
    if (once_cnt[i] == 1) a->seen++;
  }
  return NULL;
}
static void scene_once(char *args) {
  int T, R, Y, i;
  long calls = 0, seen = 0;
  once_arg_t oa[MAXT];
  pthread_t tid[MAXT];
  pthread_barrier_t start;
  pthread_once_t *ctl;
  if (sscanf(args, "%d %d %d", &T, &R, &Y) != 3 || T < 1 || T > MAXT || R < 1 || R > NONCE) { fprintf(stderr, "c16_prog: bad once scene\n"); exit(98); }
  if (n_static_once + R > NSTATIC) { fprintf(stderr, "c16_prog: out of once controls\n"); exit(99); }
  ctl = &static_once[n_static_once]; n_static_once += R;
  once_slow = Y;
  for (i = 0; i < NONCE; i++) once_cnt[i] = 0;
  CHK(C_barrier_init, pthread_barrier_init(&start, NULL, (unsigned)T));
  for (i = 0; i < T; i++) { oa[i].ctl = ctl; oa[i].R = R; oa[i].me = i; oa[i].seen = 0; oa[i].start = &start;
    CHK(C_create, pthread_create(&tid[i], NULL, once_thread, &oa[i])); }
  for (i = 0; i < T; i++) { CHK(C_join, pthread_join(tid[i], NULL)); seen += oa[i].seen; }
  for (i = 0; i < R; i++) calls += once_cnt[i];
  /* a second round by the main thread alone must not run the routines again */
  for (i = 0; i < R; i++) CHK(C_once, pthread_once(&ctl[i], once_fn[i]));
  for (i = 0, calls = 0; i < R; i++) calls += once_cnt[i];
  printf("S%d once calls=%ld seen=%ld\n", scene_no, calls, seen);
  CHK(C_barrier_destroy, pthread_barrier_destroy(&start));
}

/* ---------------------------------------------------------------- keys */
#define MAXK 40
/* every key with a destructor gets its OWN destructor function out of a pool of 256, so that a call (also one
   with a NULL value) identifies the key incarnation it was made for; the calling thread is pthread_self() */
#define NPOOL 256
#define MAXDLOG 16384
typedef struct { pthread_t self; int g; long v; } dlog_t;
static dlog_t dlog[MAXDLOG];
static volatile long n_dlog;
static void dtor_log(int g, void *v) {
  long i = __sync_fetch_and_add(&n_dlog, 1);
  if (i < MAXDLOG) { dlog[i].self = pthread_self(); dlog[i].g = g; dlog[i].v = (long)(intptr_t)v; }
}
#define DT(p, d) static void dt_##p##d(void *v) { dtor_log(0x##p##d, v); }
#define DT16(p) DT(p,0) DT(p,1) DT(p,2) DT(p,3) DT(p,4) DT(p,5) DT(p,6) DT(p,7) DT(p,8) DT(p,9) DT(p,a) DT(p,b) DT(p,c) DT(p,d) DT(p,e) DT(p,f)
DT16(0) DT16(1) DT16(2) DT16(3) DT16(4) DT16(5) DT16(6) DT16(7) DT16(8) DT16(9) DT16(a) DT16(b) DT16(c) DT16(d) DT16(e) DT16(f)
#define DN(p, d) dt_##p##d,
#define DN16(p) DN(p,0) DN(p,1) DN(p,2) DN(p,3) DN(p,4) DN(p,5) DN(p,6) DN(p,7) DN(p,8) DN(p,9) DN(p,a) DN(p,b) DN(p,c) DN(p,d) DN(p,e) DN(p,f)
static void (*dtor_pool[NPOOL])(void *) = { DN16(0) DN16(1) DN16(2) DN16(3) DN16(4) DN16(5) DN16(6) DN16(7) DN16(8) DN16(9) DN16(a) DN16(b) DN16(c) DN16(d) DN16(e) DN16(f) };
static struct { int scene, j; unsigned long keyval; } pool_info[NPOOL];
static int n_pool;
static int pool_take(int j) {
  if (n_pool >= NPOOL) { fprintf(stderr, "c16_prog: out of destructor functions\n"); exit(99); }
  pool_info[n_pool].scene = scene_no; pool_info[n_pool].j = j;
  return n_pool++;
}

typedef struct { int k; long v; } kset_t;
typedef struct { pthread_key_t *keys; int K; kset_t set[64]; int nset; long fresh, match; pthread_t self; pthread_barrier_t *start; } keys_arg_t;
static void *keys_thread(void *a_) {
  keys_arg_t *a = (keys_arg_t *)a_;
  int i, r;
  a->self = pthread_self();
  /* nobody exits before everybody has been created: thread ids are not reused within the scene */
  r = pthread_barrier_wait(a->start);
  if (r != 0 && r != PTHREAD_BARRIER_SERIAL_THREAD) rc_note(C_barrier_wait, r);
  for (i = 0; i < a->K; i++) if (pthread_getspecific(a->keys[i]) == NULL) a->fresh++;
  for (i = 0; i < a->nset; i++) {
    CHK(C_setspecific, pthread_setspecific(a->keys[a->set[i].k], (void *)(intptr_t)a->set[i].v));
    YIELD();
    if ((long)(intptr_t)pthread_getspecific(a->keys[a->set[i].k]) == a->set[i].v) a->match++;
  }
  return NULL;
}
typedef struct { int t, old; long k, v; } dent_t;     /* thread, made for a key of an earlier scene?, key index / key value, value */
static int dent_cmp(const void *a_, const void *b_) {
  const dent_t *a = (const dent_t *)a_, *b = (const dent_t *)b_;
  if (a->t != b->t) return a->t < b->t ? -1 : 1;
  if (a->old != b->old) return a->old < b->old ? -1 : 1;
  if (a->k != b->k) return a->k < b->k ? -1 : 1;
  if (a->v != b->v) return a->v < b->v ? -1 : 1;
  return 0;
}
static void scene_keys(char *args) {
  static keys_arg_t ka[MAXT];
  static dent_t ent[MAXDLOG];
  pthread_key_t keys[MAXK];
  pthread_t tid[MAXT];
  pthread_barrier_t start;
  char *rest = args, *head = next_part(&rest), *part;
  int K, T, i, ne = 0, first;
  unsigned long DM;
  long fresh = 0, match = 0, log0, log1, l;
  if (sscanf(head, "%d %d %lu", &K, &T, &DM) != 3 || K < 1 || K > MAXK || T < 1 || T > MAXT) { fprintf(stderr, "c16_prog: bad keys scene\n"); exit(98); }
  log0 = n_dlog;
  for (i = 0; i < K; i++) {
    if ((DM >> i) & 1) {
      int g = pool_take(i);
      CHK(C_key_create, pthread_key_create(&keys[i], dtor_pool[g]));
      pool_info[g].keyval = (unsigned long)keys[i];
    } else {
      CHK(C_key_create, pthread_key_create(&keys[i], NULL));
    }
  }
  CHK(C_barrier_init, pthread_barrier_init(&start, NULL, (unsigned)T));
  for (i = 0; i < T; i++) { ka[i].keys = keys; ka[i].K = K; ka[i].nset = 0; ka[i].fresh = ka[i].match = 0; ka[i].start = &start; }
  while ((part = next_part(&rest)) != NULL) {
    int t, k; long v;
    if (sscanf(part, "%d %d %ld", &t, &k, &v) != 3) continue;
    if (t < 0 || t >= T || k < 0 || k >= K || ka[t].nset >= 64) { fprintf(stderr, "c16_prog: bad keys entry\n"); exit(98); }
    ka[t].set[ka[t].nset].k = k; ka[t].set[ka[t].nset].v = v; ka[t].nset++;
  }
  for (i = 0; i < T; i++) CHK(C_create, pthread_create(&tid[i], NULL, keys_thread, &ka[i]));
  for (i = 0; i < T; i++) { CHK(C_join, pthread_join(tid[i], NULL)); fresh += ka[i].fresh; match += ka[i].match; }
  log1 = n_dlog < MAXDLOG ? n_dlog : MAXDLOG;
  /* the main thread never stored anything: every key reads NULL here */
  for (i = 0; i < K; i++) if (pthread_getspecific(keys[i]) == NULL) fresh++;
  for (l = log0; l < log1; l++) {
    int t = -1, g = dlog[l].g;
    for (i = 0; i < T; i++) if (pthread_equal(dlog[l].self, ka[i].self)) { t = i; break; }
    ent[ne].t = t; ent[ne].v = dlog[l].v;
    if (pool_info[g].scene == scene_no) { ent[ne].old = 0; ent[ne].k = pool_info[g].j; }
    else { ent[ne].old = 1; ent[ne].k = (long)pool_info[g].keyval; }
    ne++;
  }
  qsort(ent, (size_t)ne, sizeof(ent[0]), dent_cmp);
  /* destructor calls with a non-NULL value: thread:key:value (a key of an earlier scene: thread:x<key value>:value) */
  printf("S%d keys fresh=%ld match=%ld dtors=", scene_no, fresh, match);
  for (i = 0, first = 1; i < ne; i++) if (ent[i].v != 0) {
    printf(ent[i].old ? "%s%d:x%ld:%ld" : "%s%d:%ld:%ld", first ? "" : ",", ent[i].t, ent[i].k, ent[i].v); first = 0; }
  printf("\n");
  /* destructor calls with a NULL value (none on a conforming implementation) */
  printf("S%d keys.null_dtor_calls=", scene_no);
  for (i = 0, first = 1; i < ne; i++) if (ent[i].v == 0) {
    printf(ent[i].old ? "%s%d:x%ld" : "%s%d:%ld", first ? "" : ",", ent[i].t, ent[i].k); first = 0; }
  printf("\n");
  /* the key values the implementation handed out (implementation specific; not compared) */
  printf("S%d keys.ids=", scene_no);
  for (i = 0; i < K; i++) printf("%s%lu", i ? "," : "", (unsigned long)keys[i]);
  printf("\n");
  for (i = 0; i < K; i++) CHK(C_key_delete, pthread_key_delete(keys[i]));
  CHK(C_barrier_destroy, pthread_barrier_destroy(&start));
}

/* ---------------------------------------------------------------- detach */
typedef struct { mx_t mx; pthread_cond_t c; int done; long sum; } det_sh_t;
typedef struct { det_sh_t *sh; int me; char mode; } det_arg_t;
static void *det_thread(void *a_) {
  det_arg_t *a = (det_arg_t *)a_;
  det_sh_t *sh = a->sh;
  if (a->mode == 's') CHK(C_detach, pthread_detach(pthread_self()));
  YIELD();
  CHK(C_mutex_lock, pthread_mutex_lock(sh->mx.m));
  sh->sum += (long)(a->me + 1) * (a->me + 1);
  sh->done++;
  CHK(C_cond_signal, pthread_cond_signal(&sh->c));
  CHK(C_mutex_unlock, pthread_mutex_unlock(sh->mx.m));
  return (void *)(intptr_t)77;
}
static void scene_detach(char *args) {
  static det_sh_t sh;
  static det_arg_t da[MAXT];
  int T, i;
  char modes[MAXT + 1];
  memset(&sh, 0, sizeof(sh));
  if (sscanf(args, "%d %64s", &T, modes) != 2 || T < 1 || T > MAXT || (int)strlen(modes) < T) { fprintf(stderr, "c16_prog: bad detach scene\n"); exit(98); }
  mx_make(&sh.mx, 'i');
  cond_make(&sh.c, 0);
  for (i = 0; i < T; i++) {
    pthread_t t;
    da[i].sh = &sh; da[i].me = i; da[i].mode = modes[i];
    if (modes[i] == 'a') {
      pthread_attr_t at;
      int ds = -1;
      memset(&at, 0x5a, sizeof(at));
      CHK(C_attr_init, pthread_attr_init(&at));
      CHK(C_attr_setdetachstate, pthread_attr_setdetachstate(&at, PTHREAD_CREATE_DETACHED));
      CHK(C_attr_getdetachstate, pthread_attr_getdetachstate(&at, &ds));
      if (ds != PTHREAD_CREATE_DETACHED) rc_note(C_internal, 4);
      CHK(C_create, pthread_create(&t, &at, det_thread, &da[i]));
      CHK(C_attr_destroy, pthread_attr_destroy(&at));
    } else {
      CHK(C_create, pthread_create(&t, NULL, det_thread, &da[i]));
      if (modes[i] == 'c') CHK(C_detach, pthread_detach(t));
    }
  }
  CHK(C_mutex_lock, pthread_mutex_lock(sh.mx.m));
  while (sh.done < T) CHK(C_cond_wait, pthread_cond_wait(&sh.c, sh.mx.m));
  CHK(C_mutex_unlock, pthread_mutex_unlock(sh.mx.m));
  printf("S%d detach done=%d sum=%ld\n", scene_no, sh.done, sh.sum);
  /* the objects stay alive (static): a detached thread may still be between its unlock and its exit */
}

/* ---------------------------------------------------------------- ids */
typedef struct { pthread_barrier_t *b1, *b2; pthread_t self; int eqself; } ids_arg_t;
static void *ids_thread(void *a_) {
  ids_arg_t *a = (ids_arg_t *)a_;
  int r;
  a->self = pthread_self();
  a->eqself = pthread_equal(pthread_self(), a->self) != 0;
  r = pthread_barrier_wait(a->b1);
  if (r != 0 && r != PTHREAD_BARRIER_SERIAL_THREAD) rc_note(C_barrier_wait, r);
  r = pthread_barrier_wait(a->b2);
  if (r != 0 && r != PTHREAD_BARRIER_SERIAL_THREAD) rc_note(C_barrier_wait, r);
  return NULL;
}
static void scene_ids(char *args) {
  int T, i, j, r, selfok = 0, match = 0, distinct = 0, notmain = 0, osn;
  ids_arg_t ia[MAXT];
  pthread_t tid[MAXT];
  pthread_barrier_t b1, b2;
  if (sscanf(args, "%d", &T) != 1 || T < 1 || T >= MAXT) { fprintf(stderr, "c16_prog: bad ids scene\n"); exit(98); }
  CHK(C_barrier_init, pthread_barrier_init(&b1, NULL, (unsigned)T + 1));
  CHK(C_barrier_init, pthread_barrier_init(&b2, NULL, (unsigned)T + 1));
  for (i = 0; i < T; i++) { ia[i].b1 = &b1; ia[i].b2 = &b2; ia[i].eqself = 0;
    CHK(C_create, pthread_create(&tid[i], NULL, ids_thread, &ia[i])); }
  r = pthread_barrier_wait(&b1);
  if (r != 0 && r != PTHREAD_BARRIER_SERIAL_THREAD) rc_note(C_barrier_wait, r);
  for (i = 0; i < T; i++) {
    selfok += ia[i].eqself;
    if (pthread_equal(tid[i], ia[i].self)) match++;
    if (!pthread_equal(tid[i], pthread_self())) notmain++;
    for (j = i + 1; j < T; j++) if (!pthread_equal(tid[i], tid[j])) distinct++;
  }
  osn = os_threads_settled();          /* all T threads are alive (blocked in the second barrier) */
  r = pthread_barrier_wait(&b2);
  if (r != 0 && r != PTHREAD_BARRIER_SERIAL_THREAD) rc_note(C_barrier_wait, r);
  for (i = 0; i < T; i++) CHK(C_join, pthread_join(tid[i], NULL));
  printf("S%d ids self=%d match=%d notmain=%d distinct=%d\n", scene_no, selfok, match, notmain, distinct);
  /* OS threads of the process while T user threads were alive (configuration specific: T+1 on the system
     library; number of workers, independent of T, when the calls are redirected to MassiveThreads) */
  printf("S%d ids.os_threads=%d users=%d\n", scene_no, osn, T);
  CHK(C_barrier_destroy, pthread_barrier_destroy(&b1));
  CHK(C_barrier_destroy, pthread_barrier_destroy(&b2));
}

/* ---------------------------------------------------------------- sleep */
static long real_ns(void) {
  struct timespec ts;
  clock_gettime(CLOCK_REALTIME, &ts);
  return ts.tv_sec * 1000000000L + ts.tv_nsec;
}
typedef struct { char kind; long us; int rep; int me, ok, n; } sleep_arg_t;
/* one sleep of [us] microseconds through the function chosen by [kind]; 1 iff it returned 0 and not earlier
   than requested on CLOCK_MONOTONIC and on CLOCK_REALTIME (the latter with 1 ms of slack for adjustments) */
static int one_sleep(char kind, long us, int me) {
  long m0 = now_ns(), r0 = real_ns(), m1, r1;
  if (kind == 'u') {
    CHK(C_usleep, usleep((useconds_t)us));
  } else if (kind == 's') {
    CHK(C_sleep, sleep((unsigned)(us / 1000000)));
  } else {
    struct timespec ts = { us / 1000000, (us % 1000000) * 1000 }, rem = { 0, 0 };
    CHK(C_nanosleep, nanosleep(&ts, me % 4 == 1 ? &rem : NULL));
  }
  m1 = now_ns(); r1 = real_ns();
  return (m1 - m0 >= us * 1000) && (r1 - r0 >= us * 1000 - 1000000);
}
static void *sleep_thread(void *a_) {
  sleep_arg_t *a = (sleep_arg_t *)a_;
  int i;
  for (i = 0; i < a->rep; i++) {
    if (a->kind == 'a') {
      /* start the sleep in the last [us]/2 of a wall-clock second, so that now + request crosses the second */
      long guard = now_ns();
      for (;;) {
        long f = real_ns() % 1000000000L;
        if (f >= 1000000000L - a->us * 500 || now_ns() - guard > 1500000000L) break;
        YIELD();
      }
      a->ok += one_sleep('u', a->us, a->me);
    } else {
      /* some computation of varying length between two sleeps (de-synchronises from the timer tick) */
      if (i > 0) busy_ns(100000L * ((i * 7 + a->me * 3) % 11));
      a->ok += one_sleep(a->kind, a->us, a->me);
    }
    a->n++;
  }
  return NULL;
}
static void scene_sleep(char *args) {
  int T, i, ok = 0, n = 0;
  sleep_arg_t sa[MAXT];
  pthread_t tid[MAXT];
  char *save = NULL, *tok = strtok_r(args, " ", &save);
  T = tok ? atoi(tok) : 0;
  if (T < 1 || T > MAXT) { fprintf(stderr, "c16_prog: bad sleep scene\n"); exit(98); }
  for (i = 0; i < T; i++) {
    char *x;
    tok = strtok_r(NULL, " ", &save);
    sa[i].me = i; sa[i].ok = 0; sa[i].n = 0; sa[i].rep = 1; sa[i].kind = (i % 2 == 0) ? 'u' : 'n'; sa[i].us = 0;
    if (!tok) continue;
    if (*tok == 'u' || *tok == 'n' || *tok == 's' || *tok == 'a') sa[i].kind = *tok++;
    sa[i].us = strtol(tok, &x, 10);
    if (sa[i].kind == 's') sa[i].us *= 1000000L;          /* s<seconds> */
    if (sa[i].kind == 'a') sa[i].us *= 1000L;             /* a<milliseconds> */
    if (*x == 'x') sa[i].rep = atoi(x + 1);
    if (sa[i].rep < 1 || sa[i].rep > 50) sa[i].rep = 1;
  }
  for (i = 0; i < T; i++) CHK(C_create, pthread_create(&tid[i], NULL, sleep_thread, &sa[i]));
  if (g_yield) CHK(C_sleep, sleep(0));
  for (i = 0; i < T; i++) { CHK(C_join, pthread_join(tid[i], NULL)); ok += sa[i].ok; n += sa[i].n; }
  printf("S%d sleep ok=%d of=%d\n", scene_no, ok, n);
}

/* ---------------------------------------------------------------- solo */
static volatile long solo_once_cnt;
static void solo_once_fn(void) { solo_once_cnt++; }
static void scene_solo(char *args) {
  char ops[128];
  int ok = 0, n = 0;
  char *p;
  if (sscanf(args, "%127s", ops) != 1) { fprintf(stderr, "c16_prog: bad solo scene\n"); exit(98); }
  for (p = ops; *p; p++, n++) {
    switch (*p) {
    case 'b': { pthread_barrier_t b; int r;
      memset(&b, 0x5a, sizeof(b));
      CHK(C_barrier_init, pthread_barrier_init(&b, NULL, 1));
      r = pthread_barrier_wait(&b);
      if (r == PTHREAD_BARRIER_SERIAL_THREAD) ok++; else rc_note(C_barrier_wait, r);
      CHK(C_barrier_destroy, pthread_barrier_destroy(&b));
      break; }
    case 's': case 'B': { pthread_cond_t c;
      cond_make(&c, 0);
      if (*p == 's') CHK(C_cond_signal, pthread_cond_signal(&c)); else CHK(C_cond_broadcast, pthread_cond_broadcast(&c));
      CHK(C_cond_destroy, pthread_cond_destroy(&c));
      ok++;
      break; }
    case 'S': { pthread_cond_t *c = fresh_static_cond();
      CHK(C_cond_signal, pthread_cond_signal(c)); CHK(C_cond_broadcast, pthread_cond_broadcast(c));
      ok++;
      break; }
    case 'm': { mx_t mx; mx_make(&mx, 'i');
      CHK(C_mutex_lock, pthread_mutex_lock(mx.m)); CHK(C_mutex_unlock, pthread_mutex_unlock(mx.m));
      mx_free(&mx); ok++;
      break; }
    case 't': { pthread_mutex_t *m = fresh_static_mutex(); int r = pthread_mutex_trylock(m), r2;
      if (r != 0) { rc_note(C_mutex_trylock, r); break; }
      r2 = pthread_mutex_trylock(m);
      if (r2 == EBUSY) ok++; else rc_note(C_mutex_trylock, r2 ? r2 : -1);
      CHK(C_mutex_unlock, pthread_mutex_unlock(m));
      break; }
    case 'd': { pthread_mutex_t *m = fresh_static_mutex(); struct timespec ts; int r;
      far_deadline(&ts, 60L * 1000000000L);
      CHK(C_mutex_timedlock, pthread_mutex_timedlock(m, &ts));
      far_deadline(&ts, 2000000L);
      r = pthread_mutex_timedlock(m, &ts);
      if (r == ETIMEDOUT) ok++; else rc_note(C_mutex_timedlock, r ? r : -1);
      CHK(C_mutex_unlock, pthread_mutex_unlock(m));
      break; }
    case 'l': { pthread_mutex_t *m = fresh_static_mutex();
      CHK(C_mutex_lock, pthread_mutex_lock(m)); CHK(C_mutex_unlock, pthread_mutex_unlock(m));
      CHK(C_mutex_destroy, pthread_mutex_destroy(m)); ok++;
      break; }
    case 'p': { pthread_spinlock_t sp; int r;
      CHK(C_spin_init, pthread_spin_init(&sp, PTHREAD_PROCESS_PRIVATE));
      CHK(C_spin_lock, pthread_spin_lock(&sp));
      r = pthread_spin_trylock(&sp);
      if (r == EBUSY) ok++; else rc_note(C_spin_trylock, r ? r : -1);
      CHK(C_spin_unlock, pthread_spin_unlock(&sp));
      CHK(C_spin_trylock, pthread_spin_trylock(&sp));
      CHK(C_spin_unlock, pthread_spin_unlock(&sp));
      CHK(C_spin_destroy, pthread_spin_destroy(&sp));
      break; }
    case 'o': { long before = solo_once_cnt;
      if (n_static_once >= NSTATIC) { fprintf(stderr, "c16_prog: out of once controls\n"); exit(99); }
      CHK(C_once, pthread_once(&static_once[n_static_once], solo_once_fn));
      CHK(C_once, pthread_once(&static_once[n_static_once], solo_once_fn));
      n_static_once++;
      if (solo_once_cnt == before + 1) ok++;
      break; }
    case 'k': { pthread_key_t k; int good;
      CHK(C_key_create, pthread_key_create(&k, dtor_pool[pool_take(-1)]));
      pool_info[n_pool - 1].keyval = (unsigned long)k;
      good = pthread_getspecific(k) == NULL;
      CHK(C_setspecific, pthread_setspecific(k, (void *)(intptr_t)1234));
      good = good && (long)(intptr_t)pthread_getspecific(k) == 1234;
      CHK(C_setspecific, pthread_setspecific(k, NULL));
      good = good && pthread_getspecific(k) == NULL;
      CHK(C_key_delete, pthread_key_delete(k));
      if (good) ok++;
      break; }
    case 'y': CHK(C_sched_yield, sched_yield()); ok++; break;
    case 'Y': CHK(C_pthread_yield, pthread_yield()); ok++; break;
    case 'u': CHK(C_usleep, usleep(0)); { struct timespec ts = { 0, 1000 }; CHK(C_nanosleep, nanosleep(&ts, NULL)); } ok++; break;
    case 'i': if (pthread_equal(pthread_self(), pthread_self())) ok++; else rc_note(C_equal_self, 1); break;
    default: rc_note(C_internal, 5); break;
    }
  }
  printf("S%d solo ok=%d of=%d\n", scene_no, ok, n);
}

/* ---------------------------------------------------------------- exit */
static void *exit_thread(void *a) {
  rc_print();
  printf("end\n");
  exit((int)(intptr_t)a);
  return NULL;
}

int main(int argc, char **argv) {
  FILE *f;
  static char line[8192];
  int status = 0, mode = 0;
  if (argc < 2 || !(f = fopen(argv[1], "r"))) { fprintf(stderr, "usage: c16_prog <case-file>\n"); return 97; }
  while (fgets(line, sizeof(line), f)) {
    char *h = strchr(line, '#'), *p = line, *kw;
    if (h) *h = 0;
    h = strchr(line, '\n'); if (h) *h = 0;
    while (*p == ' ') p++;
    if (!*p) continue;
    kw = p;
    while (*p && *p != ' ') p++;
    if (*p) *p++ = 0;
    scene_no++;
    if (!strcmp(kw, "tree")) scene_tree(p);
    else if (!strcmp(kw, "locks")) scene_locks(p);
    else if (!strcmp(kw, "tryheld")) scene_tryheld(p);
    else if (!strcmp(kw, "pc")) scene_pc(p);
    else if (!strcmp(kw, "ring")) scene_ring(p);
    else if (!strcmp(kw, "barrier")) scene_barrier(p);
    else if (!strcmp(kw, "once")) scene_once(p);
    else if (!strcmp(kw, "keys")) scene_keys(p);
    else if (!strcmp(kw, "detach")) scene_detach(p);
    else if (!strcmp(kw, "ids")) scene_ids(p);
    else if (!strcmp(kw, "sleep")) scene_sleep(p);
    else if (!strcmp(kw, "solo")) scene_solo(p);
    else if (!strcmp(kw, "noyield")) { g_yield = 0; scene_no--; }
    else if (!strcmp(kw, "exit")) { sscanf(p, "%d %d", &status, &mode); scene_no--; }
    else { fprintf(stderr, "c16_prog: unknown scene %s\n", kw); return 98; }
  }
  fclose(f);
  if (mode == 2) {
    pthread_t t;
    CHK(C_create, pthread_create(&t, NULL, exit_thread, (void *)(intptr_t)status));
    CHK(C_join, pthread_join(t, NULL));
    return 96;   /* not reached */
  }
  rc_print();
  printf("end\n");
  if (mode == 1) exit(status);
  return status;
}
