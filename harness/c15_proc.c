/* C15 process-level harness, linked with the hooks-on library of the CURRENT tree; uses only the
 * public API (plus the exported word g_myth_init_state, read only, to report the state after fini).
 *
 *   c15_proc hist <cycle>,<cycle>,...
 *       cycle = <how><n>[m][x][+<mod>]...    mod = S<bytes> | C<0/1> | B<int>  (attribute setters: stack size, child first,
 *                 bind workers)  |  R[w]i | R[w]a<n>[s<bytes>][c<v>][b<v>]  (redundant myth_init() / myth_init_ex(&attr) with
 *                 different settings INSIDE the epoch, from main or [w] from a thread on another worker; an `again` line
 *                 repeats the observations afterwards)  |  e<K>=<hex> | e<K>-  (setenv / unsetenv before this cycle; K = N S C B L W for
 *                 MYTH_NUM_WORKERS, _DEF_STKSIZE, _CHILD_FIRST, _BIND_WORKERS, _CPU_LIST, _WORKER_NUM)
 *         how: a = own attribute object: globalattr_init, set_n_workers(n), myth_init_ex(&a)
 *              g = myth_globalattr_set_n_workers(NULL, n) then myth_init()
 *              i = myth_init() with whatever is configured (n ignored)
 *              u = no explicit initialisation: the first API call initialises (n ignored)
 *         m  = before finalising make the main thread migrate to another worker
 *         x  = do not finalise (only meaningful for the last cycle)
 *       per cycle:  cycle <k> pre=<affinity mask of the caller before init, c.c.c> ret=<init result> nw=<myth_get_num_workers> tasks=<OS threads> main=<rank>
 *                   ranks=<r,...> stk=<default stack size attribute> bind=<attr> aff=<rank>:<ncpus>:<first>;... mig=<rank of main before fini>
 *       after fini: fini <k> state=<g_myth_init_state> tasks=<OS threads>
 *   c15_proc first <what>
 *       the FIRST library call of the process is <what> (create, yield, self, key_create, cond_signal,
 *       cond_broadcast, barrier1 = myth_barrier_wait on a count-1 barrier, jc_dec = myth_join_counter_dec on a
 *       counter of 1, mutex = lock+unlock, num_workers, worker_num, uncond_signal is not used: it waits for a
 *       waiter); it must initialise the library implicitly.
 *       first <what> before=<state before> r=<result> nw=<..> tasks=<..> me=<rank> state=<state>   then   fini ...
 *   c15_proc race <K> <C>
 *       C epochs; in each, K native threads leave a spin barrier and call myth_init() together; the
 *       one that became worker 0 reports and finalises.
 *       per epoch:  race <c> rets=<r,...> winners=<number of callers that are workers> nw=<..> tasks=<..>
 */
#define _GNU_SOURCE
#include <stdio.h>
#include <stdlib.h>
#include <string.h>
#include <unistd.h>
#include <dirent.h>
#include <sched.h>
#include <pthread.h>
#include <time.h>
#include <stdint.h>
#include <sys/syscall.h>
#include <myth/myth.h>

extern volatile int g_myth_init_state;

static int count_tasks_once(void) {
  DIR * d = opendir("/proc/self/task");
  struct dirent * e; int n = 0;
  if (!d) return -1;
  while ((e = readdir(d))) if (e->d_name[0] != '.') n++;
  closedir(d);
  return n;
}

/* a joined thread can stay visible in /proc for a moment after pthread_join returned: poll until the
   expected number is seen, for at most 300 ms */
static int count_tasks_expect(int expect) {
  int i, n = -1;
  for (i = 0; i < 300; i++) { n = count_tasks_once(); if (n == expect) break; usleep(1000); }
  return n;
}
static int count_tasks(void) { return count_tasks_once(); }

/* ---- every worker checks in exactly once: rank <-> OS thread, affinity, position of its thread's stack ----
   main creates a spawner; the spawner creates nw-1 holders, one at a time.  myth_create with a NULL attribute
   is child first: the holder starts on the spawner's worker and keeps it (it spins, it never yields) until all
   nw ranks have checked in, while the spawner, parked in that worker's queue, can only go on after a thief has
   taken it to ANOTHER worker.  So nw-1 holders sit on nw-1 different workers and the spawner ends on the last one. */
#define MAXW 1100
static volatile int g_n, g_seen_cnt, g_dup, g_badrank, g_timedout;
static volatile int g_rank_tid[MAXW], g_affn[MAXW], g_aff0[MAXW];
static volatile uintptr_t g_top[MAXW];
static double now_s(void) { struct timespec ts; clock_gettime(CLOCK_MONOTONIC, &ts); return ts.tv_sec + ts.tv_nsec * 1e-9; }
static double g_deadline;

static __attribute__((noinline)) void checkin(void) {
  volatile char marker;
  int r = myth_get_worker_num(), tid = (int)syscall(SYS_gettid);
  if (r < 0 || r >= g_n || r >= MAXW) { g_badrank = r; return; }
  if (__sync_bool_compare_and_swap(&g_rank_tid[r], 0, tid)) {
    cpu_set_t cs; int i;
    CPU_ZERO(&cs);
    sched_getaffinity(0, sizeof cs, &cs);    /* 0 = the calling OS thread = the worker running us */
    g_affn[r] = CPU_COUNT(&cs); g_aff0[r] = -1;
    for (i = 0; i < CPU_SETSIZE; i++) if (CPU_ISSET(i, &cs)) { g_aff0[r] = i; break; }
    g_top[r] = (uintptr_t)&marker;
    __sync_fetch_and_add(&g_seen_cnt, 1);
  } else if (g_rank_tid[r] != tid) g_dup = 1;   /* two OS threads report the same worker index */
}
static void wait_all(void) {
  long n = 0;
  while (g_seen_cnt < g_n && !g_timedout) { if ((++n & 0xfffff) == 0 && now_s() > g_deadline) g_timedout = 1; }
}
static __attribute__((noinline)) void * holder(void * a) { (void)a; checkin(); wait_all(); return NULL; }
static void * spawner(void * a) {
  static myth_thread_t th[MAXW];
  int i, made = 0;
  (void)a;
  for (i = 0; i < g_n - 1 && g_seen_cnt < g_n && !g_timedout; i++) th[made++] = myth_create(holder, NULL);
  checkin(); wait_all();
  for (i = 0; i < made; i++) myth_join(th[i], NULL);
  return NULL;
}

/* migration: main creates A; A creates B (child first: B runs, A waits in worker 0's queue); B
   spins until A has been resumed, which only a thief can do; A then waits until main is about to
   join it, sleeps a little and returns, waking main up on A's worker. */
static volatile int a_rank, main_joining;
static void * fb(void * a) { (void)a; long n = 0; while (a_rank < 0 && n < 400000000L) n++; return NULL; }
static void * fa(void * a) {
  (void)a;
  myth_thread_t b = myth_create(fb, NULL);
  a_rank = myth_get_worker_num();
  long n = 0; while (!main_joining && n < 400000000L) n++;
  usleep(3000);
  myth_join(b, NULL);
  return NULL;
}
static volatile int cf_flag;
static void * setflag(void * a) { (void)a; cf_flag = 1; return NULL; }

static void env_mod(const char * m) {   /* e<K>=<hex>  |  e<K>-   with K in N S C B L W */
  const char * name = m[1] == 'N' ? "MYTH_NUM_WORKERS" : m[1] == 'S' ? "MYTH_DEF_STKSIZE" : m[1] == 'C' ? "MYTH_CHILD_FIRST" :
                      m[1] == 'B' ? "MYTH_BIND_WORKERS" : m[1] == 'L' ? "MYTH_CPU_LIST" : m[1] == 'W' ? "MYTH_WORKER_NUM" : NULL;
  if (!name) return;
  if (m[2] == '-') { unsetenv(name); return; }
  {
    const char * h = m + 3; size_t n = strlen(h) / 2, i; char * s = malloc(n + 1);
    for (i = 0; i < n; i++) { unsigned v; sscanf(h + 2 * i, "%2x", &v); s[i] = (char)v; }
    s[n] = 0; setenv(name, s, 1); free(s);
  }
}

/* redundant initialisation inside an epoch:  i = myth_init();  a<n>[s<bytes>][c<v>][b<v>] = myth_init_ex(&attr) with
   a fresh attribute object carrying these (different) settings */
static int redundant_call(const char * m) {
  myth_globalattr_t a; const char * q;
  if (m[0] == 'i') return myth_init();
  myth_globalattr_init(&a);
  myth_globalattr_set_n_workers(&a, (size_t)atoi(m + 1));
  if ((q = strchr(m, 's'))) myth_globalattr_set_stacksize(&a, (size_t)atol(q + 1));
  if ((q = strchr(m, 'c'))) myth_globalattr_set_child_first(&a, atoi(q + 1));
  if ((q = strchr(m, 'b'))) myth_globalattr_set_bind_workers(&a, atoi(q + 1));
  return myth_init_ex(&a);
}
static const char * g_rmod; static volatile int g_rret, g_rrank;
static void * ra(void * x) {          /* like fa: runs on another worker once its child occupies the first one */
  (void)x;
  myth_thread_t b = myth_create(fb, NULL);
  g_rrank = myth_get_worker_num();
  g_rret = redundant_call(g_rmod);
  a_rank = g_rrank;
  myth_join(b, NULL);
  return NULL;
}

/* everything that is observed of a running epoch */
static void observe(void) {
  int i, j, nw = myth_get_num_workers();
  printf(" nw=%d tasks=%d main=%d", nw, count_tasks_expect(nw), myth_get_worker_num());
  fflush(stdout);       /* if the check-in below never completes, this much is still reported */
  {
    myth_thread_t sp; long mind = -1;
    g_n = nw; g_seen_cnt = 0; g_dup = 0; g_badrank = -1; g_timedout = 0; g_deadline = now_s() + 25.0;
    for (i = 0; i < MAXW; i++) { g_rank_tid[i] = 0; g_top[i] = 0; }
    sp = myth_create(spawner, NULL);
    myth_join(sp, NULL);
    for (i = 0; i < nw && i < MAXW; i++) for (j = i + 1; j < nw && j < MAXW; j++) if (g_top[i] && g_top[j]) {
      long d = (long)(g_top[i] > g_top[j] ? g_top[i] - g_top[j] : g_top[j] - g_top[i]);
      if (mind < 0 || d < mind) mind = d;
    }
    printf(" seen=%d dup=%d badrank=%d timedout=%d mindist=%ld", g_seen_cnt, g_dup, g_badrank, g_timedout, mind);
  }
  {
    size_t stk = 0, gnw = 0; int bw = -9, cf = -9, cfobs = -1; myth_thread_attr_t ta;
    myth_globalattr_get_stacksize(NULL, &stk);
    myth_globalattr_get_bind_workers(NULL, &bw);
    myth_globalattr_get_child_first(NULL, &cf);
    myth_globalattr_get_n_workers(NULL, &gnw);
    myth_thread_attr_init(&ta);
    if (nw == 1) {       /* one worker: the order of parent and child is fixed by child_first alone */
      myth_thread_t t = 0;
      cf_flag = 0;
      myth_create_ex(&t, &ta, setflag, NULL);
      cfobs = cf_flag;
      myth_join(t, NULL);
    }
    printf(" stk=%zu bind=%d cf=%d tastk=%zu tacf=%d cfobs=%d gnw=%zu aff=", stk, bw, cf, ta.stacksize, ta.child_first, cfobs, gnw);
    for (i = 0; i < nw && i < MAXW; i++) if (g_rank_tid[i]) printf("%d:%d:%d;", i, g_affn[i], g_aff0[i]);
  }
}

static int do_hist(char * spec) {
  int k = 0; char * c, * save1 = NULL;
  for (c = strtok_r(spec, ",", &save1); c; c = strtok_r(NULL, ",", &save1), k++) {
    char * parts[32]; int np = 0; char * q, * save2 = NULL;
    for (q = strtok_r(c, "+", &save2); q && np < 32; q = strtok_r(NULL, "+", &save2)) parts[np++] = q;
    char how = parts[0][0]; int n = atoi(parts[0] + 1);
    int mig = strchr(parts[0], 'm') != NULL, nofini = strchr(parts[0], 'x') != NULL;
    int ret = -9, i, j, nw, nred = 0;
    myth_globalattr_t a; myth_globalattr_t * ap = (how == 'a') ? &a : NULL;
    char pre[8192]; int pl = 0;
    for (j = 1; j < np; j++) if (parts[j][0] == 'e') env_mod(parts[j]);
    {
      cpu_set_t cs; CPU_ZERO(&cs); sched_getaffinity(0, sizeof cs, &cs); pre[0] = 0;
      for (i = 0; i < CPU_SETSIZE && pl < 8000; i++) if (CPU_ISSET(i, &cs)) pl += sprintf(pre + pl, "%s%d", pl ? "." : "", i);
    }
    if (how == 'a') { myth_globalattr_init(&a); myth_globalattr_set_n_workers(&a, n); }
    else if (how == 'g') myth_globalattr_set_n_workers(NULL, n);
    for (j = 1; j < np; j++) {
      if (parts[j][0] == 'S') myth_globalattr_set_stacksize(ap, (size_t)atol(parts[j] + 1));
      else if (parts[j][0] == 'C') myth_globalattr_set_child_first(ap, atoi(parts[j] + 1));
      else if (parts[j][0] == 'B') myth_globalattr_set_bind_workers(ap, atoi(parts[j] + 1));
      else if (parts[j][0] == 'R') nred++;
    }
    if (how == 'a') ret = myth_init_ex(&a);
    else if (how == 'g' || how == 'i') ret = myth_init();
    printf("cycle %d pre=%s ret=%d", k, pre, ret);
    observe();
    nw = myth_get_num_workers();
    if (mig && nw >= 2) {
      a_rank = -1; main_joining = 0;
      myth_thread_t ta = myth_create(fa, NULL);
      main_joining = 1;
      myth_join(ta, NULL);
    }
    printf(" mig=%d\n", myth_get_worker_num());
    fflush(stdout);
    if (nred) {           /* redundant initialisation calls inside the epoch: must change nothing */
      char rets[256] = "", on[256] = ""; int rl = 0, ol = 0;
      for (j = 1; j < np; j++) if (parts[j][0] == 'R') {
        const char * m = parts[j] + 1; int r, rk;
        if (m[0] == 'w' && myth_get_num_workers() >= 2 && nw >= 2) {
          myth_thread_t t;
          g_rmod = m + 1; a_rank = -1; g_rret = -9; g_rrank = -9;
          t = myth_create(ra, NULL);
          myth_join(t, NULL);
          r = g_rret; rk = g_rrank;
        } else {
          rk = myth_get_worker_num();
          r = redundant_call(m[0] == 'w' ? m + 1 : m);
        }
        rl += snprintf(rets + rl, sizeof rets - rl, "%s%d", rl ? "," : "", r);
        ol += snprintf(on + ol, sizeof on - ol, "%s%d", ol ? "," : "", rk);
      }
      printf("again %d rets=%s on=%s", k, rets, on);
      observe();
      printf("\n");
      fflush(stdout);
    }
    if (!nofini) {
      myth_fini();
      printf("fini %d state=%d tasks=%d\n", k, g_myth_init_state, count_tasks_expect(1));
      fflush(stdout);
    }
  }
  return 0;
}

/* ---- implicit initialisation by the first call, whatever it is ---- */
static void * nop(void * a) { return a; }
static int do_first(const char * what) {
  int before = g_myth_init_state; long r = -99; int nw;
  if (strcmp(what, "create") == 0) { myth_thread_t th = myth_create(nop, (void *)5); void * v = 0; myth_join(th, &v); r = (long)v; }
  else if (strcmp(what, "yield") == 0) { myth_yield(); r = 0; }
  else if (strcmp(what, "self") == 0) { r = myth_self() != 0; }
  else if (strcmp(what, "key_create") == 0) { myth_key_t k; r = myth_key_create(&k, NULL); }
  else if (strcmp(what, "cond_signal") == 0) { static myth_cond_t c = MYTH_COND_INITIALIZER; r = myth_cond_signal(&c); }
  else if (strcmp(what, "cond_broadcast") == 0) { static myth_cond_t c = MYTH_COND_INITIALIZER; r = myth_cond_broadcast(&c); }
  else if (strcmp(what, "barrier1") == 0) { static myth_barrier_t b; myth_barrier_init(&b, NULL, 1); r = myth_barrier_wait(&b); r = (r != 0 && r != MYTH_BARRIER_SERIAL_THREAD); }
  else if (strcmp(what, "jc_dec") == 0) { static myth_join_counter_t j; myth_join_counter_init(&j, NULL, 1); r = myth_join_counter_dec(&j); }
  else if (strcmp(what, "mutex") == 0) { static myth_mutex_t m = MYTH_MUTEX_INITIALIZER; r = myth_mutex_lock(&m); r += myth_mutex_unlock(&m); }
  else if (strcmp(what, "num_workers") == 0) { r = myth_get_num_workers() > 0 ? 0 : 1; }
  else if (strcmp(what, "worker_num") == 0) { r = myth_get_worker_num(); }
  else return 2;
  nw = myth_get_num_workers();
  printf("first %s before=%d r=%ld nw=%d tasks=%d me=%d state=%d\n", what, before, r, nw, count_tasks_expect(nw),
         myth_get_worker_num(), g_myth_init_state);
  fflush(stdout);
  myth_fini();
  printf("fini 0 state=%d tasks=%d\n", g_myth_init_state, count_tasks_expect(1));
  return 0;
}

/* ---- concurrent first use ---- */
#define MAXK 16
static int K;
static volatile int bar_count, bar_gen;
static void barrier(void) {
  int g = bar_gen;
  if (__sync_add_and_fetch(&bar_count, 1) == K) { bar_count = 0; __sync_synchronize(); bar_gen = g + 1; }
  else while (bar_gen == g) ;
}
static volatile int r_ret[MAXK], r_worker[MAXK];
static int C;
static void * racer(void * arg) {
  long me = (long)arg; int c;
  for (c = 0; c < C; c++) {
    barrier();
    r_ret[me] = myth_init();
    r_worker[me] = myth_is_myth_worker();
    barrier();
    {
      int i, winners = 0, first = -1;
      for (i = 0; i < K; i++) if (r_worker[i]) { winners++; if (first < 0) first = i; }
      if (winners != 1) {
        if (me == 0) {
          printf("race %d rets=", c);
          for (i = 0; i < K; i++) printf("%s%d", i ? "," : "", r_ret[i]);
          printf(" winners=%d nw=-1 tasks=%d\n", winners, count_tasks());
          fflush(stdout);
          _exit(3);
        }
        for (;;) pause();
      }
      if (first == me) {
        printf("race %d rets=", c);
        for (i = 0; i < K; i++) printf("%s%d", i ? "," : "", r_ret[i]);
        printf(" winners=%d nw=%d tasks=%d\n", winners, myth_get_num_workers(), count_tasks_expect(K + myth_get_num_workers() - 1));
        fflush(stdout);
        myth_fini();
      }
    }
    barrier();
  }
  return NULL;
}

static int do_race(int k, int c) {
  pthread_t th[MAXK]; long i;
  K = k > MAXK ? MAXK : k; C = c;
  for (i = 1; i < K; i++) pthread_create(&th[i], NULL, racer, (void *)i);
  racer((void *)0);
  for (i = 1; i < K; i++) pthread_join(th[i], NULL);
  printf("race-done state=%d tasks=%d\n", g_myth_init_state, count_tasks_expect(1));
  return 0;
}

int main(int argc, char ** argv) {
  /* no alarm(): the library owns ITIMER_REAL; the caller enforces the time limit */
  if (argc >= 3 && strcmp(argv[1], "hist") == 0) return do_hist(argv[2]);
  if (argc >= 3 && strcmp(argv[1], "first") == 0) return do_first(argv[2]);
  if (argc >= 4 && strcmp(argv[1], "race") == 0) return do_race(atoi(argv[2]), atoi(argv[3]));
  fprintf(stderr, "usage\n");
  return 2;
}
