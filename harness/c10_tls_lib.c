/* C10 whole-library harness: the public API (myth_key_create / myth_key_delete / myth_setspecific /
 * myth_getspecific) on the real runtime with several workers; threads yield so that they migrate.
 * The output is a self-describing log; tools/props/c10.py judges it with a dict-per-thread oracle.
 *
 *   c10_tls_lib run W T K0 CA R SEED     W workers, T threads per phase, K0 keys created by main,
 *                                        CA keys created by each thread, R operations per thread
 *   c10_tls_lib stale                    the witness of the stale-value finding and its guarded variant
 *   c10_tls_lib full                     exhaustion: 1024 creates succeed, the 1025th fails, reuse
 *   c10_tls_lib mixed W T OPS SEED       free-running mix on W workers: T threads, OPS operations each, creating and
 *                                        deleting keys CONCURRENTLY while all of them store / load under whatever
 *                                        indices are live (see "mixed" below); prints "V <text>" per violation of the
 *                                        property (at most 20), then "mixed ops=.. creates=.. ..." and "done"
 *   c10_tls_lib memo W ITER SEED         W workers; three families of short programs through the exported
 *                                        functions, ITER iterations each (log lines S1 / S2 / S3):
 *       S1  a thread stores under K and returns, is joined; the next thread (it gets the recycled descriptor)
 *           READS K (and a second key) before it ever stores:       S1 <it> <key> <w_a> <w_b> <read1> <read2>
 *       S2  a thread stores and reads K, then spins without touching TLS while ANOTHER thread (main, usually
 *           stolen by another worker) deletes K and creates a key again (same index); then it reads the new
 *           key:                                                    S2 <it> <k_old> <k_new> <w_holder> <w_main> <read>
 *       S3  a thread stores v1, creates a child that spins (the parent is usually stolen by another worker),
 *           stores v2, releases the child and joins it (usually resumed on the child's worker), reads:
 *                                                                   S3 <it> <key> <w1> <w2> <w3> <v2> <read>
 *
 * Phases of "run" (creates and deletes never run concurrently with each other, so the ABA window of
 * the key free list cannot occur by accident):
 *   A0  main creates K0 keys
 *   A   T threads create CA keys each, concurrently                 (pops only)
 *   B1, B2  T threads each: R random set/get/yield over live, dead and out-of-range indices
 *           (B2's threads reuse the descriptors of B1's threads: their trees must be empty again)
 *   C   the threads of a third round delete the keys created in A, concurrently, each key twice
 *       (pushes only); D  main deletes its own keys and tries dead / out-of-range deletes.
 * Log lines:
 *   A0 <key|-1>*                  A <tid> <key|-1>*
 *   B<r> <tid> tok*   tok = s:<key>:<val>:<rc>:<worker>  |  g:<key>:<val>:<worker>  |  y
 *   C <tid> (<key>:<rc1>:<rc2>)*  D (<key>:<rc>)*  */
#include <stdio.h>
#include <stdlib.h>
#include <string.h>
#include <errno.h>
#include <stdint.h>
#include <time.h>
#include <stdarg.h>
#include "myth/myth.h"

static uint64_t sm_next(uint64_t * s) {
  uint64_t z = (*s += 0x9E3779B97F4A7C15ULL);
  z = (z ^ (z >> 30)) * 0xBF58476D1CE4E5B9ULL;
  z = (z ^ (z >> 27)) * 0x94D049BB133111EBULL;
  return z ^ (z >> 31);
}

#define MAXT 64
#define MAXR 4096
struct rec { char op; int key; unsigned long val; int rc; int worker; };
struct targ {
  int tid, phase, nops, ncreate; uint64_t seed;
  struct rec * log; int nlog;
  int created[1100]; int ncreated;
  int del_rc1[1100], del_rc2[1100];
};
static struct targ TA[MAXT];
static int g_keys[2200]; static int g_nkeys;      /* indices usable in phase B (live ones first) */
static int g_nlive;

static void * th_create(void * a) {
  struct targ * t = a; int i;
  for (i = 0; i < t->ncreate; i++) {
    myth_key_t k = -7; int rc = myth_key_create(&k, 0);
    t->created[t->ncreated++] = (rc == 0) ? k : -1;
    if (i % 3 == 0) myth_yield();
  }
  return 0;
}

static void * th_ops(void * a) {
  struct targ * t = a; int i; uint64_t s = t->seed; unsigned long ctr = 0;
  int hot[8];   /* most operations of a thread go to a few indices, so that values are read back */
  for (i = 0; i < 8; i++) hot[i] = (int)(sm_next(&s) % g_nkeys);
  for (i = 0; i < t->nops; i++) {
    uint64_t r = sm_next(&s);
    int ki = ((r >> 40) % 10 < 7) ? hot[(r >> 8) % 8] : (int)((r >> 8) % g_nkeys);
    int key = g_keys[ki];
    int what = r % 100;
    struct rec * e = &t->log[t->nlog++];
    e->key = key; e->worker = myth_get_worker_num();
    if (what < 45) {
      /* values are stored only under live keys and under out-of-range indices (which must be rejected) */
      if (ki >= g_nlive && key >= 0 && key < 1024) { e->op = 'g'; e->val = (unsigned long)myth_getspecific(key); continue; }
      e->op = 's';
      e->val = (what < 5) ? 0UL : (((unsigned long)(t->phase * 100 + t->tid + 1) << 32) | (++ctr << 4) | 1UL);
      e->rc = myth_setspecific(key, (void *)e->val);
    } else if (what < 85) {
      e->op = 'g'; e->val = (unsigned long)myth_getspecific(key);
    } else {
      /* give other workers time to steal this thread, and run stolen threads first */
      volatile int spin; e->op = 'y';
      for (spin = 0; spin < 3000; spin++) ;
      if (what < 93) myth_yield(); else myth_yield_ex(myth_yield_option_steal_first);
    }
  }
  return 0;
}

static void * th_delete(void * a) {
  struct targ * t = a; int i; struct targ * src = &TA[t->tid];
  (void)src;
  for (i = 0; i < t->ncreated; i++) {
    if (t->created[i] < 0) { t->del_rc1[i] = t->del_rc2[i] = -1; continue; }
    t->del_rc1[i] = myth_key_delete(t->created[i]);
    if (i % 4 == 0) myth_yield();
    t->del_rc2[i] = myth_key_delete(t->created[i]);
  }
  return 0;
}

static int run(int W, int T, int K0, int CA, int R, uint64_t seed) {
  myth_globalattr_t ga[1]; myth_thread_t th[MAXT]; int i, j, ph;
  static int main_keys[1100];
  myth_globalattr_init(ga); myth_globalattr_set_n_workers(ga, W); myth_init_ex(ga);
  printf("init W=%d workers=%d\n", W, myth_get_num_workers());
  printf("A0");
  for (i = 0; i < K0; i++) { myth_key_t k = -7; int rc = myth_key_create(&k, 0); main_keys[i] = rc == 0 ? k : -1; printf(" %d", main_keys[i]); }
  printf("\n");
  for (i = 0; i < T; i++) { memset(&TA[i], 0, sizeof TA[i]); TA[i].tid = i; TA[i].ncreate = CA; th[i] = myth_create(th_create, &TA[i]); }
  for (i = 0; i < T; i++) myth_join(th[i], 0);
  g_nkeys = 0;
  for (i = 0; i < K0; i++) if (main_keys[i] >= 0) g_keys[g_nkeys++] = main_keys[i];
  for (i = 0; i < T; i++) {
    printf("A %d", i);
    for (j = 0; j < TA[i].ncreated; j++) { printf(" %d", TA[i].created[j]); if (TA[i].created[j] >= 0) g_keys[g_nkeys++] = TA[i].created[j]; }
    printf("\n");
  }
  g_nlive = g_nkeys;
  if (g_nlive == 0) { printf("nokeys\n"); myth_fini(); return 0; }
  /* dead indices (never created so far), only read */
  { char used[1024]; int nd = 0; memset(used, 0, sizeof used);
    for (i = 0; i < g_nlive; i++) used[g_keys[i]] = 1;
    for (i = 1023; i >= 0 && nd < 8; i--) if (!used[i]) { g_keys[g_nkeys++] = i; nd++; } }
  /* out-of-range indices */
  { int oor[] = { -1, 1024, 1025, 4096, -1024, 2147483647, -2147483647 - 1, 65536 }; for (i = 0; i < 8; i++) g_keys[g_nkeys++] = oor[i]; }
  for (ph = 1; ph <= 2; ph++) {
    for (i = 0; i < T; i++) {
      TA[i].phase = ph; TA[i].nops = R; TA[i].seed = seed * 1000003ULL + ph * 7919ULL + i;
      TA[i].log = calloc(R + 1, sizeof(struct rec)); TA[i].nlog = 0;
      th[i] = myth_create(th_ops, &TA[i]);
    }
    for (i = 0; i < T; i++) myth_join(th[i], 0);
    for (i = 0; i < T; i++) {
      printf("B%d %d", ph, i);
      for (j = 0; j < TA[i].nlog; j++) {
        struct rec * e = &TA[i].log[j];
        if (e->op == 's') printf(" s:%d:%lu:%d:%d", e->key, e->val, e->rc, e->worker);
        else if (e->op == 'g') printf(" g:%d:%lu:%d", e->key, e->val, e->worker);
        else printf(" y");
      }
      printf("\n"); free(TA[i].log);
    }
  }
  for (i = 0; i < T; i++) th[i] = myth_create(th_delete, &TA[i]);
  for (i = 0; i < T; i++) myth_join(th[i], 0);
  for (i = 0; i < T; i++) {
    printf("C %d", i);
    for (j = 0; j < TA[i].ncreated; j++) printf(" %d:%d:%d", TA[i].created[j], TA[i].del_rc1[j], TA[i].del_rc2[j]);
    printf("\n");
  }
  printf("D");
  for (i = 0; i < K0; i++) if (main_keys[i] >= 0) printf(" %d:%d", main_keys[i], myth_key_delete(main_keys[i]));
  for (i = 0; i < K0 && i < 3; i++) if (main_keys[i] >= 0) printf(" %d:%d", main_keys[i], myth_key_delete(main_keys[i]));
  printf(" %d:%d %d:%d %d:%d %d:%d", -1, myth_key_delete(-1), 1024, myth_key_delete(1024), 99999, myth_key_delete(99999),
         -2147483647 - 1, myth_key_delete(-2147483647 - 1));
  printf("\n");
  myth_fini();
  printf("done\n");
  return 0;
}

static void * th_set_and_return(void * a) {
  long * p = a; myth_setspecific((myth_key_t)p[0], (void *)p[1]); p[2] = (long)myth_getspecific((myth_key_t)p[0]);
  return 0;
}

static int stale(void) {
  myth_key_t k = -7, k2 = -7, k3 = -7, k4 = -7; int r1, r2, r3, r4; unsigned long got0, got1, got2;
  myth_init();
  r1 = myth_key_create(&k, 0);
  myth_setspecific(k, (void *)777UL);
  got0 = (unsigned long)myth_getspecific(k);
  r2 = myth_key_delete(k);
  r3 = myth_key_create(&k2, 0);
  got1 = (unsigned long)myth_getspecific(k2);
  printf("stale create=%d k=%d before=%lu delete=%d create2=%d k2=%d got=%lu\n", r1, k, got0, r2, r3, k2, got1);
  /* guarded variant: the value is reset before the key is deleted */
  myth_setspecific(k2, 0);
  myth_key_delete(k2);
  r3 = myth_key_create(&k3, 0);
  myth_setspecific(k3, (void *)888UL); myth_setspecific(k3, 0);
  r4 = myth_key_delete(k3);
  myth_key_create(&k4, 0);
  got2 = (unsigned long)myth_getspecific(k4);
  printf("guarded k3=%d delete=%d k4=%d got=%lu\n", k3, r4, k4, got2);
  /* another thread stored under the index and has terminated: its tree is gone; main never stored */
  { long a[3]; myth_thread_t t; myth_key_t k5 = -7;
    a[0] = k4; a[1] = 999; a[2] = 0;
    t = myth_create(th_set_and_return, a); myth_join(t, 0);
    printf("other k4=%d other_read=%ld main_read=%lu\n", k4, a[2], (unsigned long)myth_getspecific(k4));
    myth_key_delete(k4); myth_key_create(&k5, 0);
    printf("other_recreate k5=%d main_read=%lu\n", k5, (unsigned long)myth_getspecific(k5)); }
  myth_fini();
  printf("done\n");
  return 0;
}

static int full(void) {
  static myth_key_t ks[1100]; int i, rc;
  myth_init();
  printf("full");
  for (i = 0; i < 1030; i++) { ks[i] = -7; rc = myth_key_create(&ks[i], 0); printf(" %d", rc == 0 ? ks[i] : -1); }
  printf("\nfull_del");
  for (i = 0; i < 1024; i += 2) printf(" %d:%d", ks[i], myth_key_delete(ks[i]));
  printf("\nfull_again");
  for (i = 0; i < 520; i++) { myth_key_t k = -7; rc = myth_key_create(&k, 0); printf(" %d", rc == 0 ? k : -1); }
  printf("\n");
  myth_fini();
  printf("done\n");
  return 0;
}

/* ---------------- mixed: concurrent create / delete / set / get on the real runtime ----------------
 * owner[k]  : 0 = nobody holds index k, t+1 = thread t got it from myth_key_create and has not deleted it.
 *             The creator claims it with a CAS; a failing CAS means the index was handed out twice.
 * epoch[k]  : odd = no live key at index k, even = the key of incarnation epoch[k] is live.  The owner
 *             makes it odd BEFORE it releases the index and calls myth_key_delete, the next creator makes it
 *             even AFTER myth_key_create returned and the claim succeeded.  A set/get bracketed by two equal,
 *             even readings of epoch[k] therefore ran entirely while that one incarnation was live; only
 *             those are judged: getspecific must return what THIS thread stored under THIS incarnation, else
 *             NULL (in particular NULL under a re-created index another thread or this thread stored under
 *             before).  Everything else (dead index, epoch moved) is executed but not judged. */
#define MX_T 64
static volatile int mx_owner[1024];
static volatile unsigned mx_epoch[1024];
static volatile int mx_nviol;
static char mx_viol[20][200];
struct mxt { int tid, nops; uint64_t seed; long ops, creates, deletes, sets, gets, judged, judged_null_after_recreate, judged_readback,
             create_fail; unsigned * st_epoch; unsigned long * st_val; int mine[64]; int nmine; };
static struct mxt MX[MX_T];
static void mx_violation(const char * fmt, ...) {
  va_list ap; int i = __sync_fetch_and_add(&mx_nviol, 1);
  if (i >= 20) return;
  va_start(ap, fmt); vsnprintf(mx_viol[i], sizeof mx_viol[i], fmt, ap); va_end(ap);
  printf("V %s\n", mx_viol[i]); fflush(stdout);       /* at once: the run may crash right afterwards */
}
static void * mx_thread(void * a) {
  struct mxt * t = a; uint64_t s = t->seed; int i; unsigned long ctr = 0;
  for (i = 0; i < t->nops; i++) {
    uint64_t r = sm_next(&s); int what = r % 100;
    t->ops++;
    if (what < 14 || (what < 22 && t->nmine < 4)) {
      /* create */
      myth_key_t k = -7; int rc;
      if (t->nmine >= 48) continue;
      rc = myth_key_create(&k, 0);
      if (rc != 0) { t->create_fail++; continue; }
      t->creates++;
      if (k < 0 || k >= 1024) { mx_violation("thread %d: myth_key_create returned index %d", t->tid, k); continue; }
      if (!__sync_bool_compare_and_swap(&mx_owner[k], 0, t->tid + 1)) {
        mx_violation("thread %d: myth_key_create handed out index %d while thread %d still holds it (op %d)", t->tid, k, mx_owner[k] - 1, i);
        continue;
      }
      if (mx_epoch[k] % 2 == 0) mx_violation("thread %d: index %d created while an incarnation is marked live", t->tid, k);
      __sync_fetch_and_add(&mx_epoch[k], 1);           /* now even: this incarnation is live */
      t->mine[t->nmine++] = k;
    } else if (what < 30) {
      /* delete one of my keys (sometimes to re-create right away: the LIFO list tends to return the index) */
      int j, k, rc;
      if (!t->nmine) continue;
      j = (r >> 8) % t->nmine; k = t->mine[j]; t->mine[j] = t->mine[--t->nmine];
      __sync_fetch_and_add(&mx_epoch[k], 1);           /* odd: dying */
      __sync_lock_test_and_set(&mx_owner[k], 0);
      rc = myth_key_delete(k);
      t->deletes++;
      if (rc != 0) mx_violation("thread %d: myth_key_delete of its own live key %d returned %d", t->tid, k, rc);
    } else if (what < 62) {
      /* store under a (probably) live index: mine, or any small index other threads are likely to hold */
      int k = (t->nmine && (r >> 8) % 3) ? t->mine[(r >> 12) % t->nmine] : (int)((r >> 12) % 40);
      unsigned e1 = mx_epoch[k], e2; unsigned long v = (what < 34) ? 0UL : (((unsigned long)(t->tid + 1) << 40) | (++ctr << 4) | 1UL);
      int rc;
      __sync_synchronize();
      rc = myth_setspecific(k, (void *)v);
      __sync_synchronize();
      e2 = mx_epoch[k];
      t->sets++;
      if (rc != 0) mx_violation("thread %d: myth_setspecific under index %d returned %d", t->tid, k, rc);
      if (e1 == e2 && e1 % 2 == 0) { t->st_epoch[k] = e1; t->st_val[k] = v; }
      else { t->st_epoch[k] = 1; }                     /* not judged until the next store */
    } else if (what < 94) {
      int k = (t->nmine && (r >> 8) % 3) ? t->mine[(r >> 12) % t->nmine] : (int)((r >> 12) % 40);
      unsigned e1 = mx_epoch[k], e2; unsigned long v;
      __sync_synchronize();
      v = (unsigned long)myth_getspecific(k);
      __sync_synchronize();
      e2 = mx_epoch[k];
      t->gets++;
      if (e1 == e2 && e1 % 2 == 0 && t->st_epoch[k] != 1) {
        t->judged++;
        if (t->st_epoch[k] == e1) {
          t->judged_readback++;
          if (v != t->st_val[k]) mx_violation("thread %d on worker %d: getspecific(%d) = %lu, its last store under this key was %lu (incarnation %u, op %d)",
                                              t->tid, myth_get_worker_num(), k, v, t->st_val[k], e1, i);
        } else {
          if (t->st_epoch[k]) t->judged_null_after_recreate++;
          if (v != 0) mx_violation("thread %d on worker %d: getspecific(%d) = %lu, but it never stored under this incarnation (%u; its last store there was under %u: %lu) (op %d)",
                                   t->tid, myth_get_worker_num(), k, v, e1, t->st_epoch[k], t->st_val[k], i);
        }
      }
    } else if (what < 97) {
      if (myth_getspecific(1024 + (int)((r >> 8) % 5000)) != 0 || myth_getspecific(-1 - (int)((r >> 8) % 5000)) != 0)
        mx_violation("thread %d: getspecific under an out-of-range index returned non-NULL", t->tid);
      if (myth_setspecific(1024 + (int)((r >> 8) % 5000), (void *)1UL) != EINVAL)
        mx_violation("thread %d: setspecific under an out-of-range index was not rejected", t->tid);
    } else myth_yield();
  }
  /* give my keys back */
  while (t->nmine) { int k = t->mine[--t->nmine]; __sync_fetch_and_add(&mx_epoch[k], 1); __sync_lock_test_and_set(&mx_owner[k], 0); myth_key_delete(k); }
  return 0;
}
static int mixed(int W, int T, int nops, uint64_t seed) {
  myth_globalattr_t ga[1]; myth_thread_t th[MX_T]; int i; struct mxt tot; struct timespec a, b;
  if (T > MX_T) T = MX_T;
  myth_globalattr_init(ga); myth_globalattr_set_n_workers(ga, W); myth_init_ex(ga);
  for (i = 0; i < 1024; i++) { mx_owner[i] = 0; mx_epoch[i] = 1; }
  clock_gettime(CLOCK_MONOTONIC, &a);
  for (i = 0; i < T; i++) {
    memset(&MX[i], 0, sizeof MX[i]); MX[i].tid = i; MX[i].nops = nops; MX[i].seed = seed * 7919ULL + i * 104729ULL;
    MX[i].st_epoch = calloc(1024, sizeof(unsigned)); MX[i].st_val = calloc(1024, sizeof(unsigned long));
    th[i] = myth_create(mx_thread, &MX[i]);
  }
  for (i = 0; i < T; i++) myth_join(th[i], 0);
  clock_gettime(CLOCK_MONOTONIC, &b);
  memset(&tot, 0, sizeof tot);
  for (i = 0; i < T; i++) { tot.ops += MX[i].ops; tot.creates += MX[i].creates; tot.deletes += MX[i].deletes; tot.sets += MX[i].sets;
    tot.gets += MX[i].gets; tot.judged += MX[i].judged; tot.judged_readback += MX[i].judged_readback;
    tot.judged_null_after_recreate += MX[i].judged_null_after_recreate; tot.create_fail += MX[i].create_fail; }
  for (i = 0; i < 1024; i++) if (mx_owner[i]) mx_violation("index %d still owned by thread %d after all threads gave their keys back", i, mx_owner[i] - 1);
  printf("mixed W=%d T=%d ops=%ld creates=%ld deletes=%ld sets=%ld gets=%ld judged_gets=%ld readback=%ld null_after_recreate=%ld create_failed=%ld violations=%d ms=%ld\n",
         W, T, tot.ops, tot.creates, tot.deletes, tot.sets, tot.gets, tot.judged, tot.judged_readback, tot.judged_null_after_recreate,
         tot.create_fail, mx_nviol, (long)((b.tv_sec - a.tv_sec) * 1000 + (b.tv_nsec - a.tv_nsec) / 1000000));
  myth_fini();
  printf("done\n");
  return 0;
}

/* ---------------- memo: reads by threads that never stored, cross-worker delete, store/migrate/store ---- */
static myth_key_t m_key, m_key2;
static volatile int m_flag, m_flag2;
static volatile long m_w[4]; static volatile unsigned long m_r[2];
static void spin_us(long us) { struct timespec a, b; clock_gettime(CLOCK_MONOTONIC, &a);
  do { clock_gettime(CLOCK_MONOTONIC, &b); } while ((b.tv_sec - a.tv_sec) * 1000000L + (b.tv_nsec - a.tv_nsec) / 1000 < us); }
static int wait_flag(volatile int * f, long max_us) { struct timespec a, b; clock_gettime(CLOCK_MONOTONIC, &a);
  while (!*f) { clock_gettime(CLOCK_MONOTONIC, &b);
    if ((b.tv_sec - a.tv_sec) * 1000000L + (b.tv_nsec - a.tv_nsec) / 1000 > max_us) return 0; }
  return 1; }

static void * s1_store(void * a) { m_w[0] = myth_get_worker_num(); myth_setspecific(m_key2, (void *)(unsigned long)a + 1);
  myth_setspecific(m_key, a); (void)myth_getspecific(m_key); return 0; }
static void * s1_read(void * a) { (void)a; m_w[1] = myth_get_worker_num();
  m_r[0] = (unsigned long)myth_getspecific(m_key); m_r[1] = (unsigned long)myth_getspecific(m_key2); return 0; }

static void * s2_holder(void * a) {
  m_w[0] = myth_get_worker_num();
  myth_setspecific(m_key, a); (void)myth_getspecific(m_key);
  m_flag = 1;                                   /* main may now delete + re-create */
  if (!wait_flag(&m_flag2, 200000)) { while (!m_flag2) myth_yield(); }   /* no TLS access meanwhile */
  m_r[0] = (unsigned long)myth_getspecific(m_key);          /* m_key is the NEW key by now */
  return 0;
}

static void * s3_child(void * a) { (void)a; m_w[3] = myth_get_worker_num();
  if (!wait_flag(&m_flag, 200000)) { while (!m_flag) myth_yield(); }
  spin_us(300);                                 /* let the parent block in its join */
  return 0; }
static void * s3_parent(void * a) {
  unsigned long v1 = (unsigned long)a, v2 = v1 + 1; myth_thread_t c;
  m_w[0] = myth_get_worker_num();
  myth_setspecific(m_key, (void *)v1); (void)myth_getspecific(m_key);
  m_flag = 0;
  c = myth_create(s3_child, 0);                 /* child first: this thread is pushed and usually stolen */
  m_w[1] = myth_get_worker_num();
  myth_setspecific(m_key, (void *)v2);
  m_flag = 1;
  myth_join(c, 0);                              /* usually resumed by the exiting child, on its worker */
  m_w[2] = myth_get_worker_num();
  m_r[0] = (unsigned long)myth_getspecific(m_key);
  m_r[1] = v2;
  return 0;
}

static int memo(int W, int iters, uint64_t seed) {
  myth_globalattr_t ga[1]; int it; uint64_t s = seed;
  myth_globalattr_init(ga); myth_globalattr_set_n_workers(ga, W); myth_init_ex(ga);
  printf("init W=%d workers=%d\n", W, myth_get_num_workers());
  { int pad = (int)(sm_next(&s) % 40), i; myth_key_t k; for (i = 0; i < pad; i++) myth_key_create(&k, 0); }
  for (it = 0; it < iters; it++) {
    unsigned long v = ((sm_next(&s) >> 8) | 1UL) & 0xFFFFFFFFFFFFUL; myth_thread_t t;
    myth_key_create(&m_key, 0); myth_key_create(&m_key2, 0);
    t = myth_create(s1_store, (void *)v); myth_join(t, 0);
    t = myth_create(s1_read, 0); myth_join(t, 0);
    printf("S1 %d %d %ld %ld %lu %lu\n", it, m_key, m_w[0], m_w[1], m_r[0], m_r[1]);
    myth_key_delete(m_key); myth_key_delete(m_key2);
  }
  for (it = 0; it < iters && W >= 2; it++) {
    unsigned long v = ((sm_next(&s) >> 8) | 1UL) & 0xFFFFFFFFFFFFUL; myth_thread_t t; myth_key_t old;
    myth_key_create(&m_key, 0); old = m_key; m_flag = m_flag2 = 0;
    t = myth_create(s2_holder, (void *)v);
    while (!m_flag) myth_yield();
    m_w[1] = myth_get_worker_num();
    myth_key_delete(m_key); myth_key_create(&m_key, 0);
    m_flag2 = 1;
    myth_join(t, 0);
    printf("S2 %d %d %d %ld %ld %lu\n", it, old, m_key, m_w[0], m_w[1], m_r[0]);
    myth_key_delete(m_key);
  }
  for (it = 0; it < iters && W >= 2; it++) {
    unsigned long v = ((sm_next(&s) >> 8) | 1UL) & 0xFFFFFFFFFFFFUL; myth_thread_t t;
    myth_key_create(&m_key, 0);
    t = myth_create(s3_parent, (void *)v); myth_join(t, 0);
    printf("S3 %d %d %ld %ld %ld %lu %lu\n", it, m_key, m_w[0], m_w[1], m_w[2], m_r[1], m_r[0]);
    myth_key_delete(m_key);
  }
  myth_fini();
  printf("done\n");
  return 0;
}

int main(int argc, char ** argv) {
  if (argc >= 6 && !strcmp(argv[1], "mixed")) return mixed(atoi(argv[2]), atoi(argv[3]), atoi(argv[4]), strtoull(argv[5], 0, 10));
  if (argc >= 5 && !strcmp(argv[1], "memo")) return memo(atoi(argv[2]), atoi(argv[3]), strtoull(argv[4], 0, 10));
  if (argc >= 2 && !strcmp(argv[1], "stale")) return stale();
  if (argc >= 2 && !strcmp(argv[1], "full")) return full();
  if (argc >= 8 && !strcmp(argv[1], "run")) {
    int W = atoi(argv[2]), T = atoi(argv[3]), K0 = atoi(argv[4]), CA = atoi(argv[5]), R = atoi(argv[6]);
    uint64_t seed = strtoull(argv[7], 0, 10);
    if (T > MAXT) T = MAXT; if (R > MAXR) R = MAXR; if (K0 > 1100) K0 = 1100; if (CA > 1100) CA = 1100;
    return run(W, T, K0, CA, R, seed);
  }
  fprintf(stderr, "usage\n"); return 2;
}
