/*
 * victim_unit.c <nworkers> <draws-per-rank>
 * Unit correspondence for the steal-victim selection myth_env_get_first_busy (src/myth_worker_func.h):
 * the library is initialised with <nworkers> workers; for every rank the real function is called
 * <draws> times; before each call the value myth_random(0, n-1) will return is obtained by replaying
 * the same seed, so each output line carries the random value the choice was made from:
 *    v <n> <rank> <r> <victim | -1>
 */
#define _GNU_SOURCE
#include <stdio.h>
#include <stdlib.h>
#include "myth/myth.h"
#include "myth_config.h"
#include "myth_worker.h"
#include "myth_worker_func.h"

int main(int argc, char ** argv) {
  int n = argc > 1 ? atoi(argv[1]) : 2, draws = argc > 2 ? atoi(argv[2]) : 100;
  myth_globalattr_t ga; myth_globalattr_init(&ga);
  myth_globalattr_set_n_workers(&ga, n);
  myth_init_ex(&ga);
  g_myth_random_temp = 12345u + (unsigned)n;
  for (int rank = 0; rank < n; rank++) {
    for (int i = 0; i < draws; i++) {
      unsigned seed = g_myth_random_temp;
      int r = (n > 1 ? myth_random(0, n - 1) : 0);
      g_myth_random_temp = seed;
      myth_running_env_t v = myth_env_get_first_busy(&g_envs[rank]);
      if (n <= 1) { unsigned s2 = g_myth_random_temp; (void)s2; }
      printf("v %d %d %d %d\n", n, rank, r, v ? (int)(v - g_envs) : -1);
    }
  }
  fflush(stdout);
  _exit(0);
}
