/* C10 / C11 unit harness: the thread-specific-data code of the CURRENT tree (src/myth_tls_func.h,
 * compiled into this file through the library's own headers) driven on harness-owned trees and a
 * harness-owned key allocator.  Reads cases on stdin, prints one result line per case.  The same
 * case language is implemented over the extracted Coq model by ocaml/driver_C10.ml / driver_C11.ml.
 *
 *   consts                               -> "consts depth logc logl nkeys sznode szleaf pool"
 *   tree N  op*N                         -> per op a token, then "pp=<off> nh=<mallocs>"
 *        s k v   myth_tls_tree_set       -> r<rc>
 *        g k     myth_tls_tree_get       -> v<value>
 *        d       dump of the real nodes  -> I<org>(....) / L<org>{i=v,...} / -   org = P<pool offset> | H<malloc serial>
 *   fini DT NS (k v)*NS                  -> "calls k:v ... | frees H<id> ... | mallocs n"
 *        DT = all | none | list n k*n    which keys have a destructor (cell k gets function d_k)
 *        the sets are applied to a fresh tree, then myth_tls_tree_fini runs; a destructor found in a
 *        cell past the table logs "oob:v"; a pool node / an unknown pointer / a second free of a node
 *        handed to myth_free logs P<off> / X / DF<id>
 *   keys N op*N                          -> per op a token, then "free=<chain> live=<marked cells>"
 *        c d     myth_tls_key_allocator_alloc with destructor tag d   -> index or -1
 *        x k     myth_tls_key_allocator_dealloc                        -> tag or -1
 *   sys T N op*N                         -> per op a token     (T trees, one allocator)
 *        c d | x k (0 / 22 as myth_key_delete_body) | s t k v | g t k | n t (myth_tls_tree_init)
 *   conc T  {n op*n}*T  S m t*m          -> lock-step run of the concurrent allocator, see below
 *
 *   variant g l                          -> echoes the compile-time variant "variant <C10_GEN> <C10_LOCK>"
 *   tree also:  b k   one more incarnation of key k (what delete + create do to the key table): with
 *               generation tags keys[k].gen++, otherwise nothing                         -> b
 *   finib DT N op*N    like fini, with op = s k v | b k
 *
 * The source exists in variants (tools/props/c10.py decides by looking at the source and compiles with
 * -DC10_GEN=1 when myth_tls_tree_get/_set take the key allocator and entries carry a generation,
 * -DC10_LOCK=1 when the key free list is protected by a spin lock).  With generation tags the dumps show
 * "i=value@gen" for every slot with a value or a generation, and the key dump ends with " gen=k:g,...".
 *
 * myth_malloc/myth_free of the library end in real_malloc/real_free; the link wraps those two
 * (-Wl,--wrap) so that every node allocation and release of a case is seen here.  */
#include <stdio.h>
#include <stdlib.h>
#include <string.h>
#include <errno.h>
#include <stdint.h>
#include <stdarg.h>
#include <pthread.h>
#include "myth/myth.h"
#include "myth_config.h"
#include "myth_sched_func.h"   /* pulls in myth_tls.h / myth_tls_func.h of the current tree */

#ifndef C10_GEN
#define C10_GEN 0
#endif
#ifndef C10_LOCK
#define C10_LOCK 0
#endif
#if C10_GEN
#define TREE_SET(t, k, v) myth_tls_tree_set((t), &G.ka, (k), (v))
#define TREE_GET(t, k) myth_tls_tree_get((t), &G.ka, (k))
#define BUMP(k) do { if ((k) >= 0 && (k) < myth_tls_n_keys) G.ka.keys[k].gen++; } while (0)
#else
#define TREE_SET(t, k, v) myth_tls_tree_set((t), (k), (v))
#define TREE_GET(t, k) myth_tls_tree_get((t), (k))
#define BUMP(k) do { } while (0)
#endif

/* ---------------- allocation tracking ---------------- */
void * __real_real_malloc(size_t sz);
void __real_real_free(void * p);
#define MAXB 16384
static int g_track;
static void * blk[MAXB];
static int blk_freed[MAXB];
static int nblk;
static myth_tls_tree_t * g_cur_tree;
static char * g_log; static size_t g_log_len, g_log_cap;
static void logf_(const char * fmt, ...) {
  va_list ap; char tmp[128]; int n;
  va_start(ap, fmt); n = vsnprintf(tmp, sizeof tmp, fmt, ap); va_end(ap);
  if (g_log_len + n + 1 > g_log_cap) { g_log_cap = (g_log_cap + n + 1) * 2; g_log = realloc(g_log, g_log_cap); }
  memcpy(g_log + g_log_len, tmp, n + 1); g_log_len += n;
}
static void log_reset(void) { g_log_len = 0; if (g_log) g_log[0] = 0; }

void * __wrap_real_malloc(size_t sz) {
  void * p = __real_real_malloc(sz);
  if (g_track && nblk < MAXB) { blk[nblk] = p; blk_freed[nblk] = 0; nblk++; }
  return p;
}
static int blk_id(void * p) { int i; for (i = 0; i < nblk; i++) if (blk[i] == p) return i; return -1; }
void __wrap_real_free(void * p) {
  if (!g_track) { __real_real_free(p); return; }
  int id = blk_id(p);
  if (id >= 0) {
    if (blk_freed[id]) logf_(" DF%d", id); else { blk_freed[id] = 1; logf_(" H%d", id); }
  } else if (g_cur_tree && (char *)p >= g_cur_tree->pre_alloc_buf
             && (char *)p < g_cur_tree->pre_alloc_buf + myth_tls_tree_pre_alloc_sz) {
    logf_(" P%ld", (long)((char *)p - g_cur_tree->pre_alloc_buf));
  } else logf_(" X");
  /* the memory is released at the end of the case, so that addresses stay unique */
}
static void track_begin(void) { nblk = 0; g_track = 1; }
static void track_end(void) { int i; g_track = 0; for (i = 0; i < nblk; i++) __real_real_free(blk[i]); nblk = 0; }

/* ---------------- destructors ---------------- */
static char * g_calls; static size_t g_calls_len, g_calls_cap;
static void log_call(int tag, void * v) {
  char tmp[64]; int n;
  if (tag >= 0) n = snprintf(tmp, sizeof tmp, " %d:%lu", tag, (unsigned long)v);
  else n = snprintf(tmp, sizeof tmp, " oob:%lu", (unsigned long)v);
  if (g_calls_len + n + 1 > g_calls_cap) { g_calls_cap = (g_calls_cap + n + 1) * 2; g_calls = realloc(g_calls, g_calls_cap); }
  memcpy(g_calls + g_calls_len, tmp, n + 1); g_calls_len += n;
}
#include "c10_dtors.h"

/* the allocator under test, followed by guard cells that catch reads past the table */
#define NGUARD 8192
static struct {
  myth_tls_key_allocator_t ka;
  myth_tls_key_entry_t post[NGUARD];
} G;
static void ka_fresh(void) {
  int i;
  memset(&G, 0, sizeof G);
  myth_tls_key_allocator_init(&G.ka);
  /* what lies behind the table is unspecified; the guard cells hold the worst case: they look like
     live keys with a destructor, so that any access past the table becomes visible */
  for (i = 0; i < NGUARD; i++) { G.post[i].next = (myth_tls_key_entry_t *)-1; G.post[i].destructor = dtor_oob; }
}

/* ---------------- dumps ---------------- */
static void pr_origin(myth_tls_tree_t * t, void * p) {
  if ((char *)p >= t->pre_alloc_buf && (char *)p < t->pre_alloc_buf + myth_tls_tree_pre_alloc_sz)
    printf("P%ld", (long)((char *)p - t->pre_alloc_buf));
  else { int id = blk_id(p); if (id >= 0) printf("H%d", id); else printf("H?"); }
}
static void dump_node(myth_tls_tree_t * t, myth_tls_tree_node_t * n, int depth) {
  int i;
  if (!n) { printf("-"); return; }
  if (depth == myth_tls_tree_depth) {
    printf("L"); pr_origin(t, n); printf("{");
    for (i = 0; i < myth_tls_tree_node_n_entries_in_leaf; i++) {
#if C10_GEN
      if (n->entries[i].value || n->entries[i].gen)
        printf("%d=%lu@%u,", i, (unsigned long)n->entries[i].value, n->entries[i].gen);
#else
      if (n->entries[i].value) printf("%d=%lu,", i, (unsigned long)n->entries[i].value);
#endif
    }
    printf("}");
  } else {
    printf("I"); pr_origin(t, n); printf("(");
    for (i = 0; i < myth_tls_tree_node_n_children; i++) dump_node(t, n->children[i], depth + 1);
    printf(")");
  }
}
static void pr_cell(myth_tls_key_entry_t * p) {
  if (p == 0) printf("N");
  else if (p == (myth_tls_key_entry_t *)-1) printf("L");
  else if (p >= G.ka.keys && p < G.ka.keys + myth_tls_n_keys) printf("%ld", (long)(p - G.ka.keys));
  else printf("?");
}
static int valid_cell(myth_tls_key_entry_t * p) { return p >= G.ka.keys && p < G.ka.keys + myth_tls_n_keys; }
/* ascending runs a, a+1, .., b are printed as "a..b," */
static long run_lo = -1, run_hi = -1;
static void run_flush(void) {
  if (run_lo < 0) return;
  if (run_lo == run_hi) printf("%ld,", run_lo); else printf("%ld..%ld,", run_lo, run_hi);
  run_lo = run_hi = -1;
}
static void run_add(long k) {
  if (run_lo >= 0 && k == run_hi + 1) { run_hi = k; return; }
  run_flush(); run_lo = run_hi = k;
}
static void dump_keys(void) {
  int i, n = 0; myth_tls_key_entry_t * p = G.ka.free;
  printf("free=");
  while (valid_cell(p) && n < 1100) { run_add((long)(p - G.ka.keys)); p = p->next; n++; }
  run_flush();
  if (p != 0) { printf("!"); pr_cell(p); }
  printf(" live=");
  for (i = 0; i < myth_tls_n_keys; i++) if (G.ka.keys[i].next == (myth_tls_key_entry_t *)-1) run_add(i);
  run_flush();
#if C10_GEN
  printf(" gen=");
  for (i = 0; i < myth_tls_n_keys; i++) if (G.ka.keys[i].gen) printf("%d:%u,", i, G.ka.keys[i].gen);
#endif
  /* the destructor column (tags in the keys / sys / conc cases): a deleted key has none */
  printf(" dt=");
  for (i = 0; i < myth_tls_n_keys; i++) if (G.ka.keys[i].destructor) printf("%d:%ld,", i, (long)(intptr_t)G.ka.keys[i].destructor);
}

/* ---------------- concurrent allocator, lock step ----------------
 * T pthreads, each with a program of create/delete calls on G.ka.  The callback installed in
 * g_myth_verif_cb parks a thread at every MYTH_VERIF_POINT of the allocator; the main thread hands the
 * token to one thread per schedule entry and gets it back when that thread reaches its next POINT or
 * its call returns.  Per entry "<t>:<where>/f<head>" is printed, <where> = ah an:<ke> ac:<ke> dk:<k>
 * dh:<k> dc:<k> (the POINT the thread now waits at and the POINT's val) | R<result> (the call returned)
 * | - (nothing left to do).  If the head is neither NULL nor a cell at the start of an entry the case
 * stops with "CORRUPT" (continuing would dereference the live mark).  After the schedule every thread
 * is run to the end of its program in thread order; then results, free chain and live marks. */
#define MAXT 8
#define MAXOPS 64
struct cthread {
  int nops, next; int kind[MAXOPS]; long arg[MAXOPS];
  long res[MAXOPS]; int nres;
  const char * at; long at_val; int returned; long last; int nothing; int quit;
  pthread_t tid;
} TH[MAXT];
static pthread_mutex_t mu = PTHREAD_MUTEX_INITIALIZER;
static pthread_cond_t cv = PTHREAD_COND_INITIALIZER;
static int turn = -1;
static volatile int abort_case;
static __thread int my_id = -1;

static void wait_turn(int id) {
  pthread_mutex_lock(&mu); while (turn != id) pthread_cond_wait(&cv, &mu); pthread_mutex_unlock(&mu);
}
static void give_back(void) {
  pthread_mutex_lock(&mu); turn = -1; pthread_cond_broadcast(&cv); pthread_mutex_unlock(&mu);
}
static void hook(int kind, const char * id, const void * obj, long val) {
  /* hooks on the allocator under test: its own POINTs (obj = the allocator) and, when the free list is
     protected by a lock, the POINTs / SPINs of that lock (obj = the lock, a member of the allocator) */
  if (my_id < 0 || kind == MYTH_VERIF_KIND_EVENT) return;
  if ((const char *)obj < (const char *)&G.ka || (const char *)obj >= (const char *)(&G.ka + 1)) return;
  TH[my_id].at = id; TH[my_id].at_val = val;
  give_back(); wait_turn(my_id);
  if (abort_case) pthread_exit(0);
}
static void * cthread_main(void * a) {
  int me = (int)(long)a; struct cthread * t = &TH[me];
  my_id = me;
  for (;;) {
    wait_turn(me);
    if (t->quit || abort_case) break;
    if (t->next < t->nops) {
      int i = t->next++; long r;
      t->at = 0;
      if (t->kind[i] == 'c')
        r = myth_tls_key_allocator_alloc(&G.ka, (myth_tls_destructor_fun_t)(uintptr_t)t->arg[i]);
      else
        r = (long)(intptr_t)myth_tls_key_allocator_dealloc(&G.ka, (int)t->arg[i]);
      t->res[t->nres++] = r; t->last = r; t->returned = 1; t->at = 0;
    } else t->nothing = 1;
    give_back();
  }
  return 0;
}
static const char * short_label(const char * id) {
  if (!strcmp(id, "key.alloc.readhead")) return "ah";
  if (!strcmp(id, "key.alloc.readnext")) return "an";
  if (!strcmp(id, "key.alloc.cas")) return "ac";
  if (!strcmp(id, "key.dealloc.check")) return "dk";
  if (!strcmp(id, "key.dealloc.readhead")) return "dh";
  if (!strcmp(id, "key.dealloc.cas")) return "dc";
  if (!strcmp(id, "spin.trylock")) return "st";
  if (!strcmp(id, "spin.wait")) return "sw";
  if (!strcmp(id, "spin.unlock")) return "su";
  return id;
}
/* returns 0 if the case must stop */
static int cstep(int t) {
  struct cthread * c = &TH[t];
  if (G.ka.free != 0 && !valid_cell(G.ka.free)) { printf(" CORRUPT"); return 0; }
  pthread_mutex_lock(&mu);
  c->returned = 0; c->nothing = 0; turn = t; pthread_cond_broadcast(&cv);
  while (turn != -1) pthread_cond_wait(&cv, &mu);
  pthread_mutex_unlock(&mu);
  printf(" %d:", t);
  if (c->nothing) printf("-");
  else if (c->returned) printf("R%ld", c->last);
  else if (!strcmp(short_label(c->at), "ah") || short_label(c->at)[0] == 's') printf("%s", short_label(c->at));
  else printf("%s:%ld", short_label(c->at), c->at_val);
  printf("/f"); pr_cell(G.ka.free);
  return 1;
}
static int cbusy(int t) { return TH[t].next < TH[t].nops || TH[t].at != 0; }

static int run_conc(void) {
  int T, t, i, m, ok = 1;
  if (scanf("%d", &T) != 1 || T < 1 || T > MAXT) return -1;
  ka_fresh();
  for (t = 0; t < T; t++) {
    int n; memset(&TH[t], 0, sizeof TH[t]);
    if (scanf("%d", &n) != 1 || n < 0 || n > MAXOPS) return -1;
    TH[t].nops = n;
    for (i = 0; i < n; i++) { char op[8]; long a; if (scanf("%7s %ld", op, &a) != 2) return -1; TH[t].kind[i] = op[0]; TH[t].arg[i] = a; }
  }
  { char s[8]; if (scanf("%7s %d", s, &m) != 2 || s[0] != 'S') return -1; }
  abort_case = 0; turn = -1;
  g_myth_verif_cb = hook;
  for (t = 0; t < T; t++) pthread_create(&TH[t].tid, 0, cthread_main, (void *)(long)t);
  printf("conc");
  for (i = 0; i < m; i++) {
    int who; if (scanf("%d", &who) != 1) return -1;
    if (!ok) continue;
    if (who < 0 || who >= T) { printf(" ?"); continue; }
    ok = cstep(who);
  }
  if (ok) {
    /* run every program to its end, round robin in thread order */
    int fuel = 20000, any = 1;
    printf(" ;");
    while (ok && any && fuel > 0) {
      any = 0;
      for (t = 0; t < T; t++) if (ok && cbusy(t) && fuel > 0) { any = 1; fuel--; ok = cstep(t); }
    }
  }
  /* stop the threads: parked ones leave through pthread_exit in the hook */
  pthread_mutex_lock(&mu); abort_case = 1; for (t = 0; t < T; t++) TH[t].quit = 1; pthread_mutex_unlock(&mu);
  for (t = 0; t < T; t++) {
    pthread_mutex_lock(&mu); turn = t; pthread_cond_broadcast(&cv); pthread_mutex_unlock(&mu);
    pthread_join(TH[t].tid, 0);
  }
  turn = -1; g_myth_verif_cb = 0;
  printf(" | res");
  for (t = 0; t < T; t++) { printf(" T%d", t); for (i = 0; i < TH[t].nres; i++) printf(" %ld", TH[t].res[i]); }
  printf(" | "); dump_keys();
  printf("\n");
  return 0;
}

/* "r N d": N cycles of key create (destructor tag d) / key delete through the real allocator functions.
   The free list is LIFO, so every cycle must hand out the same index: " r<k>x<N>"; " r-1" when no key is
   free; " r!" when a cycle returns another index or the delete does not give back tag d. */
static void cycles(long n, long d) {
  long i; int k0 = -2, bad = 0;
  if (G.ka.free == 0) { printf(" r-1"); return; }
  k0 = (int)(G.ka.free - G.ka.keys);
  for (i = 0; i < n; i++) {
    int k = myth_tls_key_allocator_alloc(&G.ka, (myth_tls_destructor_fun_t)(uintptr_t)d);
    if (k != k0) bad = 1;
    if (k >= 0 && (long)(intptr_t)myth_tls_key_allocator_dealloc(&G.ka, k) != d) bad = 1;
  }
  if (bad) printf(" r!"); else printf(" r%dx%ld", k0, n);
}

/* ---------------- main ---------------- */
#define MAXTREES 16
int main(void) {
  char op[32];
  while (scanf("%31s", op) == 1) {
    if (!strcmp(op, "variant")) {
      int a, b; if (scanf("%d %d", &a, &b) != 2) return 2;
      printf("variant %d %d\n", C10_GEN, C10_LOCK);
    } else if (!strcmp(op, "widths")) {
#if C10_GEN
      printf("widths %d %d\n", (int)sizeof(((myth_tls_key_entry_t *)0)->gen), (int)sizeof(((myth_tls_entry_t *)0)->gen));
#else
      printf("widths 0 0\n");
#endif
    } else if (!strcmp(op, "consts")) {
      printf("consts %d %d %d %d %d %d %d\n", myth_tls_tree_depth, myth_tls_tree_node_log_n_children,
             myth_tls_tree_node_log_n_entries_in_leaf, myth_tls_n_keys, (int)myth_tls_tree_node_sz_node,
             (int)myth_tls_tree_node_sz_leaf, (int)myth_tls_tree_pre_alloc_sz);
    } else if (!strcmp(op, "tree")) {
      int n, i; static myth_tls_tree_t t[1];
      if (scanf("%d", &n) != 1) return 2;
      ka_fresh(); track_begin(); g_cur_tree = t; myth_tls_tree_init(t);
      printf("tree");
      for (i = 0; i < n; i++) {
        char o[8]; int k; unsigned long v;
        if (scanf("%7s", o) != 1) return 2;
        if (o[0] == 's') { if (scanf("%d %lu", &k, &v) != 2) return 2; printf(" r%d", TREE_SET(t, k, (void *)v)); }
        else if (o[0] == 'g') { if (scanf("%d", &k) != 1) return 2; printf(" v%lu", (unsigned long)TREE_GET(t, k)); }
        else if (o[0] == 'b') { if (scanf("%d", &k) != 1) return 2; BUMP(k); printf(" b"); }
        else if (o[0] == 'r') { long cnt; if (scanf("%d %ld", &k, &cnt) != 2) return 2; while (cnt-- > 0) BUMP(k); printf(" b"); }
        else if (o[0] == 'd') { printf(" "); dump_node(t, t->root, 0); }
        else return 2;
      }
      printf(" pp=%ld nh=%d\n", (long)(t->pre_alloc_p - t->pre_alloc_buf), nblk);
      track_end();
    } else if (!strcmp(op, "fini") || !strcmp(op, "finib")) {
      char dt[16]; int ns, i, k; unsigned long v; static myth_tls_tree_t t[1]; int nmalloc;
      int with_ops = !strcmp(op, "finib");
      if (scanf("%15s", dt) != 1) return 2;
      ka_fresh();
      if (!strcmp(dt, "all")) { for (i = 0; i < myth_tls_n_keys; i++) G.ka.keys[i].destructor = DTOR[i]; }
      else if (!strcmp(dt, "list")) {
        int nd; if (scanf("%d", &nd) != 1) return 2;
        for (i = 0; i < nd; i++) { if (scanf("%d", &k) != 1) return 2; if (k >= 0 && k < myth_tls_n_keys) G.ka.keys[k].destructor = DTOR[k]; }
      } else if (strcmp(dt, "none")) return 2;
      if (scanf("%d", &ns) != 1) return 2;
      track_begin(); g_cur_tree = t; myth_tls_tree_init(t);
      for (i = 0; i < ns; i++) {
        char o[8] = "s";
        if (with_ops && scanf("%7s", o) != 1) return 2;
        if (o[0] == 's') { if (scanf("%d %lu", &k, &v) != 2) return 2; TREE_SET(t, k, (void *)v); }
        else if (o[0] == 'b') { if (scanf("%d", &k) != 1) return 2; BUMP(k); }
        else if (o[0] == 'r') { long cnt; if (scanf("%d %ld", &k, &cnt) != 2) return 2; while (cnt-- > 0) BUMP(k); }
        else return 2;
      }
      nmalloc = nblk; g_calls_len = 0; if (g_calls) g_calls[0] = 0; log_reset();
      myth_tls_tree_fini(t, &G.ka);
      printf("calls%s | frees%s | mallocs %d\n", g_calls_len ? g_calls : "", g_log_len ? g_log : "", nmalloc);
      track_end();
    } else if (!strcmp(op, "keys")) {
      int n, i;
      if (scanf("%d", &n) != 1) return 2;
      ka_fresh(); printf("keys");
      for (i = 0; i < n; i++) {
        char o[8]; long a;
        if (scanf("%7s %ld", o, &a) != 2) return 2;
        if (o[0] == 'r') { long d; if (scanf("%ld", &d) != 1) return 2; cycles(a, d); continue; }
        if (o[0] == 'c') printf(" %d", myth_tls_key_allocator_alloc(&G.ka, (myth_tls_destructor_fun_t)(uintptr_t)a));
        else if (o[0] == 'x') printf(" %ld", (long)(intptr_t)myth_tls_key_allocator_dealloc(&G.ka, (int)a));
        else return 2;
      }
      printf(" "); dump_keys(); printf("\n");
    } else if (!strcmp(op, "sys")) {
      int T, n, i; static myth_tls_tree_t tr[MAXTREES];
      if (scanf("%d %d", &T, &n) != 2 || T < 1 || T > MAXTREES) return 2;
      ka_fresh(); track_begin(); g_cur_tree = 0;
      for (i = 0; i < T; i++) myth_tls_tree_init(&tr[i]);
      printf("sys");
      for (i = 0; i < n; i++) {
        char o[8]; int t, k; long a; unsigned long v;
        if (scanf("%7s", o) != 1) return 2;
        if (o[0] == 'r') { long d; if (scanf("%ld %ld", &a, &d) != 2) return 2; cycles(a, d); }
        else if (o[0] == 'c') { if (scanf("%ld", &a) != 1) return 2; printf(" %d", myth_tls_key_allocator_alloc(&G.ka, (myth_tls_destructor_fun_t)(uintptr_t)a)); }
        else if (o[0] == 'x') {
          if (scanf("%d", &k) != 1) return 2;
          printf(" %d", myth_tls_key_allocator_dealloc(&G.ka, k) == (myth_tls_destructor_fun_t)-1 ? EINVAL : 0);
        }
        else if (o[0] == 's') { if (scanf("%d %d %lu", &t, &k, &v) != 3 || t < 0 || t >= T) return 2; printf(" %d", TREE_SET(&tr[t], k, (void *)v)); }
        else if (o[0] == 'g') { if (scanf("%d %d", &t, &k) != 2 || t < 0 || t >= T) return 2; printf(" %lu", (unsigned long)TREE_GET(&tr[t], k)); }
        else if (o[0] == 'n') { if (scanf("%d", &t) != 1 || t < 0 || t >= T) return 2; myth_tls_tree_init(&tr[t]); printf(" 0"); }
        else return 2;
      }
      printf("\n"); track_end();
    } else if (!strcmp(op, "conc")) {
      if (run_conc() != 0) return 2;
    } else { fprintf(stderr, "bad op %s\n", op); return 2; }
    fflush(stdout);
  }
  return 0;
}
