/* C14 first-use harness: the FIRST library call of the process is myth_once (no myth_init, no thread, no
 * worker before it), linked with the hooks-on library of the CURRENT tree (no hook callback installed: the
 * library runs free on its own workers, MYTH_NUM_WORKERS from the environment).  Public API only, plus the
 * exported word g_myth_init_state, read only, to witness that the runtime was not started before the call.
 *
 *   c14_first H=<h> Y=<y> B=<b> J=<0|1> N=<0|1> X=<0|1> P=<0|1> L=<l> Z=<z>
 *
 *   control A, init routine init_A; control B, init routine init_B.
 *   main:    myth_once(&A, init_A)                                   <- first use of the library
 *            join the h helpers; l later calls of myth_once(&A) and myth_once(&B)
 *   init_A:  (first execution only) creates h helpers that call myth_once(&A, init_A) [and, X=1, afterwards
 *            myth_once(&B, init_B)] and b helpers that call myth_once(&B, init_B) only; P=1: created
 *            parent-first (attribute child_first = 0); yields y times; N=1: calls myth_once(&B, init_B) itself;
 *            J=1: joins the b helpers (which never wait for A) before it returns; Z=1: myth_fini + myth_init +
 *            one more call of each control at the very end (the controls stay completed)
 *   init_B:  yields z times
 *   every routine counts its executions, and increments a counter at entry / decrements it at exit: the counter
 *   must never exceed 1 (no overlap); every caller checks, right after myth_once returned, that the routine of
 *   that control had completed (ready flag).
 *
 * Output (one line):
 *   first before=<g_myth_init_state before the first call> after=<state after it> runsA=.. overlapA=.. earlyA=..
 *         runsB=.. overlapB=.. earlyB=.. callsA=.. callsB=.. nonzero=<calls that returned non-zero> stateA=.. stateB=..
 */
#define _GNU_SOURCE
#include <stdio.h>
#include <stdlib.h>
#include <string.h>
#include <myth/myth.h>

extern volatile int g_myth_init_state;

#define MAXH 16
static myth_once_t A, B;                 /* zero = initial state */
static volatile int runsA, activeA, overlapA, readyA, earlyA, callsA;
static volatile int runsB, activeB, overlapB, readyB, earlyB, callsB, nonzero;
static int H, Y, NB, J, N, X, P, L, Z, ZB;
static myth_thread_t hs[MAXH], bs[MAXH];
static volatile int n_hs, n_bs;

static void init_A(void);
static void init_B(void);

static void call_A(void) {
  __sync_fetch_and_add(&callsA, 1);
  if (myth_once(&A, init_A) != 0) __sync_fetch_and_add(&nonzero, 1);
  if (!readyA) __sync_fetch_and_add(&earlyA, 1);
}
static void call_B(void) {
  __sync_fetch_and_add(&callsB, 1);
  if (myth_once(&B, init_B) != 0) __sync_fetch_and_add(&nonzero, 1);
  if (!readyB) __sync_fetch_and_add(&earlyB, 1);
}

static void * helper_A(void * arg) { (void)arg; call_A(); if (X) call_B(); return 0; }
static void * helper_B(void * arg) { (void)arg; call_B(); return 0; }

static myth_thread_t spawn(void * (*f)(void *)) {
  if (P) {
    myth_thread_attr_t a; myth_thread_t t = 0;
    myth_thread_attr_init(&a); a.child_first = 0;
    myth_create_ex(&t, &a, f, 0);
    return t;
  }
  return myth_create(f, 0);
}

static void init_B(void) {
  int i;
  __sync_fetch_and_add(&runsB, 1);
  if (__sync_add_and_fetch(&activeB, 1) != 1) __sync_fetch_and_add(&overlapB, 1);
  for (i = 0; i < ZB; i++) myth_yield();
  __sync_fetch_and_sub(&activeB, 1);
  readyB = 1;
}

static void init_A(void) {
  int i;
  int n = __sync_add_and_fetch(&runsA, 1);
  if (__sync_add_and_fetch(&activeA, 1) != 1) __sync_fetch_and_add(&overlapA, 1);
  if (n == 1) {                          /* only the first execution spawns: a faulty library cannot recurse */
    for (i = 0; i < H; i++) { hs[i] = spawn(helper_A); n_hs = i + 1; }
    for (i = 0; i < NB; i++) { bs[i] = spawn(helper_B); n_bs = i + 1; }
  }
  for (i = 0; i < Y; i++) myth_yield();
  if (N) call_B();
  if (n == 1 && J) { for (i = 0; i < n_bs; i++) myth_join(bs[i], 0); n_bs = 0; }
  __sync_fetch_and_sub(&activeA, 1);
  readyA = 1;
}

static int arg(int argc, char ** argv, char k, int dflt) {
  for (int i = 1; i < argc; i++) if (argv[i][0] == k && argv[i][1] == '=') return atoi(argv[i] + 2);
  return dflt;
}

int main(int argc, char ** argv) {
  int i, before, after;
  H = arg(argc, argv, 'H', 2); Y = arg(argc, argv, 'Y', 1); NB = arg(argc, argv, 'B', 0);
  J = arg(argc, argv, 'J', 0); N = arg(argc, argv, 'N', 0); X = arg(argc, argv, 'X', 0);
  P = arg(argc, argv, 'P', 0); L = arg(argc, argv, 'L', 1); Z = arg(argc, argv, 'Z', 0); ZB = arg(argc, argv, 'z', 1);
  if (H > MAXH) H = MAXH;
  if (NB > MAXH) NB = MAXH;
  before = g_myth_init_state;
  call_A();                              /* first use of the library */
  after = g_myth_init_state;
  for (i = 0; i < n_hs; i++) myth_join(hs[i], 0);
  for (i = 0; i < n_bs; i++) myth_join(bs[i], 0);
  for (i = 0; i < L; i++) { call_A(); if (runsB || NB || X || N) call_B(); }
  if (Z) { myth_fini(); call_A(); myth_init(); call_A(); if (runsB) call_B(); }
  printf("first before=%d after=%d runsA=%d overlapA=%d earlyA=%d runsB=%d overlapB=%d earlyB=%d callsA=%d callsB=%d nonzero=%d stateA=%d stateB=%d\n",
         before, after, runsA, overlapA, earlyA, runsB, overlapB, earlyB, callsA, callsB, nonzero, (int)A.state, (int)B.state);
  fflush(stdout);
  return 0;
}
