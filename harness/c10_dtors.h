/* 1024 distinct destructor functions d_0x000 .. d_0x3ff; d_k calls log_call(k, value).
 * A destructor receives only the value, so telling WHICH key-table cell a call came from needs
 * one function per cell.  The includer defines  static void log_call(int tag, void * v)  first.
 * DTOR[k] is d_k; dtor_oob is installed in guard cells placed behind a key table. */
#ifndef C10_DTORS_H_
#define C10_DTORS_H_
#define D1(k) static void d_##k(void * v) { log_call(k, v); }
#define D16(p) D1(p##0) D1(p##1) D1(p##2) D1(p##3) D1(p##4) D1(p##5) D1(p##6) D1(p##7) \
               D1(p##8) D1(p##9) D1(p##a) D1(p##b) D1(p##c) D1(p##d) D1(p##e) D1(p##f)
#define D256(p) D16(p##0) D16(p##1) D16(p##2) D16(p##3) D16(p##4) D16(p##5) D16(p##6) D16(p##7) \
                D16(p##8) D16(p##9) D16(p##a) D16(p##b) D16(p##c) D16(p##d) D16(p##e) D16(p##f)
D256(0x0) D256(0x1) D256(0x2) D256(0x3)
#define T1(k) d_##k,
#define T16(p) T1(p##0) T1(p##1) T1(p##2) T1(p##3) T1(p##4) T1(p##5) T1(p##6) T1(p##7) \
               T1(p##8) T1(p##9) T1(p##a) T1(p##b) T1(p##c) T1(p##d) T1(p##e) T1(p##f)
#define T256(p) T16(p##0) T16(p##1) T16(p##2) T16(p##3) T16(p##4) T16(p##5) T16(p##6) T16(p##7) \
                T16(p##8) T16(p##9) T16(p##a) T16(p##b) T16(p##c) T16(p##d) T16(p##e) T16(p##f)
static void (*DTOR[1024])(void *) = { T256(0x0) T256(0x1) T256(0x2) T256(0x3) };
static void dtor_oob(void * v) { log_call(-1, v); }
#endif
