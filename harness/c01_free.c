/*
 * c01_free.c -- FREE-RUNNING create/join family for C01 (no schedule controller: the worker OS threads
 * really run concurrently).  Built by tools/props/c01.py from /repo's current tree.
 *
 *   c01_free <workers> <pairs> <seed> [gpf]
 *
 * Every child gets a pointer to its own argument record (several fields), fills a private buffer of
 * 1..4096 words with a pattern derived from its tag using plain stores (no atomics, no fences of its own),
 * and returns - or calls myth_exit() from a nested frame of depth 1..4 - a value that carries the
 * checksum of the pattern.  The joiner (the parent, the next sibling, or the grandparent; after a random
 * amount of own work so that the join comes before / while / after the child runs) joins it, compares the
 * value, reads EVERY word of the buffer and checks the argument bookkeeping the child left behind.
 * `gpf`: the global default creation order is parent-first and every creation uses an initialised
 * attribute (so that it is honoured).
 *
 * Output: one line "ok pairs=<n> joins_by=<parent>/<sibling>/<grand> exits=<n> returns=<n>" or
 *         (cross_worker = joins whose target finished on another worker than the joiner runs on)
 *         "BAD <what> tag=<t> ..." (first problem only); exit status 0 / 1.
 */
#define _GNU_SOURCE
#include <stdio.h>
#include <stdlib.h>
#include <string.h>
#include <stdint.h>
#include <unistd.h>
#include "myth/myth.h"

#define MAXLEN 4096
#define FAN 6

typedef struct arg {
  uint64_t magic1;
  long tag;
  int len;
  int depth;              /* 0: return; 1..4: myth_exit from that many nested frames */
  int kind;               /* 0 leaf, 1 middle (creates one leaf and hands it to the grandparent) */
  uint64_t * buf;
  myth_thread_t * prev;   /* sibling joiner: handle of the previous sibling (or 0) */
  struct arg * prev_arg;
  struct arg * leaf_arg;  /* middle: the leaf's record */
  myth_thread_t leaf_id;  /* middle: out */
  uint64_t magic2;
  /* written by the child */
  volatile struct arg * seen_self;
  volatile long starts;
  volatile long sib_bad;
  int gpf;
  unsigned work;
  volatile int ran_on;
} arg_t;

static uint64_t mix(uint64_t z) {
  z += 0x9E3779B97F4A7C15ULL; z = (z ^ (z >> 30)) * 0xBF58476D1CE4E5B9ULL; z = (z ^ (z >> 27)) * 0x94D049BB133111EBULL;
  return z ^ (z >> 31);
}
static uint64_t pat(long tag, int i) { return mix(((uint64_t)tag << 20) ^ (uint64_t)i); }
static uint64_t expect_value(long tag, int len) {
  uint64_t s = 0;
  for (int i = 0; i < len; i++) s += pat(tag, i) * (uint64_t)(i + 1);
  return (s << 16) | ((uint64_t)tag & 0xffff);
}

static volatile int g_bad;
static volatile long g_cross;   /* joins whose target ran on another worker than the joiner is on */
static char g_msg[256];
static void bad(const char * what, long tag, long a, unsigned long long got, unsigned long long want) {
  if (__sync_fetch_and_add(&g_bad, 1) == 0)
    snprintf(g_msg, sizeof(g_msg), "BAD %s tag=%ld at=%ld got=%llx want=%llx", what, tag, a, got, want);
}

static volatile unsigned long g_sink;
static void burn(unsigned n) { unsigned long s = 0; for (unsigned i = 0; i < n; i++) s += i * 2654435761u; g_sink += s; }

__attribute__((noinline)) static void nest_exit(int d, void * v) {
  volatile char pad[48];
  pad[0] = (char)d;
  if (d <= 1) myth_exit(v);
  nest_exit(d - 1, v);
  g_sink += pad[0];
}

static int verify(arg_t * a, void * got, const char * who) {
  uint64_t want = expect_value(a->tag, a->len);
  if ((uint64_t)(uintptr_t)got != want) { bad(who, a->tag, -1, (uint64_t)(uintptr_t)got, want); return 1; }
  for (int i = 0; i < a->len; i++)
    if (a->buf[i] != pat(a->tag, i)) { bad("word", a->tag, i, a->buf[i], pat(a->tag, i)); return 1; }
  if (a->seen_self != a) { bad("argument", a->tag, 0, (uint64_t)(uintptr_t)a->seen_self, (uint64_t)(uintptr_t)a); return 1; }
  if (a->starts != 1) { bad("starts", a->tag, 0, (uint64_t)a->starts, 1); return 1; }
  if (a->ran_on != myth_get_worker_num()) __sync_fetch_and_add(&g_cross, 1);
  return 0;
}

static void * child(void * p);

static int spawn(arg_t * a, myth_thread_t * id) {
  if (a->gpf) {
    myth_thread_attr_t at; memset(&at, 0x5a, sizeof(at));
    myth_thread_attr_init(&at);
    return myth_create_ex(id, &at, child, a);
  }
  *id = myth_create(child, a);
  return 0;
}

static void * child(void * p) {
  arg_t * a = (arg_t *)p;
  /* the argument: exactly the record the creator passed */
  if (a->magic1 != mix((uint64_t)a->tag) || a->magic2 != ~mix((uint64_t)a->tag)) {
    bad("argument-fields", a->tag, 0, a->magic1, mix((uint64_t)a->tag));
    return 0;
  }
  a->seen_self = a;
  a->starts = a->starts + 1;
  burn(a->work / 2);
  if (a->kind == 1) {
    /* middle: create the leaf, do not join it - the grandparent does, after having joined me */
    spawn(a->leaf_arg, &a->leaf_id);
  }
  if (a->prev) {
    /* sibling joiner: reap the previous sibling (created before me by the same parent) */
    void * v = 0;
    burn(a->work);
    myth_join(*a->prev, &v);
    if (verify(a->prev_arg, v, "sibling-join-value")) a->sib_bad = 1;
  }
  for (int i = 0; i < a->len; i++) a->buf[i] = pat(a->tag, i);
  a->ran_on = myth_get_worker_num();
  void * rv = (void *)(uintptr_t)expect_value(a->tag, a->len);
  if (a->depth > 0) nest_exit(a->depth, rv);
  return rv;
}

int main(int argc, char ** argv) {
  if (argc < 4) { fprintf(stderr, "usage: %s workers pairs seed [gpf]\n", argv[0]); return 2; }
  int workers = atoi(argv[1]); long pairs = atol(argv[2]); uint64_t seed = strtoull(argv[3], 0, 0);
  int gpf = argc > 4 && !strcmp(argv[4], "gpf");
  myth_globalattr_t ga; myth_globalattr_init(&ga);
  myth_globalattr_set_n_workers(&ga, workers);
  if (gpf) { extern int myth_globalattr_set_child_first(myth_globalattr_t *, int); myth_globalattr_set_child_first(&ga, 0); }
  myth_init_ex(&ga);
  alarm(120);
  uint64_t rs = seed;
  arg_t * args = calloc(2 * FAN, sizeof(arg_t));
  uint64_t * bufs = malloc(sizeof(uint64_t) * MAXLEN * 2 * FAN);
  myth_thread_t ids[FAN];
  long done = 0, by_parent = 0, by_sib = 0, by_grand = 0, exits = 0, rets = 0, tag = 1;
  while (done < pairs && !g_bad) {
    int n = 1 + (int)(mix(rs++) % FAN);
    /* who reaps child k: 0 parent, 1 next sibling (k < n-1) */
    int reap_by_sib[FAN];
    memset(args, 0, sizeof(arg_t) * 2 * FAN);
    for (int k = 0; k < n; k++) {
      uint64_t r = mix(rs++);
      arg_t * a = &args[k];
      a->tag = tag++; a->magic1 = mix((uint64_t)a->tag); a->magic2 = ~a->magic1;
      a->len = (r % 7 == 0) ? 1 + (int)((r >> 8) % MAXLEN) : 1 + (int)((r >> 8) % 64);
      if (r % 11 == 0) a->len = MAXLEN;
      a->depth = (int)((r >> 24) % 6); if (a->depth > 4) a->depth = 0;
      a->buf = bufs + (size_t)k * MAXLEN;
      a->gpf = gpf; a->work = (unsigned)((r >> 32) % 3000);
      a->kind = ((r >> 44) % 5 == 0) ? 1 : 0;
      if (a->kind == 1) {
        arg_t * l = &args[FAN + k]; uint64_t r2 = mix(rs++);
        l->tag = tag++; l->magic1 = mix((uint64_t)l->tag); l->magic2 = ~l->magic1;
        l->len = 1 + (int)(r2 % 512); l->depth = (int)((r2 >> 16) % 5); l->buf = bufs + (size_t)(FAN + k) * MAXLEN; l->gpf = gpf;
        a->leaf_arg = l;
      }
      reap_by_sib[k] = 0;
      if (k > 0 && (r >> 52) % 3 == 0) { a->prev = &ids[k - 1]; a->prev_arg = &args[k - 1]; reap_by_sib[k - 1] = 1; }
      memset(a->buf, 0xee, sizeof(uint64_t) * (size_t)a->len);
      if (a->leaf_arg) memset(a->leaf_arg->buf, 0xee, sizeof(uint64_t) * (size_t)a->leaf_arg->len);
      if (a->depth) exits++; else rets++;
      spawn(a, &ids[k]);
    }
    /* the parent: own work of varying length, then the joins it owns, in a varying order */
    burn((unsigned)(mix(rs++) % 4000));
    if (mix(rs++) % 4 == 0) myth_yield();
    int rev = (int)(mix(rs++) & 1);
    for (int q = 0; q < n; q++) {
      int k = rev ? n - 1 - q : q;
      if (reap_by_sib[k]) { by_sib++; done++; continue; }
      void * v = 0;
      myth_join(ids[k], &v);
      verify(&args[k], v, "join-value"); by_parent++; done++;
      if (args[k].sib_bad) bad("sibling-check", args[k].tag, 0, 0, 0);
      if (args[k].kind == 1) {
        /* grandparent: the middle has finished, so its leaf exists; reap it */
        void * v2 = 0;
        myth_join(args[k].leaf_id, &v2);
        verify(args[k].leaf_arg, v2, "grandparent-join-value"); by_grand++; done++;
        if (args[k].leaf_arg->depth) exits++; else rets++;
      }
    }
    /* children reaped by a sibling: that sibling was reaped by somebody in this loop, hence they are done */
    for (int k = 0; k < n; k++)
      if (reap_by_sib[k] && args[k].kind == 1) {
        void * v2 = 0;
        myth_join(args[k].leaf_id, &v2);
        verify(args[k].leaf_arg, v2, "grandparent-join-value"); by_grand++; done++;
      }
  }
  if (g_bad) { printf("%s\n", g_msg); fflush(stdout); _exit(1); }
  printf("ok pairs=%ld joins_by=%ld/%ld/%ld exits=%ld returns=%ld cross_worker=%ld\n", done, by_parent, by_sib, by_grand, exits, rets, (long)g_cross);
  fflush(stdout);
  _exit(0);
}
