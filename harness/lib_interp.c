/*
 * lib_interp.c -- schedule controller + interpreter of generated API programs on the REAL library
 * (DESIGN.md 2.4.2).  Built by the checks from /repo's current working tree with -DMYTH_VERIF.
 *
 *   lib_interp <case-file> <trace-file>
 *
 * Participants are the worker OS threads of the library.  Exactly one participant runs at a time
 * (token passing over semaphores); a scheduling decision is taken at every MYTH_VERIF_POINT whose
 * id is not "pass-through" (wsq.* and spin.* points are pass-through at this level, so that one
 * deque operation / one spin-locked region is one step), at every interpreter event, and at every
 * MYTH_VERIF_SPIN (the spinner is disabled until some other participant has made a real move).
 * If nobody is enabled the run is quiescent: DONE if the main program finished, else DEADLOCK.
 * All random choices come from one splitmix64 state seeded by the case file.
 *
 * Trace (one line per event, written by the token holder only):
 *   C <step> w<W> t<T> <op> <args..>                 interpreter: thread T calls an API operation
 *   R <step> w<W> t<T> ret <val> [k=v ..]            ... and it returned
 *   P <step> w<W> t<A> <point-id> <obj> <val> | <snapshot of obj BEFORE the access>
 *   S <step> w<W> t<A> <spin-id> <obj>
 *   E <step> w<W> t<A> <event-id> <obj> <val>
 *   V <verdict> ...
 * The E lines of alloc.desc / free.desc end in " | d<k>": the record's identity (first-seen order of its address).
 * A = acting user thread (the blocking thread inside a context-switch callback, else the worker's
 * current thread, '-' in the scheduler).  Addresses never appear: threads are t<tag> (tags fixed
 * by the program), objects carry their program names, stacks are s<k> in first-seen order.
 */
#define _GNU_SOURCE
#include <stdio.h>
#include <stdlib.h>
#include <string.h>
#include <stdint.h>
#include <errno.h>
#include <semaphore.h>
#include <pthread.h>
#include <unistd.h>
#include <time.h>

#include "myth/myth.h"
#include "myth_config.h"
#include "myth_thread.h"
#include "myth_worker.h"
#include "myth_verif.h"

extern myth_running_env_t g_envs;
extern __thread unsigned int g_myth_random_temp;
extern __thread int g_worker_rank;

#define MAXW 16
#define MAXT 8448   /* large barriers (C06: N beyond any internal batch size / queue capacity) */
#define MAXO 128
#define MAXOPS 4096
#define MAXSTK 4096

/* ---------------------------------------------------------------- case ---- */
enum { K_MUTEX, K_COND, K_BARRIER, K_JC, K_UNCOND, K_FELOCK, K_ONCE, K_VAR, K_KEY };
static const char * kind_name[] = { "mutex", "cond", "barrier", "jc", "uncond", "felock", "once", "var", "key" };

typedef struct {
  char name[24];
  int kind;
  long param;
  void * addr; size_t size;
  int owner;              /* index of enclosing object (felock) or -1 */
  union {
    myth_mutex_t m; myth_cond_t c; myth_barrier_t b; myth_join_counter_t j;
    myth_uncond_t u; myth_felock_t f; myth_once_t o; volatile long v; myth_key_t k;
  } u;
  volatile long occ;      /* occupancy witness for mutexes / felocks */
  long script;            /* once: script index */
} obj_t;

typedef struct { char w[6][24]; int n; } op_t;
typedef struct { op_t * ops; int n; } prog_t;

static obj_t objs[MAXO]; static int n_objs;
static prog_t progs[MAXT]; static int n_threads;
static prog_t scripts[32];
static int n_workers = 2, pswitch = 30, rpoint = 1, msnap = 0;
static int snapmax = 1000, snapmax_set = 0;   /* case option `snapmax K`: at most K entries of a sleep stack are listed */
static long maxsteps = 200000, clock_step = 1000;
static int clocklog = 0;   /* case option `clocklog 1` (C20): clock readings are scheduling points and logged (see ctl_clock) */
static uint64_t seed = 1;
static int dflt_parent_first = 0;
static int g_child_first_opt = -1;
/* targeted preemption (case option `hold <point-id> <moves> [<percent>]`): a participant arriving at that
   POINT is switched away and stays disabled until <moves> real moves of other participants have happened
   (or nobody else is enabled); applied with probability <percent> (default 100) */
static char hold_id[4][32]; static long hold_moves[4]; static int hold_pct[4]; static int n_hold;

/* ------------------------------------------------------------ controller -- */
static FILE * tr;
static sem_t sem[MAXW];
static volatile int st[MAXW];        /* 0 running, 1 parked enabled, 2 spin-disabled, 3 not yet arrived */
static volatile unsigned long moves, spin_mark[MAXW];
static volatile int ctl_on, n_parked_idle;
static long step_no;
static uint64_t rng_s;
static myth_thread_t cb_thread[MAXW];
static char last_id[MAXW][32]; static const void * last_obj[MAXW];
static myth_thread_t thr_ptr[MAXT];
static int pending_tag[MAXW];
static void * stk_ptr[MAXSTK]; static int n_stk;
static const void * dsc_ptr[MAXSTK]; static int n_dsc;
static volatile int main_done;
static volatile long vclock_reads;
static int finished[MAXT], started[MAXT];
static char held[MAXT][MAXO];       /* thread T acquired object o by trylock / timedlock */

static uint64_t rnd(void) {
  rng_s += 0x9E3779B97F4A7C15ULL; uint64_t z = rng_s;
  z = (z ^ (z >> 30)) * 0xBF58476D1CE4E5B9ULL; z = (z ^ (z >> 27)) * 0x94D049BB133111EBULL;
  return z ^ (z >> 31);
}

static int my_rank(void) { return g_worker_rank; }

static int tag_of(const void * p) {
  if (!p) return -1;
  for (int i = n_threads - 1; i >= 0; i--) if ((const void *)thr_ptr[i] == p) return i;
  return -2;
}
static const char * tname(const void * p, char * buf) {
  int t = tag_of(p);
  if (t == -1) strcpy(buf, "-"); else if (t == -2) strcpy(buf, "t?"); else sprintf(buf, "t%d", t);
  return buf;
}
static int actor_tag(int w) {
  if (cb_thread[w]) return tag_of(cb_thread[w]);
  return tag_of(g_envs[w].this_thread);
}
static const char * aname(int w, char * buf) {
  int t = actor_tag(w);
  /* c<tag> = the context-switch callback of thread <tag> (runs on the worker the thread just left) */
  if (t == -1) strcpy(buf, "-"); else if (t == -2) strcpy(buf, "t?");
  else sprintf(buf, "%c%d", cb_thread[w] ? 'c' : 't', t);
  return buf;
}

/* machine snapshot (case option `msnap 1`): after every trace line, one line
     M cur=[<tN | - | cb:tN>,..] dq=[[base..top],..]
   per-worker current thread (cb:tN = the worker is inside a context-switch callback of tN) and
   run-queue contents, base (thief end) first.  Read while every other participant is parked
   outside queue operations. */
static void machine_snapshot(void) {
  char b[16];
  if (!msnap) return;
  fprintf(tr, "M cur=[");
  for (int w = 0; w < n_workers; w++) {
    if (cb_thread[w]) fprintf(tr, "%scb:%s", w ? "," : "", tname(cb_thread[w], b));
    else fprintf(tr, "%s%s", w ? "," : "", tname(g_envs[w].this_thread, b));
  }
  fprintf(tr, "] dq=[");
  for (int w = 0; w < n_workers; w++) {
    myth_thread_queue_t q = &g_envs[w].runnable_q;
    fprintf(tr, "%s[", w ? "," : "");
    int bs = q->base, tp = q->top;
    for (int i = bs; i < tp && i - bs < 1000; i++) fprintf(tr, "%s%s", i > bs ? " " : "", tname(q->ptr[i], b));
    fprintf(tr, "]");
  }
  fprintf(tr, "]\n");
}

static void verdict_and_exit(const char * v, int code) {
  char b[16];
  fprintf(tr, "V %s steps=%ld blocked=[", v, step_no);
  int first = 1;
  for (int i = 0; i < n_threads; i++)
    if (started[i] && !finished[i]) { fprintf(tr, "%st%d", first ? "" : ",", i); first = 0; }
  fprintf(tr, "] cur=[");
  for (int w = 0; w < n_workers; w++) fprintf(tr, "%s%s", w ? "," : "", tname(g_envs[w].this_thread, b));
  fprintf(tr, "]\n");
  fflush(tr); fclose(tr);
  _exit(code);
}

static int enabled(int q) {
  return st[q] == 1 || (st[q] == 2 && moves > spin_mark[q]);
}
static volatile int heldflag[MAXW];   /* parked by a `hold` directive (not a real spinner) */
static int choose_other(int me) {
  int c[MAXW], n = 0;
  for (int q = 0; q < n_workers; q++) if (q != me && enabled(q)) c[n++] = q;
  if (!n) {
    /* nobody enabled: a participant parked by `hold` is released early rather than declaring quiescence */
    for (int q = 0; q < n_workers; q++) if (q != me && heldflag[q]) c[n++] = q;
    if (!n) return -1;
  }
  return c[rnd() % n];
}
static void pass_to(int me, int q) {
  sem_post(&sem[q]);
  sem_wait(&sem[me]);
  st[me] = 0;
}
static void maybe_switch(int me) {
  if (step_no > maxsteps) verdict_and_exit("LIMIT", 4);
  if ((int)(rnd() % 100) < pswitch) {
    int q = choose_other(me);
    if (q >= 0) { st[me] = 1; pass_to(me, q); }
  }
}
static void spin_switch(int me) {
  st[me] = 2; spin_mark[me] = moves;
  int q = choose_other(me);
  if (q < 0) verdict_and_exit(main_done ? "DONE" : "DEADLOCK", main_done ? 0 : 3);
  pass_to(me, q);
}

/* called from our steal function when a worker found nothing to run */
static void machine_snapshot(void);
static void ctl_idle(int w) {
  if (!ctl_on) {
    /* arming: park at the canonical idle point until the main thread starts the controlled run */
    g_myth_random_temp = (unsigned)(seed * 31 + w + 1);
    st[w] = 2; spin_mark[w] = 0;
    __sync_fetch_and_add(&n_parked_idle, 1);
    sem_wait(&sem[w]);
    st[w] = 0;
    step_no++;
    fprintf(tr, "S %ld w%d t- sched.start -\n", step_no, w);
    machine_snapshot();
    return;
  }
  /* every line is written when the participant proceeds (holding the token), so that the code
     after a line runs contiguously until the participant's next hook */
  spin_switch(w);
  step_no++;
  fprintf(tr, "S %ld w%d t- sched.idle -\n", step_no, w);
  machine_snapshot();
}

/* ------------------------------------------------------------- snapshots -- */
static void pr_queue(myth_sleep_queue_t * q) {
  char b[16];
  fprintf(tr, "q=[");
  myth_sleep_queue_item_t it = q->head; int n = 0;
  while (it && n < 1000) { fprintf(tr, "%s%s", n ? "," : "", tname(it, b)); it = it->next; n++; }
  fprintf(tr, "]");
}
static void pr_stack(myth_sleep_stack_t * s) {
  char b[16];
  fprintf(tr, "stk=[");
  myth_sleep_queue_item_t it = s->top; int n = 0;
  while (it && n < (snapmax_set ? snapmax : 1000)) { fprintf(tr, "%s%s", n ? "," : "", tname(it, b)); it = it->next; n++; }
  fprintf(tr, "]");
  if (snapmax_set && it) fprintf(tr, " more=1");     /* only with an explicit `snapmax`: the list was cut */
}
static void snapshot_obj(obj_t * o) {
  char b[16];
  switch (o->kind) {
  case K_MUTEX: fprintf(tr, "state=%ld ", o->u.m.state); pr_queue(o->u.m.sleep_q); break;
  case K_COND: pr_queue(o->u.c.sleep_q); break;
  case K_BARRIER: fprintf(tr, "state=%ld n=%ld ", o->u.b.state, o->u.b.n_threads); pr_stack(o->u.b.sleep_s); break;
  case K_JC: fprintf(tr, "state=%ld n=%ld bits=%d mask=%ld ", o->u.j.state, o->u.j.n_threads, o->u.j.n_threads_bits, o->u.j.state_mask); pr_queue(o->u.j.sleep_q); break;
  case K_UNCOND: fprintf(tr, "th=%s", tname(o->u.u.th, b)); break;
  case K_FELOCK: fprintf(tr, "status=%d state=%ld ", o->u.f.status, o->u.f.mutex->state);
    pr_queue(o->u.f.mutex->sleep_q); fprintf(tr, " c0"); pr_queue(o->u.f.cond[0].sleep_q);
    fprintf(tr, " c1"); pr_queue(o->u.f.cond[1].sleep_q); break;
  case K_ONCE: fprintf(tr, "state=%d", o->u.o.state); break;
  case K_VAR: fprintf(tr, "v=%ld", o->u.v); break;
  default: break;
  }
}
static void snapshot_thread(myth_thread_t t) {
  char b[16];
  fprintf(tr, "st=%d jt=%s det=%d lk=%d", (int)t->status, tname(t->join_thread, b), (int)t->detached, (int)t->lock.locked);
}

static obj_t * find_obj(const void * p, const char * id) {
  obj_t * best = 0;
  int want_fe = (strncmp(id, "fe.", 3) == 0);
  for (int i = 0; i < n_objs; i++) {
    obj_t * o = &objs[i];
    if (!o->addr) continue;
    if ((const char *)p >= (const char *)o->addr && (const char *)p < (const char *)o->addr + o->size) {
      if (want_fe) { if (o->kind == K_FELOCK) return o; continue; }
      if (!best || o->size < best->size) best = o;
    }
  }
  return best;
}

static int is_thread_point(const char * id) {
  return !strncmp(id, "join.", 5) || !strncmp(id, "tryjoin.", 8) || !strncmp(id, "detach.", 7) ||
         !strncmp(id, "finish.", 7) || !strncmp(id, "create.", 7) || !strncmp(id, "cb.", 3) ||
         !strncmp(id, "yield.", 6) || !strncmp(id, "sched.", 6) || !strncmp(id, "steal.", 6) || !strncmp(id, "alloc.desc", 10) || !strncmp(id, "free.desc", 9);
}
static int passthrough(const char * id) {
  return !strncmp(id, "wsq.", 4) || !strncmp(id, "spin.", 5) || !strncmp(id, "key.", 4);
}
static int soft_spin(const char * id) { return !strcmp(id, "once.wait.spin"); }

static void pr_objref(const char * id, const void * obj) {
  char b[16];
  if (is_thread_point(id)) { fprintf(tr, "%s", tname(obj, b)); return; }
  if (!strncmp(id, "alloc.stack", 11) || !strncmp(id, "free.stack", 10)) {
    int k = -1;
    for (int i = 0; i < n_stk; i++) if (stk_ptr[i] == obj) k = i;
    if (k < 0 && n_stk < MAXSTK) { k = n_stk; stk_ptr[n_stk++] = (void *)obj; }
    fprintf(tr, "s%d", k); return;
  }
  obj_t * o = find_obj(obj, id);
  if (o) fprintf(tr, "%s", o->name); else fprintf(tr, "?");
}
static void pr_val(long val) {
  char b[16];
  int t = tag_of((const void *)val);
  if (val != 0 && t >= 0) fprintf(tr, "%s", tname((const void *)val, b));
  else if (val > -(1L << 40) && val < (1L << 40)) fprintf(tr, "%ld", val);
  else fprintf(tr, "big");
}

/* additive field of the alloc.stack / free.stack E lines (C12):
     alloc.stack ... | b<k> word=<size word above the top> ext=<bytes the thread may use below top+16> ovl=<b<j>|-> on=<b<j>|->
     free.stack  ... | b<k> word=<size word> on=<b<j>|->
   b<k> = the block behind the stack (first-seen order of its start address top+16-ext; a block that is handed out
   again with another size of its class keeps its k although its top pointer, hence s<k>, differs), ext = the
   page-rounded requested size (g_attr.stacksize for the default size 0), ovl = a block whose extent is live and
   overlaps [top+16-ext, top+16), on = the live block that contains the stack pointer of the worker executing the
   event.  No address is printed. */
extern myth_globalattr_t g_attr;
static uintptr_t blk_lo[MAXSTK], blk_hi[MAXSTK]; static int blk_live[MAXSTK]; static int n_blk;
static int blk_containing(uintptr_t a) {
  for (int i = 0; i < n_blk; i++) if (blk_live[i] && a >= blk_lo[i] && a < blk_hi[i]) return i;
  return -1;
}
static void stack_tail(const char * id, const void * obj, long val, uintptr_t sp) {
  uintptr_t top = (uintptr_t)obj;
  if (!top) return;
  uintptr_t word = *(uintptr_t *)(top + sizeof(void *));
  int on = blk_containing(sp), k = -1;
  char onb[16]; if (on >= 0) sprintf(onb, "b%d", on); else strcpy(onb, "-");
  if (!strcmp(id, "alloc.stack")) {
    size_t ext = val ? (((size_t)val + 0xFFF) & ~(size_t)0xFFF) : g_attr.stacksize;
    uintptr_t lo = top + 2 * sizeof(void *) - ext, hi = top + 2 * sizeof(void *);
    int ovl = -1;
    for (int i = 0; i < n_blk; i++) {
      if (blk_lo[i] == lo) k = i;
      else if (blk_live[i] && blk_lo[i] < hi && lo < blk_hi[i]) ovl = i;
    }
    if (k < 0 && n_blk < MAXSTK) { k = n_blk++; blk_lo[k] = lo; }
    if (k >= 0) { if (blk_live[k]) ovl = k; blk_hi[k] = hi; blk_live[k] = 1; }
    fprintf(tr, " | b%d word=%lu ext=%zu ovl=", k, (unsigned long)word, ext);
    if (ovl >= 0) fprintf(tr, "b%d", ovl); else fprintf(tr, "-");
    fprintf(tr, " on=%s", onb);
  } else {
    size_t ext = word ? (size_t)word : g_attr.stacksize;
    uintptr_t lo = top + 2 * sizeof(void *) - ext;
    for (int i = 0; i < n_blk; i++) if (blk_lo[i] == lo) k = i;
    fprintf(tr, " | b%d word=%lu on=%s", k, (unsigned long)word, onb);
    if (k >= 0) blk_live[k] = 0;
  }
}

/* the callback installed in g_myth_verif_cb */
static void ctl_cb(int kind, const char * id, const void * obj, long val) {
  char b[16];
  if (kind == MYTH_VERIF_KIND_POINT && passthrough(id)) return;
  if (kind == MYTH_VERIF_KIND_EVENT && !strncmp(id, "wsq.", 4)) return;
  if (kind == MYTH_VERIF_KIND_SPIN && !strncmp(id, "spin.", 5) && !ctl_on) return;
  int w = my_rank();
  if (w < 0 || w >= n_workers) return;
  /* bookkeeping that must work before the controlled run starts, too */
  if (kind == MYTH_VERIF_KIND_EVENT) {
    if (!strcmp(id, "cb.enter")) cb_thread[w] = (myth_thread_t)obj;
    if (!strcmp(id, "alloc.desc") && pending_tag[w] >= 0) {
      for (int i = 0; i < n_threads; i++) if (thr_ptr[i] == (myth_thread_t)obj) thr_ptr[i] = 0;
      thr_ptr[pending_tag[w]] = (myth_thread_t)obj; pending_tag[w] = -1;
    }
  }
  if (!ctl_on) { if (kind == MYTH_VERIF_KIND_EVENT && !strcmp(id, "cb.leave")) cb_thread[w] = 0; return; }
  step_no++;
  if (kind == MYTH_VERIF_KIND_EVENT) {
    fprintf(tr, "E %ld w%d %s %s ", step_no, w, aname(w, b), id);
    pr_objref(id, obj); fprintf(tr, " "); pr_val(val);
    if (!strcmp(id, "alloc.stack") || !strcmp(id, "free.stack")) stack_tail(id, obj, val, (uintptr_t)&b[0]);
    if (!strcmp(id, "alloc.desc") || !strcmp(id, "free.desc")) {
      /* record identity: d<k> in first-seen order of the record's address (additive field, C13) */
      int k = -1;
      for (int i = 0; i < n_dsc; i++) if (dsc_ptr[i] == obj) k = i;
      if (k < 0 && n_dsc < MAXSTK) { k = n_dsc; dsc_ptr[n_dsc++] = obj; }
      fprintf(tr, " | d%d", k);
    }
    fprintf(tr, "\n");
  machine_snapshot();
    if (!strcmp(id, "cb.leave")) cb_thread[w] = 0;
    if (!strcmp(id, "finish.enter")) { int t = tag_of(obj); if (t >= 0) finished[t] = 1; }
    return;
  }
  if (kind == MYTH_VERIF_KIND_SPIN) {
    step_no--;
    if (soft_spin(id)) {
      /* while a participant is parked by `hold`, a polling iteration of somebody else counts as a real move:
         otherwise a runner held at once.done is never released when everybody else only polls (the pollers
         stay enabled, so the early-release rule of choose_other does not apply) */
      for (int q = 0; q < n_workers; q++) if (q != w && heldflag[q]) { moves++; break; }
      maybe_switch(w);
    } else spin_switch(w);
    step_no++;
    fprintf(tr, "S %ld w%d %s %s ", step_no, w, aname(w, b), id);
    pr_objref(id, obj); fprintf(tr, "\n");
    machine_snapshot();
    return;
  }
  /* POINT: the scheduling decision comes first, the line is written when this participant
     holds the token again, i.e. immediately before the access (nobody runs in between) */
  step_no--;
  {
    int held = 0;
    for (int h = 0; h < n_hold && !held; h++)
      if (!strcmp(hold_id[h], id) && (int)(rnd() % 100) < hold_pct[h]) {
        /* disabled until hold_moves[h] further real moves by others (enabled(q): moves > spin_mark) */
        int q;
        st[w] = 2; spin_mark[w] = moves + hold_moves[h] - 1; heldflag[w] = 1;
        q = choose_other(w);
        if (q >= 0) { pass_to(w, q); held = 1; } else st[w] = 0;
        heldflag[w] = 0;
      }
    if (!held) maybe_switch(w);
  }
  step_no++;
  fprintf(tr, "P %ld w%d %s %s ", step_no, w, aname(w, b), id);
  pr_objref(id, obj); fprintf(tr, " "); pr_val(val); fprintf(tr, " | ");
  if (is_thread_point(id)) { if (tag_of(obj) >= 0) snapshot_thread((myth_thread_t)obj); }
  else { obj_t * o = find_obj(obj, id); if (o) snapshot_obj(o); }
  fprintf(tr, "\n");
  machine_snapshot();
  if (strcmp(last_id[w], id) || last_obj[w] != obj) moves++;
  strncpy(last_id[w], id, 31); last_obj[w] = obj;
}

/* the virtual clock: reading number r (counted over all readers) shows 1 s + r * clockstep ns */
static long ctl_clock_raw(struct timespec * ts) {
  long r = __sync_fetch_and_add(&vclock_reads, 1);
  long ns = 1000000000L + r * clock_step;
  ts->tv_sec = ns / 1000000000L; ts->tv_nsec = ns % 1000000000L;
  return ns;
}
/* the hook behind hr_gettime.  Case option `clocklog 1` (C20; default 0 = no scheduling point, no line): every clock
   reading of the library is a scheduling point of the controller and an event
     E <step> w<W> t<T> clock.read - <ns>
   Switch first, then read and log: the value is the one the library gets, and another participant can be
   scheduled between the reading and whatever the reader does next (its lock / join attempt). */
static int ctl_clock(struct timespec * ts) {
  int w = (clocklog && ctl_on) ? my_rank() : -1;
  if (w >= 0 && w < n_workers) {
    char b[16];
    maybe_switch(w);
    long ns = ctl_clock_raw(ts);
    step_no++; moves++;
    fprintf(tr, "E %ld w%d %s clock.read - %ld\n", step_no, w, aname(w, b), ns);
    machine_snapshot();
    return 0;
  }
  ctl_clock_raw(ts);
  return 0;
}

/* our steal function: random victim from the controller's PRNG; idle -> spin point */
static myth_thread_t ctl_steal(int rank) {
  myth_thread_t t = 0;
  if (n_workers > 1) {
    int tries = ctl_on ? n_workers - 1 : 0;
    int start = ctl_on ? (int)(rnd() % (n_workers - 1)) : 0;
    for (int i = 0; i < tries && !t; i++) {
      int v = (start + i) % (n_workers - 1); v += (v >= rank);
      t = myth_wsapi_runqueue_take(v, 0, 0);
    }
  }
  if (!t) {
    /* called from a user thread's yield: not an idle worker, just report failure */
    if (g_envs[rank].this_thread) return 0;
    ctl_idle(rank); return 0;
  }
  if (ctl_on) {
    char b[16]; step_no++; moves++;
    fprintf(tr, "E %ld w%d - steal.got %s 0\n", step_no, rank, tname(t, b));
  machine_snapshot();
  }
  return t;
}

/* ----------------------------------------------------------- interpreter -- */
static obj_t * obj_named(const char * n) {
  for (int i = 0; i < n_objs; i++) if (!strcmp(objs[i].name, n)) return &objs[i];
  fprintf(stderr, "lib_interp: unknown object %s\n", n); exit(2);
}
static void ev_call(int T, op_t * o) {
  int w = my_rank();
  maybe_switch(w);
  w = my_rank();
  step_no++; moves++;
  fprintf(tr, "C %ld w%d t%d", step_no, w, T);
  for (int i = 0; i < o->n; i++) fprintf(tr, " %s", o->w[i]);
  fprintf(tr, "\n");
  machine_snapshot();
  last_id[w][0] = 0;
}
static void ev_ret(int T, long val, const char * extra) {
  int w = my_rank();
  if (rpoint) maybe_switch(w);
  step_no++; moves++;
  fprintf(tr, "R %ld w%d t%d ret %ld%s%s\n", step_no, w, T, val, extra[0] ? " " : "", extra);
  machine_snapshot();
  last_id[w][0] = 0;
}

static void run_ops(int T, prog_t * p, void ** exit_val);
static __thread int once_T; static __thread long once_script;
static void once_routine(void) {
  void * dummy = 0;
  int w = my_rank(); step_no++; moves++;
  fprintf(tr, "E %ld w%d t%d once.init.begin - %ld\n", step_no, w, once_T, once_script);
  machine_snapshot();
  int T = once_T; long s = once_script;
  run_ops(T, &scripts[s], &dummy);
  w = my_rank(); step_no++; moves++;
  fprintf(tr, "E %ld w%d t%d once.init.end - %ld\n", step_no, w, T, s);
  machine_snapshot();
}

static void * thread_main(void * arg) {
  int T = (int)(long)arg;
  void * rv = (void *)(long)(1000 + T);
  started[T] = 1;
  run_ops(T, &progs[T], &rv);
  return rv;
}

static long num(const char * s) { return strtol(s, 0, 0); }
static long kv(op_t * o, const char * key, long dflt) {
  size_t l = strlen(key);
  for (int i = 1; i < o->n; i++) if (!strncmp(o->w[i], key, l) && o->w[i][l] == '=') return num(o->w[i] + l + 1);
  return dflt;
}
static int has(op_t * o, const char * flag) {
  for (int i = 1; i < o->n; i++) if (!strcmp(o->w[i], flag)) return 1;
  return 0;
}

/* deadline of a timed op `<op> <x> <ns> [abs]`: now + <ns> (one reading of the virtual clock by the interpreter itself,
   never a scheduling point, never logged as clock.read), or the absolute time <ns> with the flag `abs` (no reading).
   Under `clocklog 1` the deadline handed to the library is logged:  E <step> w<W> t<T> clock.deadline - <ns> */
static void mk_deadline(int T, op_t * o, struct timespec * ts) {
  long d = num(o->w[2]);
  if (has(o, "abs")) { ts->tv_sec = d / 1000000000L; ts->tv_nsec = d % 1000000000L; }
  else { ctl_clock_raw(ts); long ns = ts->tv_nsec + d; ts->tv_sec += ns / 1000000000L; ts->tv_nsec = ns % 1000000000L; }
  if (clocklog && ctl_on) {
    int w = my_rank(); step_no++;
    fprintf(tr, "E %ld w%d t%d clock.deadline - %ld\n", step_no, w, T, (long)ts->tv_sec * 1000000000L + ts->tv_nsec);
    machine_snapshot();
  }
}

static void run_ops(int T, prog_t * p, void ** exit_val) {
  char ex[96];
  long last_r = 0;          /* return value of the previous op of this program (for `ifret`) */
  for (int pc = 0; pc < p->n; pc++) {
    op_t * o = &p->ops[pc];
    const char * op = o->w[0];
    long r = 0; ex[0] = 0;
    ev_call(T, o);
    if (!strcmp(op, "ifret")) {
      /* ifret V <op> <args..> (C06, object lifecycle): run <op> only if the previous op of this thread returned V
         (e.g. only the serial thread of a barrier round destroys / re-initialises the barrier); the inner op has
         its own C / R lines; `ifret` itself returns the tested value, so several `ifret` in a row test the same one */
      if (last_r == num(o->w[1]) && o->n >= 3) {
        op_t inner; memset(&inner, 0, sizeof(inner)); inner.n = o->n - 2;
        for (int i = 0; i < inner.n; i++) strcpy(inner.w[i], o->w[i + 2]);
        prog_t one; one.ops = &inner; one.n = 1;
        run_ops(T, &one, exit_val);
        sprintf(ex, "taken=1");
      } else sprintf(ex, "taken=0");
      r = last_r;
      ev_ret(T, r, ex);
      continue;
    }
    if (!strcmp(op, "create")) {
      int C = (int)num(o->w[1]);
      myth_thread_attr_t a; myth_thread_t id = 0;
      int use_attr = has(o, "pf") || has(o, "cf") || has(o, "det") || kv(o, "ss", -1) >= 0 || has(o, "attr") || dflt_parent_first ||
                     kv(o, "gs", -1) >= 0 || kv(o, "stk", -1) >= 0;
      pending_tag[my_rank()] = C;
      if (use_attr) {
        memset(&a, 0x5a, sizeof(a));           /* dirty memory: attr_init must set every field */
        myth_thread_attr_init(&a);
        if (has(o, "pf") || (dflt_parent_first && !has(o, "cf"))) a.child_first = 0;
        if (has(o, "cf")) a.child_first = 1;     /* (matters only when the global default is parent-first) */
        if (has(o, "det")) myth_thread_attr_setdetachstate(&a, 1);
        if (kv(o, "ss", -1) >= 0) myth_thread_attr_setstacksize(&a, (size_t)kv(o, "ss", 0));
        /* the remaining public setters (C01): guard size; stack = (address, size) - the address is a dummy */
        if (kv(o, "gs", -1) >= 0) myth_thread_attr_setguardsize(&a, (size_t)kv(o, "gs", 0));
        if (kv(o, "stk", -1) >= 0) { static char dummy_stack[64]; myth_thread_attr_setstack(&a, dummy_stack, (size_t)kv(o, "stk", 0)); }
        r = myth_create_ex(has(o, "nullid") ? 0 : &id, &a, thread_main, (void *)(long)C);
      } else {
        r = myth_create_ex(has(o, "nullid") ? 0 : &id, 0, thread_main, (void *)(long)C);
      }
    } else if (!strcmp(op, "join")) {
      /* flag `null` (join / tryjoin / timedjoin and the w / j loops): the result pointer is NULL (C13) */
      void * v = 0; int nl = has(o, "null"); r = myth_join(thr_ptr[num(o->w[1])], nl ? 0 : &v); if (!nl) sprintf(ex, "val=%ld", (long)v);
    } else if (!strcmp(op, "tryjoin")) {
      void * v = 0; int nl = has(o, "null"); r = myth_tryjoin(thr_ptr[num(o->w[1])], nl ? 0 : &v); if (!nl) sprintf(ex, "val=%ld", (long)v);
    } else if (!strcmp(op, "timedjoin")) {
      void * v = 0; int nl = has(o, "null"); struct timespec ts; mk_deadline(T, o, &ts);
      r = myth_timedjoin(thr_ptr[num(o->w[1])], nl ? 0 : &v, &ts); if (!nl) sprintf(ex, "val=%ld", (long)v);
    } else if (!strcmp(op, "tryjoinw") || !strcmp(op, "timedjoinw")) {
      /* tryjoinw T : repeat { tryjoin T } until it returns 0, yielding in between;
         timedjoinw T ns : repeat { timedjoin T ns } until 0.  Every attempt is logged as its own call (C13) */
      int timed = !strcmp(op, "timedjoinw"); long attempts = 0;
      for (;;) {
        op_t w1; memset(&w1, 0, sizeof(w1)); w1.n = timed ? 3 : 2;
        strcpy(w1.w[0], timed ? "timedjoin" : "tryjoin"); strcpy(w1.w[1], o->w[1]); if (timed) strcpy(w1.w[2], o->w[2]);
        int nl = has(o, "null"); if (nl) strcpy(w1.w[w1.n++], "null");
        ev_call(T, &w1);
        void * v = 0; int rr; char e2[32];
        if (timed) {
          struct timespec ts; mk_deadline(T, o, &ts);
          rr = myth_timedjoin(thr_ptr[num(o->w[1])], nl ? 0 : &v, &ts);
        } else rr = myth_tryjoin(thr_ptr[num(o->w[1])], nl ? 0 : &v);
        e2[0] = 0; if (!nl) sprintf(e2, "val=%ld", (long)v);
        ev_ret(T, rr, e2); attempts++;
        if (rr == 0) break;
        if (!timed) myth_yield();
      }
      sprintf(ex, "attempts=%ld", attempts);
    } else if (!strcmp(op, "timedjoinj")) {
      /* timedjoinj T ns [abs] : one timedjoin; if it did not return 0, a blocking join.  Each is logged as its own call (C20) */
      op_t w1; memset(&w1, 0, sizeof(w1)); w1.n = 3; strcpy(w1.w[0], "timedjoin"); strcpy(w1.w[1], o->w[1]); strcpy(w1.w[2], o->w[2]);
      if (has(o, "abs")) { w1.n = 4; strcpy(w1.w[3], "abs"); }
      int nl = has(o, "null"); if (nl) strcpy(w1.w[w1.n++], "null");
      ev_call(T, &w1);
      void * v = 0; struct timespec ts; char e2[32]; mk_deadline(T, o, &ts);
      int rr = myth_timedjoin(thr_ptr[num(o->w[1])], nl ? 0 : &v, &ts);
      e2[0] = 0; if (!nl) sprintf(e2, "val=%ld", (long)v); ev_ret(T, rr, e2);
      if (rr != 0) {
        w1.n = 2; strcpy(w1.w[0], "join"); if (nl) strcpy(w1.w[w1.n++], "null"); ev_call(T, &w1);
        rr = myth_join(thr_ptr[num(o->w[1])], nl ? 0 : &v); e2[0] = 0; if (!nl) sprintf(e2, "val=%ld", (long)v); ev_ret(T, rr, e2);
      }
      r = rr;
    } else if (!strcmp(op, "cancel")) {
      /* cancellation (C01): cancel T / testcancel / setcancel 0|1.  testcancel may not return (the thread then
         takes its exit path with PTHREAD_CANCELED as result: no R line, E finish.enter follows) */
      r = myth_cancel(thr_ptr[num(o->w[1])]);
    } else if (!strcmp(op, "testcancel")) {
      myth_testcancel();
    } else if (!strcmp(op, "setcancel")) {
      int old = -1;
      r = myth_setcancelstate(num(o->w[1]) ? PTHREAD_CANCEL_ENABLE : PTHREAD_CANCEL_DISABLE, &old);
      sprintf(ex, "old=%d", old == PTHREAD_CANCEL_ENABLE ? 1 : 0);
    } else if (!strcmp(op, "detach")) {
      r = myth_detach(thr_ptr[num(o->w[1])]);
    } else if (!strcmp(op, "exit")) {
      int w = my_rank(); step_no++; moves++;
      fprintf(tr, "R %ld w%d t%d ret 0 exiting=%ld\n", step_no, w, T, num(o->w[1]));
  machine_snapshot();
      myth_exit((void *)num(o->w[1]));
    } else if (!strcmp(op, "retval")) {
      *exit_val = (void *)num(o->w[1]);
    } else if (!strcmp(op, "yield")) {
      if (o->n > 1) myth_yield_ex((int)num(o->w[1])); else myth_yield();
    } else if (!strcmp(op, "lock")) {
      obj_t * m = obj_named(o->w[1]); r = myth_mutex_lock(&m->u.m);
      sprintf(ex, "occ=%ld", __sync_add_and_fetch(&m->occ, 1));
    } else if (!strcmp(op, "trylock")) {
      obj_t * m = obj_named(o->w[1]); r = myth_mutex_trylock(&m->u.m);
      held[T][m - objs] = (r == 0);
      if (r == 0) sprintf(ex, "occ=%ld", __sync_add_and_fetch(&m->occ, 1));
    } else if (!strcmp(op, "timedlock")) {
      obj_t * m = obj_named(o->w[1]); struct timespec ts; mk_deadline(T, o, &ts);
      r = myth_mutex_timedlock(&m->u.m, &ts);
      held[T][m - objs] = (r == 0);
      if (r == 0) sprintf(ex, "occ=%ld", __sync_add_and_fetch(&m->occ, 1));
    } else if (!strcmp(op, "unlockif")) {
      /* unlock only if this thread's last trylock / timedlock on the mutex succeeded */
      obj_t * m = obj_named(o->w[1]);
      if (held[T][m - objs]) {
        op_t w1; memset(&w1, 0, sizeof(w1)); w1.n = 2; strcpy(w1.w[0], "unlock"); strcpy(w1.w[1], m->name);
        ev_call(T, &w1); held[T][m - objs] = 0;
        __sync_sub_and_fetch(&m->occ, 1); int rr = myth_mutex_unlock(&m->u.m); ev_ret(T, rr, "");
      }
    } else if (!strcmp(op, "unlock")) {
      obj_t * m = obj_named(o->w[1]); __sync_sub_and_fetch(&m->occ, 1); r = myth_mutex_unlock(&m->u.m);
    } else if (!strcmp(op, "cwait")) {
      obj_t * c = obj_named(o->w[1]), * m = obj_named(o->w[2]);
      __sync_sub_and_fetch(&m->occ, 1);
      r = myth_cond_wait(&c->u.c, &m->u.m);
      sprintf(ex, "occ=%ld", __sync_add_and_fetch(&m->occ, 1));
    } else if (!strcmp(op, "await")) {
      /* await C M X rel V : while (!(X rel V)) cond_wait(C, M)   (M held) */
      obj_t * c = obj_named(o->w[1]), * m = obj_named(o->w[2]), * x = obj_named(o->w[3]);
      const char * rel = o->w[4]; long V = num(o->w[5]); long waits = 0;
      for (;;) {
        long xv = x->u.v;
        int ok = !strcmp(rel, "eq") ? xv == V : !strcmp(rel, "ge") ? xv >= V : !strcmp(rel, "le") ? xv <= V :
                 !strcmp(rel, "ne") ? xv != V : !strcmp(rel, "gt") ? xv > V : xv < V;
        if (ok) break;
        op_t w1; memset(&w1, 0, sizeof(w1)); w1.n = 3; strcpy(w1.w[0], "cwait"); strcpy(w1.w[1], c->name); strcpy(w1.w[2], m->name);
        ev_call(T, &w1);
        __sync_sub_and_fetch(&m->occ, 1);
        int rr = myth_cond_wait(&c->u.c, &m->u.m);
        char e2[32]; sprintf(e2, "occ=%ld", __sync_add_and_fetch(&m->occ, 1));
        ev_ret(T, rr, e2); waits++;
      }
      sprintf(ex, "waits=%ld", waits);
    } else if (!strcmp(op, "signal")) {
      r = myth_cond_signal(&obj_named(o->w[1])->u.c);
    } else if (!strcmp(op, "bcast")) {
      r = myth_cond_broadcast(&obj_named(o->w[1])->u.c);
    } else if (!strcmp(op, "cdestroy")) {
      /* cdestroy C / cinit C [attr] [dirty] (C05, object lifecycle): destroy / (re-)initialise condition variable C
         through the public API, with attr == NULL or with a myth_condattr_t initialised by myth_condattr_init
         (destroyed right after the call).  `dirty`: the object's memory is overwritten first (after destroy its
         contents are indeterminate: init must set every field).  The caller guarantees that no thread is blocked on
         C (released waiters that have not yet resumed are allowed). */
      r = myth_cond_destroy(&obj_named(o->w[1])->u.c);
    } else if (!strcmp(op, "cinit")) {
      obj_t * c = obj_named(o->w[1]);
      if (has(o, "dirty")) memset(&c->u.c, 0x5a, sizeof(c->u.c));
      if (has(o, "attr")) {
        myth_condattr_t a; memset(&a, 0x5a, sizeof(a));
        myth_condattr_init(&a);
        r = myth_cond_init(&c->u.c, &a);
        myth_condattr_destroy(&a);
      } else {
        r = myth_cond_init(&c->u.c, 0);
      }
      sprintf(ex, "qempty=%d", c->u.c.sleep_q->head == 0 && c->u.c.sleep_q->tail == 0);
    } else if (!strcmp(op, "mdestroy")) {
      /* mdestroy M (C04, object lifecycle): myth_mutex_destroy(M); afterwards the memory belongs to the program
         again and is overwritten with a 0x5a pattern.  The caller guarantees that M is free and nobody is inside
         or entering an operation on it. */
      obj_t * m = obj_named(o->w[1]); r = myth_mutex_destroy(&m->u.m);
      memset(&m->u.m, 0x5a, sizeof(m->u.m));
    } else if (!strcmp(op, "minit")) {
      /* minit M [attr|static] : (re-)initialise mutex M through the public API, with attr == NULL, with a
         myth_mutexattr_t initialised by myth_mutexattr_init (destroyed right after the call), or (static) by
         assigning the static initialiser MYTH_MUTEX_INITIALIZER.  The R line carries the state word and the
         number of queued threads right after the initialisation. */
      obj_t * m = obj_named(o->w[1]);
      if (has(o, "attr")) {
        myth_mutexattr_t a; memset(&a, 0x5a, sizeof(a));
        myth_mutexattr_init(&a);
        r = myth_mutex_init(&m->u.m, &a);
        myth_mutexattr_destroy(&a);
      } else if (has(o, "static")) {
        myth_mutex_t fresh = MYTH_MUTEX_INITIALIZER;
        memcpy(&m->u.m, &fresh, sizeof(fresh)); r = 0;
      } else {
        r = myth_mutex_init(&m->u.m, 0);
      }
      m->occ = 0;
      { long qn = 0; for (myth_sleep_queue_item_t q = m->u.m.sleep_q->head; q && qn < 1000; q = q->next) qn++;
        sprintf(ex, "state=%ld qn=%ld", (long)m->u.m.state, qn); }
    } else if (!strcmp(op, "bwait")) {
      r = myth_barrier_wait(&obj_named(o->w[1])->u.b);
    } else if (!strcmp(op, "bdestroy")) {
      /* bdestroy B / binit B N [attr] (C06, object lifecycle): destroy / (re-)initialise barrier B through the public
         API, with attr == NULL or with a myth_barrierattr_t initialised by myth_barrierattr_init (destroyed right
         after the call).  The caller guarantees that nobody is blocked in or entering a wait on B. */
      obj_t * b = obj_named(o->w[1]); r = myth_barrier_destroy(&b->u.b);
    } else if (!strcmp(op, "binit")) {
      obj_t * b = obj_named(o->w[1]); long N = num(o->w[2]);
      if (has(o, "attr")) {
        myth_barrierattr_t a; memset(&a, 0x5a, sizeof(a));
        myth_barrierattr_init(&a);
        r = myth_barrier_init(&b->u.b, &a, N);
        myth_barrierattr_destroy(&a);
      } else {
        r = myth_barrier_init(&b->u.b, 0, N);
      }
      b->param = N;
      sprintf(ex, "state=%ld n=%ld", (long)b->u.b.state, (long)b->u.b.n_threads);
    } else if (!strcmp(op, "jcwait")) {
      r = myth_join_counter_wait(&obj_named(o->w[1])->u.j);
    } else if (!strcmp(op, "jcdec")) {
      r = myth_join_counter_dec(&obj_named(o->w[1])->u.j);
    } else if (!strcmp(op, "jcinit")) {
      /* jcinit J N [attr] (C07, object lifecycle): (re-)initialise join counter J for N decrements through the
         public API, with attr == NULL or with a myth_join_counterattr_t initialised by myth_join_counterattr_init
         (destroyed right after the call).  The caller guarantees that nobody is inside wait/dec on J. */
      obj_t * j = obj_named(o->w[1]); long N = num(o->w[2]);
      if (has(o, "attr")) {
        myth_join_counterattr_t a; memset(&a, 0x5a, sizeof(a));
        myth_join_counterattr_init(&a);
        r = myth_join_counter_init(&j->u.j, &a, (int)N);
        myth_join_counterattr_destroy(&a);
      } else {
        r = myth_join_counter_init(&j->u.j, 0, (int)N);
      }
      j->param = N;
      sprintf(ex, "state=%ld n=%ld bits=%d mask=%ld", (long)j->u.j.state, (long)j->u.j.n_threads, (int)j->u.j.n_threads_bits, (long)j->u.j.state_mask);
    } else if (!strcmp(op, "uwait")) {
      r = myth_uncond_wait(&obj_named(o->w[1])->u.u);
    } else if (!strcmp(op, "usignal")) {
      r = myth_uncond_signal(&obj_named(o->w[1])->u.u);
    } else if (!strcmp(op, "fewl")) {
      obj_t * f = obj_named(o->w[1]); r = myth_felock_wait_and_lock(&f->u.f, (int)num(o->w[2]));
      sprintf(ex, "occ=%ld status=%d", __sync_add_and_fetch(&f->occ, 1), f->u.f.status);
    } else if (!strcmp(op, "fems")) {
      obj_t * f = obj_named(o->w[1]); __sync_sub_and_fetch(&f->occ, 1);
      r = myth_felock_mark_and_signal(&f->u.f, (int)num(o->w[2]));
    } else if (!strcmp(op, "felock")) {
      obj_t * f = obj_named(o->w[1]); r = myth_felock_lock(&f->u.f);
      sprintf(ex, "occ=%ld status=%d", __sync_add_and_fetch(&f->occ, 1), f->u.f.status);
    } else if (!strcmp(op, "feunlock")) {
      obj_t * f = obj_named(o->w[1]); __sync_sub_and_fetch(&f->occ, 1); r = myth_felock_unlock(&f->u.f);
    } else if (!strcmp(op, "festatus")) {
      /* festatus F : r = myth_felock_status(F) (an unlocked read of the status word, no POINT) (C09) */
      obj_t * f = obj_named(o->w[1]); r = myth_felock_status(&f->u.f);
    } else if (!strcmp(op, "fedestroy")) {
      /* fedestroy F : myth_felock_destroy(F); the object's memory is left as it is (C09 object lifecycle) */
      obj_t * f = obj_named(o->w[1]); r = myth_felock_destroy(&f->u.f);
    } else if (!strcmp(op, "feinit")) {
      /* feinit F [attr] : myth_felock_init(F, NULL) or, with `attr`, with an initialised myth_felockattr_t;
         the R line carries the status word right after the initialisation */
      obj_t * f = obj_named(o->w[1]);
      if (o->n > 2 && !strcmp(o->w[2], "attr")) {
        myth_felockattr_t a; memset(&a, 0x5a, sizeof(a)); myth_felockattr_init(&a);
        r = myth_felock_init(&f->u.f, &a); myth_felockattr_destroy(&a);
      } else r = myth_felock_init(&f->u.f, 0);
      f->occ = 0;
      sprintf(ex, "status=%d", f->u.f.status);
    } else if (!strcmp(op, "once")) {
      obj_t * oc = obj_named(o->w[1]); once_T = T; once_script = oc->script;
      r = myth_once(&oc->u.o, once_routine);
      sprintf(ex, "state=%d", oc->u.o.state);
    } else if (!strcmp(op, "set")) {
      obj_named(o->w[1])->u.v = num(o->w[2]);
    } else if (!strcmp(op, "add")) {
      obj_t * x = obj_named(o->w[1]); long v = x->u.v;
      /* read and write are two separate steps so that a missing lock shows as a lost update */
      { int w = my_rank(); maybe_switch(w); step_no++; moves++; fprintf(tr, "E %ld w%d t%d var.read %s %ld\n", step_no, w, T, x->name, v); machine_snapshot(); }
      x->u.v = v + num(o->w[2]); r = x->u.v;
    } else if (!strcmp(op, "get")) {
      r = obj_named(o->w[1])->u.v;
    } else if (!strcmp(op, "poppass")) {
      /* poppass V: the work-stealing API from a user thread - pop the newest entry of the own run queue and
         hand it to worker (V mod workers) with myth_wsapi_runqueue_pass.  Each of the two calls is one step
         (logged before it is made, so that the snapshot on the line is the state it acts on). */
      char b[16]; int v = (int)(num(o->w[1]) % n_workers);
      { int w = my_rank(); maybe_switch(w); step_no++; moves++; fprintf(tr, "E %ld w%d t%d ws.pop\n", step_no, w, T); machine_snapshot(); }
      myth_thread_t h = myth_wsapi_runqueue_pop();
      { int w = my_rank(); maybe_switch(w); step_no++; moves++; fprintf(tr, "E %ld w%d t%d ws.pass %d %s\n", step_no, w, T, v, h ? tname(h, b) : "-"); machine_snapshot(); }
      if (h) {
        r = myth_wsapi_runqueue_pass(v, h);
        if (!r) { fprintf(stderr, "lib_interp: myth_wsapi_runqueue_pass refused\n"); myth_wsapi_runqueue_push(h); }
      }
    } else if (!strcmp(op, "sleep")) {
      struct timespec ts = { num(o->w[1]) / 1000000000L, num(o->w[1]) % 1000000000L };
      /* trailing flag `remsep` / `remalias` (C20): rem = a separate object preset to (-4242, 4242) / rem = the request object
         itself; the R line then carries  rem=<sec>,<nsec> req=<sec>,<nsec>  (contents after the call).  Without flag: rem = NULL */
      int rsep = has(o, "remsep"), rali = has(o, "remalias");
      if (o->n - rsep - rali > 2) { ts.tv_sec = num(o->w[1]); ts.tv_nsec = num(o->w[2]); }   /* sleep <sec> <nsec>: the raw fields (malformed durations, C20) */
      if (rsep || rali) {
        struct timespec cell[2];   /* on the calling user thread's own stack: it may migrate during the sleep */
        cell[0] = ts; cell[1].tv_sec = -4242; cell[1].tv_nsec = 4242;
        volatile struct timespec * q = &cell[0], * m = rali ? &cell[0] : &cell[1];
        r = myth_nanosleep((struct timespec *)q, (struct timespec *)m);
        sprintf(ex, "rem=%ld,%ld req=%ld,%ld", (long)m->tv_sec, (long)m->tv_nsec, (long)q->tv_sec, (long)q->tv_nsec);
      } else
      r = myth_nanosleep(&ts, 0);
    } else if (!strcmp(op, "keycreate")) {
      obj_t * k = obj_named(o->w[1]); r = myth_key_create(&k->u.k, 0); sprintf(ex, "key=%d", (int)k->u.k);
    } else if (!strcmp(op, "setspec")) {
      r = myth_setspecific(obj_named(o->w[1])->u.k, (void *)num(o->w[2]));
    } else if (!strcmp(op, "getspec")) {
      r = (long)myth_getspecific(obj_named(o->w[1])->u.k);
    } else if (!strcmp(op, "nop")) {
    } else {
      fprintf(stderr, "lib_interp: unknown op %s\n", op); exit(2);
    }
    ev_ret(T, r, ex);
    last_r = r;
  }
}

/* ---------------------------------------------------------------- parser -- */
static void parse_ops(char * s, prog_t * p) {
  p->ops = calloc(MAXOPS, sizeof(op_t)); p->n = 0;
  char * save1;
  for (char * seg = strtok_r(s, ";", &save1); seg; seg = strtok_r(0, ";", &save1)) {
    op_t * o = &p->ops[p->n]; o->n = 0;
    char * save2;
    for (char * w = strtok_r(seg, " \t\n", &save2); w && o->n < 6; w = strtok_r(0, " \t\n", &save2))
      strncpy(o->w[o->n++], w, 23);
    if (o->n) p->n++;
    if (p->n >= MAXOPS) break;
  }
  /* keep only what was parsed (thousands of threads x MAXOPS slots would not fit) */
  { op_t * q = realloc(p->ops, (size_t)(p->n ? p->n : 1) * sizeof(op_t)); if (q) p->ops = q; }
}

static void load_case(const char * path) {
  FILE * f = fopen(path, "r");
  if (!f) { perror(path); exit(2); }
  static char line[1 << 16];
  while (fgets(line, sizeof(line), f)) {
    char k[32]; int off = 0;
    if (sscanf(line, "%31s%n", k, &off) != 1 || k[0] == '#') continue;
    char * rest = line + off;
    if (!strcmp(k, "workers")) n_workers = atoi(rest);
    else if (!strcmp(k, "seed")) seed = strtoull(rest, 0, 0);
    else if (!strcmp(k, "pswitch")) pswitch = atoi(rest);
    else if (!strcmp(k, "rpoint")) rpoint = atoi(rest);
    else if (!strcmp(k, "msnap")) msnap = atoi(rest);
    else if (!strcmp(k, "hold") && n_hold < 4) {
      hold_pct[n_hold] = 100;
      if (sscanf(rest, "%31s %ld %d", hold_id[n_hold], &hold_moves[n_hold], &hold_pct[n_hold]) >= 2) n_hold++;
    }
    else if (!strcmp(k, "snapmax")) { snapmax = atoi(rest); snapmax_set = 1; }
    else if (!strcmp(k, "maxsteps")) maxsteps = atol(rest);
    else if (!strcmp(k, "clockstep")) clock_step = atol(rest);
    else if (!strcmp(k, "clocklog")) clocklog = atoi(rest);
    else if (!strcmp(k, "parentfirst")) dflt_parent_first = atoi(rest);
    /* GLOBAL default creation order (C01): `gchildfirst V` through myth_globalattr_set_child_first(&ga, V),
       `envchildfirst V` through the environment variable MYTH_CHILD_FIRST=V read by myth_globalattr_init */
    else if (!strcmp(k, "gchildfirst")) g_child_first_opt = atoi(rest);
    else if (!strcmp(k, "envchildfirst")) { char b[16]; sprintf(b, "%d", atoi(rest)); setenv("MYTH_CHILD_FIRST", b, 1); }
    else if (!strcmp(k, "obj")) {
      obj_t * o = &objs[n_objs]; char kn[24]; long p1 = 0, p2 = 0;
      int n = sscanf(rest, "%23s %23s %ld %ld", o->name, kn, &p1, &p2);
      if (n < 2) continue;
      o->param = p1; o->owner = -1; o->script = p1;
      for (int i = 0; i < 9; i++) if (!strcmp(kn, kind_name[i])) o->kind = i;
      n_objs++;
    } else if (!strcmp(k, "thread") || !strcmp(k, "script")) {
      int idx; int off2;
      if (sscanf(rest, "%d :%n", &idx, &off2) < 1) continue;
      if (!strcmp(k, "thread")) { parse_ops(rest + off2, &progs[idx]); if (idx + 1 > n_threads) n_threads = idx + 1; }
      else parse_ops(rest + off2, &scripts[idx]);
    }
  }
  fclose(f);
}

static void init_objs(void) {
  for (int i = 0; i < n_objs; i++) {
    obj_t * o = &objs[i];
    switch (o->kind) {
    case K_MUTEX: myth_mutex_init(&o->u.m, 0); o->addr = &o->u.m; o->size = sizeof(o->u.m); break;
    case K_COND: myth_cond_init(&o->u.c, 0); o->addr = &o->u.c; o->size = sizeof(o->u.c); break;
    case K_BARRIER: myth_barrier_init(&o->u.b, 0, o->param); o->addr = &o->u.b; o->size = sizeof(o->u.b); break;
    case K_JC: myth_join_counter_init(&o->u.j, 0, o->param); o->addr = &o->u.j; o->size = sizeof(o->u.j); break;
    case K_UNCOND: myth_uncond_init(&o->u.u); o->addr = &o->u.u; o->size = sizeof(o->u.u); break;
    case K_FELOCK: myth_felock_init(&o->u.f, 0); o->addr = &o->u.f; o->size = sizeof(o->u.f); break;
    case K_ONCE: memset(&o->u.o, 0, sizeof(o->u.o)); o->addr = &o->u.o; o->size = sizeof(o->u.o); break;
    case K_VAR: o->u.v = o->param; o->addr = (void *)&o->u.v; o->size = sizeof(o->u.v); break;
    default: break;
    }
  }
}

int main(int argc, char ** argv) {
  if (argc < 3) { fprintf(stderr, "usage: %s case trace\n", argv[0]); return 2; }
  load_case(argv[1]);
  tr = fopen(argv[2], "w");
  if (!tr) { perror(argv[2]); return 2; }
  setvbuf(tr, 0, _IOFBF, 1 << 20);
  rng_s = seed;
  for (int i = 0; i < MAXW; i++) { sem_init(&sem[i], 0, 0); pending_tag[i] = -1; st[i] = 3; }
  g_myth_verif_cb = ctl_cb;
  g_myth_verif_clock = ctl_clock;
  myth_globalattr_t ga; myth_globalattr_init(&ga);
  myth_globalattr_set_n_workers(&ga, n_workers);
  if (g_child_first_opt >= 0) { extern int myth_globalattr_set_child_first(myth_globalattr_t *, int); myth_globalattr_set_child_first(&ga, g_child_first_opt); }
  myth_wsapi_set_stealfunc(ctl_steal);
  myth_init_ex(&ga);
  g_myth_random_temp = (unsigned)(seed * 31 + 1);
  thr_ptr[0] = myth_self(); started[0] = 1;
  init_objs();
  /* wait until every other worker is parked at the idle point, then start the controlled run */
  while (n_parked_idle < n_workers - 1) usleep(100);
  st[0] = 0;
  fprintf(tr, "H workers=%d threads=%d seed=%llu pswitch=%d\n", n_workers, n_threads, (unsigned long long)seed, pswitch);
  ctl_on = 1;
  void * rv = 0;
  run_ops(0, &progs[0], &rv);
  main_done = 1; finished[0] = 1;
  /* let the remaining runnable work (detached threads) drain: behave like an idle participant */
  for (;;) { int w = my_rank(); spin_switch(w); step_no++; fprintf(tr, "S %ld w%d t0 main.done -\n", step_no, w); machine_snapshot(); myth_yield(); }
  return 0;
}
