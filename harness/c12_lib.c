/* C12 whole-library harness.  One program per process (MYTH_NUM_WORKERS chosen by the caller).
 *
 * usage: c12_lib <op> <op> ...
 *   C<id>:<size>:<det>:<cf>:<yields>:<kids>:<ksize>
 *        create thread <id>: stack size <size> bytes through myth_thread_attr_setstacksize
 *        (0: default stack; -1: NULL attribute), det 0 joinable / 2 created detached
 *        (attr detachstate) / 3 detaches itself before returning, cf child_first 0/1,
 *        body: paint the whole stack with a pattern, yield <yields> times verifying the pattern
 *        after every resumption, create <kids> children with stack size <ksize> and join them,
 *        verify again, return MAGIC ^ id
 *   J<id>   myth_join(id), the result must be MAGIC ^ id
 *   D<id>   myth_detach(id) from the main thread (the target may or may not have finished)
 *   Y<n>    the main thread yields n times
 *   E<stacksize>:<nworkers>
 *           new epoch: wait until every thread is through its finish callback, myth_fini(),
 *           myth_init_ex() with this default stack size and worker count (as the first op: the
 *           initial myth_init_ex instead of myth_init()).  Logged as an "epoch" event
 *           (val = workers, extra = default stack size now in force): extents of default stacks
 *           are always computed with the size of the CURRENT epoch.
 *
 * A callback installed in g_myth_verif_cb records every alloc/free/finish/callback event
 * (sequence = order of a global lock, worker rank, object, value, the address of a local of
 * the callback = the stack the worker is executing on) and
 *   - at free.stack poisons the released stack (unless the worker is executing on that very
 *     stack, which is recorded instead: selfrel),
 *   - at alloc.stack checks that a recycled stack still holds the poison.
 * Output: "H ..." header, "E ..." one line per event, "R ..." result counters.
 * Nothing here judges the property; tools/props/c12.py does (oracle + extracted ledger model). */
#include <stdio.h>
#include <stdlib.h>
#include <string.h>
#include <stdint.h>
#include <signal.h>
#include <unistd.h>
#include <pthread.h>
#include "myth/myth.h"
#include "myth_config.h"
#include "myth_sched_func.h"

#define MAGIC 0x5a5a0000L
#define BIG (256 * 1024)         /* stacks larger than this are painted/poisoned at both ends only */
#define EDGE (64 * 1024)
#define RED 1536                 /* bytes below the body's frame left for its callees */

static const char * const ids[] = {
  "alloc.desc", "alloc.stack", "free.desc", "free.stack", "create.init", "create.start",
  "finish.enter", "cb.enter", "cb.leave", "finish.readjoin", "finish.cb.detached",
  "finish.cb.freedesc", "finish.cb.ready2", "join.reap", "detach.reap", "detach.set",
  "detach.fast", "detach.check", "join.check", "join.cb.set", "yield.enter", "epoch", "probe", 0 };
#define EPOCH_ID 21
#define PROBE_ID 22
enum { ALLOC_DESC, ALLOC_STACK, FREE_DESC, FREE_STACK, CREATE_INIT, CREATE_START, FINISH_ENTER,
       CB_ENTER, CB_LEAVE, FIN_READJOIN, FIN_CB_DET, FIN_CB_FREEDESC, FIN_CB_READY2 };

typedef struct { int id, rank; const void * obj; long val; uintptr_t sp, extra; } ev_t;
static ev_t * evlog;
static size_t nlog, caplog = 600000;
static volatile int lk;
static volatile int recording, overflow;
static volatile long n_alloc_desc, n_probe_bad, n_selfrel, n_poison_bad, n_canary_bad, n_result_bad, n_fin_done, n_done, n_created, n_joined;
static uintptr_t first_bad_addr;

static void lock(void) { while (__sync_lock_test_and_set(&lk, 1)) { while (lk) ; } }
static void unlock(void) { __sync_lock_release(&lk); }

/* stacks seen so far, keyed by block start */
typedef struct { uintptr_t start, top, len, plo, phi; const void * owner; int live, freed; } srec_t;
#define HS (1 << 15)
static srec_t stab[HS];
static struct { const void * desc; srec_t * s; } dtab[HS];
static const void * pending_desc[64];
static int pending_det[64];

static size_t round_page_(size_t n) { return (n + 0xFFF) & ~(size_t)0xFFF; }

static srec_t * stack_rec(uintptr_t start, int create) {
  size_t h = (start >> 12) * 2654435761u % HS, i;
  for (i = 0; i < HS; i++, h = (h + 1) % HS) {
    if (stab[h].start == start) return &stab[h];
    if (stab[h].start == 0) { if (!create) return 0; stab[h].start = start; return &stab[h]; }
  }
  return 0;
}
static void desc_set(const void * d, srec_t * s) {
  size_t h = ((uintptr_t)d >> 6) * 2654435761u % HS, i;
  for (i = 0; i < HS; i++, h = (h + 1) % HS)
    if (dtab[h].desc == d || dtab[h].desc == 0) { dtab[h].desc = d; dtab[h].s = s; return; }
}
static srec_t * desc_get_(const void * d) {
  size_t h = ((uintptr_t)d >> 6) * 2654435761u % HS, i;
  for (i = 0; i < HS; i++, h = (h + 1) % HS) {
    if (dtab[h].desc == d) return dtab[h].s;
    if (dtab[h].desc == 0) return 0;
  }
  return 0;
}

static void fill(uintptr_t lo, uintptr_t hi, int byte) {
  if (hi <= lo) return;
  if (hi - lo > BIG) { memset((void*)lo, byte, EDGE); memset((void*)(hi - EDGE), byte, EDGE); }
  else memset((void*)lo, byte, hi - lo);
}
static long count_not(uintptr_t lo, uintptr_t hi, int byte, uintptr_t skip, uintptr_t skip2) {
  long bad = 0; uintptr_t a;
  if (hi <= lo) return 0;
  for (a = lo; a < hi; a++) {
    if (hi - lo > BIG && a == lo + EDGE) a = hi - EDGE;
    if ((a >= skip && a < skip + 8) || (a >= skip2 && a < skip2 + 8)) continue;
    if (*(volatile unsigned char *)a != (unsigned char)byte) { if (!bad && !first_bad_addr) first_bad_addr = a; bad++; }
  }
  return bad;
}

static void cb(int kind, const char * id, const void * obj, long val) {
  volatile char marker;
  uintptr_t sp = (uintptr_t)&marker, extra = 0;
  int k, rank;
  (void)kind;
  if (!recording) return;
  for (k = 0; ids[k]; k++) if (ids[k] == id || strcmp(ids[k], id) == 0) break;
  if (!ids[k]) return;
  rank = g_worker_rank;
  lock();
  switch (k) {
  case ALLOC_DESC:
    n_alloc_desc++;
    pending_desc[rank & 63] = obj; extra = pending_det[rank & 63];
    break;
  case ALLOC_STACK: {
    uintptr_t top = (uintptr_t)obj, word = *(uintptr_t*)(top + 8);
    size_t len = val ? round_page_((size_t)val) : g_attr.stacksize;
    uintptr_t start = top + 16 - len;
    srec_t * s = stack_rec(start, 1);
    extra = word;
    if (s) {
      if (s->freed) n_poison_bad += count_not(s->plo, s->phi, 0xDB, top + 8, s->plo /* free-list link */);
      s->top = top; s->len = len; s->live = 1; s->freed = 0; s->owner = pending_desc[rank & 63];
      desc_set(s->owner, s);
    }
    break; }
  case FREE_STACK: {
    uintptr_t top = (uintptr_t)obj;
    if (top) {
      uintptr_t word = *(uintptr_t*)(top + 8);
      size_t len = word ? word : g_attr.stacksize;
      uintptr_t start = top + 16 - len;
      srec_t * s = stack_rec(start, 0);
      extra = word;
      if (sp >= start && sp < top + 16) n_selfrel++;       /* executing on the stack being released */
      else if (s && s->live && s->top == top) {
        fill(start, top, 0xDB);
        s->plo = start; s->phi = top; s->freed = 1; s->live = 0;
      }
    }
    break; }
  case FIN_CB_DET:
    extra = ((myth_thread_t)obj)->detached;
    break;
  case FIN_CB_FREEDESC: case FIN_CB_READY2:
    n_fin_done++;
    break;
  default: break;
  }
  if (nlog < caplog) {
    ev_t * e = &evlog[nlog++];
    e->id = k; e->rank = rank; e->obj = obj; e->val = val; e->sp = sp; e->extra = extra;
  } else overflow = 1;
  unlock();
}

/* ---- program ---- */
typedef struct spec {
  int id, det, cf, yields, kids; long size, ksize;
  myth_thread_t th; int created, joined;
} spec_t;
#define MAXT 20000
static spec_t specs[MAXT];
static spec_t kidspecs[MAXT];
static volatile long n_kidspecs;

static uint64_t pat(int id, uintptr_t a) { return ((uint64_t)(unsigned)id + 1) * 0x9E3779B97F4A7C15ull ^ (uint64_t)a; }

static void paint(srec_t * s, uintptr_t here, int id, uintptr_t * plo, uintptr_t * phi) {
  uintptr_t lo = (s->start + 7) & ~(uintptr_t)7, hi = (here - RED) & ~(uintptr_t)7, a;
  *plo = lo; *phi = hi;
  if (hi <= lo) { *phi = lo; return; }
  for (a = lo; a < hi; a += 8) {
    if (hi - lo > BIG && a == lo + EDGE) a = hi - EDGE;
    *(volatile uint64_t *)a = pat(id, a);
  }
}
static void verify(uintptr_t lo, uintptr_t hi, int id) {
  uintptr_t a; long bad = 0;
  for (a = lo; a < hi; a += 8) {
    if (hi - lo > BIG && a == lo + EDGE) a = hi - EDGE;
    if (*(volatile uint64_t *)a != pat(id, a)) { if (!first_bad_addr) first_bad_addr = a; bad++; }
  }
  if (bad) __sync_fetch_and_add(&n_canary_bad, bad);
}

static void * body(void * a);
static void * tiny_body(void * a) { volatile char buf[64]; buf[0] = 1; (void)buf; return a; }

static void create(spec_t * sp) {
  myth_thread_attr_t at;
  int r;
  if (sp->size >= 0) {
    myth_thread_attr_init(&at);
    myth_thread_attr_setstacksize(&at, (size_t)sp->size);
    at.child_first = sp->cf;
    if (sp->det == 2) myth_thread_attr_setdetachstate(&at, 1);
  }
  pending_det[g_worker_rank & 63] = (sp->size >= 0 && sp->det == 2);
  __sync_fetch_and_add(&n_created, 1);
  sp->created = 1;
  r = myth_create_ex(&sp->th, sp->size >= 0 ? &at : NULL, body, sp);
  if (r) { printf("R createfail %d\n", r); exit(3); }
}
static void join(spec_t * sp) {
  void * res = 0;
  myth_join(sp->th, &res);
  sp->joined = 1;
  __sync_fetch_and_add(&n_joined, 1);
  if ((long)res != (MAGIC ^ sp->id)) __sync_fetch_and_add(&n_result_bad, 1);
}

/* direct probe of the REQUESTED size: the thread asked for sp->size bytes, so it may use
   [top+16 - size, top+16) (the 16 bytes above th->stack hold the size word).  Touch both ends: write
   and read back a pattern at the lowest word, check that the frame it runs in is near the top; the low
   end must not lie in the extent of another live stack.  Logged as a "probe" event:
   val = requested size, extra = bytes between the probed word and top+16. */
static void probe(srec_t * s, spec_t * sp, uintptr_t here) {
  uintptr_t top16 = s->top + 16, lo = (top16 - (uintptr_t)sp->size) & ~(uintptr_t)7;   /* block starts are page aligned */
  volatile uint64_t * p = (volatile uint64_t *)lo;
  uint64_t v = pat(sp->id, lo) ^ 0x5555aaaa5555aaaaull;
  long bad = 0;
  size_t i;
  if (lo + 8 + RED <= here) {        /* (a request smaller than the frames in use has no free low end to write to) */
    *p = v;
    if (*p != v) bad++;
  }
  if (!(here < top16 && top16 - here < 4096)) bad++;          /* high end: where the thread really runs */
  lock();
  for (i = 0; i < HS; i++)
    if (stab[i].start && &stab[i] != s && stab[i].live && lo >= stab[i].start && lo < stab[i].top + 16) bad++;
  if (bad) n_probe_bad += bad;
  if (recording && nlog < caplog) {
    ev_t * e = &evlog[nlog++];
    e->id = PROBE_ID; e->rank = g_worker_rank; e->obj = myth_self(); e->val = sp->size; e->sp = here; e->extra = top16 - lo;
  }
  unlock();
}

static void * body(void * a) {
  spec_t * sp = a;
  volatile char here;
  uintptr_t lo = 0, hi = 0;
  int i;
  srec_t * s;
  lock(); s = desc_get_(myth_self()); unlock();
  if (s && sp->size > 0) probe(s, sp, (uintptr_t)&here);
  if (s) paint(s, (uintptr_t)&here, sp->id, &lo, &hi);
  for (i = 0; i < sp->yields; i++) { myth_yield(); verify(lo, hi, sp->id); }
  if (sp->kids > 0) {
    long base = __sync_fetch_and_add(&n_kidspecs, sp->kids);
    if (base + sp->kids <= MAXT) {
      for (i = 0; i < sp->kids; i++) {
        spec_t * k = &kidspecs[base + i];
        memset(k, 0, sizeof(*k));
        k->id = 1000000 + (int)(base + i); k->size = sp->ksize; k->cf = (i & 1); k->yields = 1 + (i % 3);
        create(k);
        verify(lo, hi, sp->id);
      }
      for (i = sp->kids - 1; i >= 0; i--) { join(&kidspecs[base + i]); verify(lo, hi, sp->id); }
    }
  }
  verify(lo, hi, sp->id);
  if (sp->det == 3) myth_detach(myth_self());
  __sync_fetch_and_add(&n_done, 1);
  return (void*)(MAGIC ^ sp->id);
}

/* the dump may run inside a signal handler of a process whose heap is corrupt: no stdio, no malloc;
   lines are formatted into a static buffer and written with write(2).  Only one dump per process. */
static volatile int dumping;
static char obuf[1 << 16]; static size_t olen;
static void oflush(void) {
  size_t off = 0;
  while (off < olen) { ssize_t k = write(1, obuf + off, olen - off); if (k <= 0) break; off += (size_t)k; }
  olen = 0;
}
static void dump(const char * why) {
  size_t i;
  if (__sync_lock_test_and_set(&dumping, 1)) { for (i = 0; i < 100; i++) usleep(100000); _exit(125); }
  fflush(stdout);
  olen += snprintf(obuf + olen, sizeof(obuf) - olen, "H gsz %zu dsz %zu nw %d events %zu\n", (size_t)g_attr.stacksize,
                   sizeof(struct myth_thread), (int)g_attr.n_workers, nlog);
  for (i = 0; i < nlog; i++) {
    if (olen > sizeof(obuf) - 256) oflush();
    olen += snprintf(obuf + olen, sizeof(obuf) - olen, "E %d %s %lx %ld %lx %lu\n", evlog[i].rank, ids[evlog[i].id],
                     (unsigned long)evlog[i].obj, evlog[i].val, (unsigned long)evlog[i].sp, (unsigned long)evlog[i].extra);
  }
  oflush();
  olen += snprintf(obuf + olen, sizeof(obuf) - olen,
         "R %s created %ld joined %ld done %ld badresult %ld canary %ld poison %ld selfrel %ld probe %ld overflow %d firstbad %lx\n",
         why, n_created, n_joined, n_done, n_result_bad, n_canary_bad, n_poison_bad, n_selfrel, n_probe_bad, overflow,
         (unsigned long)first_bad_addr);
  oflush();
}
static void on_signal(int sig) {
  recording = 0;
  dump(sig == SIGSEGV ? "crash-segv" : sig == SIGBUS ? "crash-bus" : sig == SIGABRT ? "crash-abort" : sig == SIGALRM ? "hang" : "crash");
  _exit(128 + sig);
}
/* let every thread (detached ones too) get through its finish callback */
static void quiesce(void) {
  int i;
  for (;;) {
    long total = n_created;
    if (n_done >= total && n_fin_done >= total) break;
    myth_yield();
  }
  for (i = 0; i < 20; i++) myth_yield();
  usleep(2000);
}

static void start_epoch(const char * op, int first) {
  unsigned long sz = 0; int nw = 1;
  myth_globalattr_t ga;
  if (sscanf(op, "E%lu:%d", &sz, &nw) != 2 || nw < 1 || nw > 32) { printf("R badop %s\n", op); exit(2); }
  if (!first) {
    quiesce();
    recording = 0;
    myth_fini();
  }
  myth_globalattr_init(&ga);
  myth_globalattr_set_stacksize(&ga, (size_t)sz);
  myth_globalattr_set_n_workers(&ga, nw);
  myth_init_ex(&ga);
  lock();
  if (nlog < caplog) {
    ev_t * e = &evlog[nlog++];
    e->id = EPOCH_ID; e->rank = g_worker_rank; e->obj = 0; e->val = nw; e->sp = 0; e->extra = g_attr.stacksize;
  }
  unlock();
  recording = 1;
}

/* a native thread: the library may use SIGALRM itself */
static void * watchdog(void * a) {
  int i;
  (void)a;
  for (i = 0; i < 200; i++) usleep(100000);
  recording = 0;
  dump("hang");
  _exit(124);
  return 0;
}

int main(int argc, char ** argv) {
  int i;
  static char altstack[1 << 16];
  stack_t ss; struct sigaction sa;
  evlog = malloc(caplog * sizeof(ev_t));
  ss.ss_sp = altstack; ss.ss_size = sizeof(altstack); ss.ss_flags = 0;
  sigaltstack(&ss, 0);
  memset(&sa, 0, sizeof(sa)); sa.sa_handler = on_signal; sa.sa_flags = SA_ONSTACK;
  { pthread_t wd; pthread_create(&wd, 0, watchdog, 0); }
  g_myth_verif_cb = cb;
  i = 1;
  if (argc > 1 && argv[1][0] == 'E') { start_epoch(argv[1], 1); i = 2; }
  else myth_init();
  sigaction(SIGSEGV, &sa, 0); sigaction(SIGBUS, &sa, 0); sigaction(SIGABRT, &sa, 0); sigaction(SIGILL, &sa, 0);
  recording = 1;
  for (; i < argc; i++) {
    const char * op = argv[i];
    int id, det, cf, y, kids, n; long size, ksize;
    if (sscanf(op, "C%d:%ld:%d:%d:%d:%d:%ld", &id, &size, &det, &cf, &y, &kids, &ksize) == 7 && id >= 0 && id < MAXT) {
      spec_t * sp = &specs[id];
      memset(sp, 0, sizeof(*sp));
      sp->id = id; sp->size = size; sp->det = det; sp->cf = cf; sp->yields = y; sp->kids = kids; sp->ksize = ksize;
      create(sp);
    } else if (sscanf(op, "J%d", &id) == 1 && id >= 0 && id < MAXT) {
      join(&specs[id]);
    } else if (sscanf(op, "D%d", &id) == 1 && id >= 0 && id < MAXT) {
      myth_detach(specs[id].th);
    } else if (sscanf(op, "Y%d", &n) == 1) {
      while (n-- > 0) myth_yield();
    } else if (op[0] == 'O') {
      /* O<size>: the size guard of the public API.  (1) the setter on an attribute holding the default:
         return code, field before / after; (2) myth_create_ex with an attribute whose stacksize field
         was written by hand: return code, number of alloc.desc events it caused; (3) if the setter
         accepted the size: creation through it, join (mmap is lazy, the stack is not painted).
         One line per step; a crash is reported by the signal handler after the lines printed so far. */
      unsigned long sz = strtoul(op + 1, 0, 0);
      myth_thread_attr_t at, hand; myth_thread_t th = 0; void * res = 0;
      int rs, rc = -1, rj = -1, rh; size_t before, after; long d0;
      myth_thread_attr_init(&at);
      before = at.stacksize;
      rs = myth_thread_attr_setstacksize(&at, (size_t)sz);
      after = at.stacksize;
      printf("O size %lu set %d before %zu after %zu\n", sz, rs, before, after); fflush(stdout);
      myth_thread_attr_init(&hand);
      hand.stacksize = (size_t)sz;
      pending_det[g_worker_rank & 63] = 0;
      d0 = n_alloc_desc; th = 0;
      rh = myth_create_ex(&th, &hand, tiny_body, (void *)7);
      if (rh == 0) { rj = myth_join(th, &res); }
      printf("O size %lu hand create %d allocdesc %ld join %d result %ld\n", sz, rh, n_alloc_desc - d0, rj, (long)res); fflush(stdout);
      rj = -1; res = 0; th = 0;
      if (rs == 0) {
        rc = myth_create_ex(&th, &at, tiny_body, (void *)7);
        if (rc == 0) rj = myth_join(th, &res);
      }
      printf("O size %lu via-setter create %d join %d result %ld\n", sz, rc, rj, (long)res); fflush(stdout);
    } else if (op[0] == 'E') {
      start_epoch(op, 0);
    } else { printf("R badop %s\n", op); return 2; }
  }
  quiesce();
  recording = 0;
  g_myth_verif_cb = 0;
  myth_fini();
  dump("ok");
  return 0;
}
