/* C19 harness: DAG Recorder dump / read / convert round trip, built together with the profiler
 * sources of the CURRENT tree (tools/props/c19.py compiles <REPO>/src/profiler/*.c next to this file).
 *
 *   c19_dump --layout            prints the LAYOUT line (sizeof/offsetof probe of the current headers)
 *   c19_dump <scratch-dir>       reads one case per line on stdin; every case runs in a forked child
 *
 * Case line (all integers decimal, names without blanks):
 *   history <hid> <k> <cleanup> ;; <case> ;; <case> ...     k sessions recorded by ONE process (see run_history)
 *   case <id> hex <H> [keep <K>] nw <NW> sc <START_CLOCK> chk <CHK> [wsa <0|1>] [alt <0|1>] [dump2 <0|1>]
 *        (keep 1: the .dag file stays in the scratch dir as c<id>.dag; wsa 0: worker states in the linear list
 *         found through a pthread key instead of the array; alt 0: every file name is ONE pointer, like __FILE__,
 *         alt 1: two copies used alternately; dump2 1: dr_dump() twice, the first file is printed as G0/N0/E0/S0)
 *        rec <uncollapse_min> <collapse_max> <node_count_target> <prune_threshold> <collapse_max_count>
 *        conv <uncollapse_min> <collapse_max> <collapse_max_count>
 *        files <NF> <name>*NF
 *        prog <task>
 *   task  := T <w> <ds> <f> <l> <item>* E <d> <f> <l>         start on worker w, ds ticks after the create (root: dr_start)
 *   item  := O <d> <f> <l> <d2> <w2> <f2> <l2>                 enter_other after d ticks; return d2 later on worker w2
 *          | S <b> <item>* W <d> <f> <l> <d2> <w2> <f2> <l2>   section (b=1: explicit dr_begin_section); wait; return
 *          | C <d> <f> <l> <task> <d2> <w2> <f2> <l2>          create (only inside a section); child runs at once;
 *                                                              the continuation resumes d2 after the create on worker w2
 * A serial simulator: every thread of control carries its own virtual time; the clock hook returns the
 * time the simulator has set for the call being made.
 *
 * Output per case, between "BEGIN <id>" and "END <id>" (a crashed child yields "CRASH <id> <status>"):
 *   TREE  <preorder: kind nchildren fs fe v0..v53>*    the recorded in-memory tree walked by THIS file
 *   G/N/E/S lines of the dag file re-read with dr_read_dag ; FILE <hex> (if n <= H)
 *   EV lines: chronological traverse ; STATEQ ; then the same (G2 ...) for dr_copy_pi_dag of the re-read dag
 *   and G3.. for the converted dag dumped with dr_gen_pi_dag and read again.
 */
#include <stdio.h>
#include <stdlib.h>
#include <string.h>
#include <stddef.h>
#include <unistd.h>
#include <sys/wait.h>
#include <sys/stat.h>

#define DAG_RECORDER 2
#include "dag_recorder_impl.h"

/* ---- canonical field list of dr_pi_dag_node (name order is fixed by the Coq model) ---- */
#define CLOCKPOS(X, P, p) \
  X(p.t) X(p.counters[0]) X(p.counters[1]) X(p.counters[2]) X(p.counters[3]) \
  X(p.worker) X(p.cpu) P(p.pos.file) X(p.pos.file_idx) X(p.pos.line)
#define INFO_FIELDS(X, P) \
  CLOCKPOS(X, P, info.start) CLOCKPOS(X, P, info.end) \
  X(info.est) X(info.t_1) X(info.t_inf) X(info.first_ready_t) X(info.last_start_t) \
  X(info.t_ready[0]) X(info.t_ready[1]) X(info.t_ready[2]) X(info.t_ready[3]) X(info.t_ready[4]) \
  X(info.logical_node_counts[0]) X(info.logical_node_counts[1]) X(info.logical_node_counts[2]) X(info.logical_node_counts[3]) \
  X(info.logical_edge_counts[0]) X(info.logical_edge_counts[1]) X(info.logical_edge_counts[2]) \
  X(info.logical_edge_counts[3]) X(info.logical_edge_counts[4]) \
  X(info.cur_node_count) X(info.min_node_count) X(info.n_child_create_tasks) \
  X(info.worker) X(info.cpu) X(info.kind) X(info.in_edge_kind) \
  X(info.counters_1[0]) X(info.counters_1[1]) X(info.counters_1[2]) X(info.counters_1[3]) \
  X(info.counters_inf[0]) X(info.counters_inf[1]) X(info.counters_inf[2]) X(info.counters_inf[3])
#define NODE_FIELDS(X, P) INFO_FIELDS(X, P) \
  X(edges_begin) X(edges_end) X(subgraphs_begin_offset) X(subgraphs_end_offset)
#define EDGE_FIELDS(X, P) X(kind) X(u) X(v)
#define STRTAB_FIELDS(X, P) X(n) X(sz) P(I) P(C)

#define IS_SIGNED(e) (((__typeof__(e))-1) < (__typeof__(e))0)

static void print_layout(void) {
  union { unsigned int i; unsigned char c[4]; } le; le.i = 1;
  dr_pi_dag G0;
  printf("LAYOUT le %d long %zu ptr %zu", (int)le.c[0], sizeof(long), sizeof(void *));
  printf(" top 4 %zu %zu %zu %zu", sizeof(G0.n), sizeof(G0.m), sizeof(G0.start_clock), sizeof(G0.num_workers));
#define XD(f) printf(" %zu %zu %d", offsetof(TY, f), sizeof(((TY *)0)->f), (int)IS_SIGNED(((TY *)0)->f));
#define PD(f) printf(" %zu %zu 0", offsetof(TY, f), sizeof(((TY *)0)->f));
#define CNT(f) +1
#define TY dr_pi_dag_node
  printf(" node %zu %d", sizeof(TY), 0 NODE_FIELDS(CNT, CNT)); NODE_FIELDS(XD, PD)
#undef TY
#define TY dr_pi_dag_edge
  printf(" edge %zu %d", sizeof(TY), 0 EDGE_FIELDS(CNT, CNT)); EDGE_FIELDS(XD, PD)
#undef TY
#define TY dr_pi_string_table
  printf(" strtab %zu %d", sizeof(TY), 0 STRTAB_FIELDS(CNT, CNT)); STRTAB_FIELDS(XD, PD)
#undef TY
  printf(" union_ok %d", (int)(offsetof(dr_pi_dag_node, child_offset) == offsetof(dr_pi_dag_node, subgraphs_begin_offset)));
  printf(" section %d create %d", (int)dr_dag_node_kind_section, (int)dr_dag_node_kind_create_task);
  printf(" ek %d %d %d %d %d", (int)dr_dag_edge_kind_end, (int)dr_dag_edge_kind_create, (int)dr_dag_edge_kind_create_cont,
         (int)dr_dag_edge_kind_wait_cont, (int)dr_dag_edge_kind_other_cont);
  printf(" hdr %d ", DAG_RECORDER_HEADER_LEN);
  { const char * h = DAG_RECORDER_HEADER; int i; for (i = 0; i < DAG_RECORDER_HEADER_LEN; i++) printf("%02x", (unsigned char)h[i]); }
  printf("\n");
}

static void pv_signed(long long v) { printf(" %lld", v); }
static void pv_unsigned(unsigned long long v) { printf(" %llu", v); }
#define XV(f) do { if (IS_SIGNED(x->f)) pv_signed((long long)x->f); else pv_unsigned((unsigned long long)x->f); } while (0);
#define PV(f) printf(" %d", x->f ? 1 : 0);
#define PZ(f) printf(" 0");
#define XVI(f) XV(f)

static void print_pi_node(const char * tag, long i, dr_pi_dag_node * x) {
  printf("%s %ld", tag, i);
  NODE_FIELDS(XV, PV)
  printf("\n");
}

static void print_hex_str(const char * s) {
  if (!s) { printf(" -"); return; }
  printf(" x");
  for (; *s; s++) printf("%02x", (unsigned char)*s);
}

/* the in-memory tree, walked by this file (not by dr_dump.c).  file pointers and the (unset)
   file_idx words are printed as 0; the two file names follow as hex strings */
static void print_tree(dr_dag_node * x) {
  int k = x->info.kind, nch = 0;
  dr_dag_node * ch;
  if (k == dr_dag_node_kind_create_task) nch = x->child ? 1 : 0;
  else if (k >= dr_dag_node_kind_section) for (ch = x->subgraphs->head; ch; ch = ch->next) nch++;
  printf(" %d %d", k, nch);
  print_hex_str(x->info.start.pos.file);
  print_hex_str(x->info.end.pos.file);
  {
    dr_dag_node y_ = *x; dr_dag_node * y = &y_;
    y->info.start.pos.file_idx = 0; y->info.end.pos.file_idx = 0;
#define x y
    INFO_FIELDS(XV, PZ)
#undef x
  }
  if (k == dr_dag_node_kind_create_task) { if (x->child) print_tree(x->child); }
  else if (k >= dr_dag_node_kind_section) for (ch = x->subgraphs->head; ch; ch = ch->next) print_tree(ch);
}

/* ---- virtual clock ---- */
static unsigned long long g_now;
static unsigned long long vclock(void) { return g_now; }

/* ---- case reader ---- */
static char ** g_tok; static int g_ntok, g_pos;
static const char * tk(void) { if (g_pos >= g_ntok) { printf("PARSE-ERROR eof\n"); exit(3); } return g_tok[g_pos++]; }
static long long tki(void) { return atoll(tk()); }
static void expect(const char * s) { const char * t = tk(); if (strcmp(t, s)) { printf("PARSE-ERROR expected %s got %s\n", s, t); exit(3); } }

/* every file name exists in two copies at different addresses, used alternately (alt 1), so that the string
   table has to compare contents and not pointers; or only the first copy is used (alt 0), like a __FILE__ literal.
   The copies live in a pool of the PROCESS: the same name has the same addresses in every session of a history,
   as the literals of a real program have. */
static char ** g_files; static char ** g_files2; static int g_nfiles; static unsigned g_fcalls; static int g_alt = 1;
typedef struct name_pool { struct name_pool * next; char * a, * b; } name_pool;
static name_pool * g_pool;
static name_pool * pool_get(const char * s) {
  name_pool * p;
  for (p = g_pool; p; p = p->next) if (!strcmp(p->a, s)) return p;
  p = (name_pool *)malloc(sizeof(name_pool));
  p->a = strdup(s); p->b = strdup(s); p->next = g_pool; g_pool = p;
  return p;
}
/* with the linear list of worker states (wsa 0) a state belongs to the calling THREAD and takes the worker id of
   the first call; this harness has one thread, which is worker 0 as dr_get_worker() would number it */
static int g_wsa = 1;
static int WK(long long x) { return g_wsa ? (int)x : 0; }
static const char * fname(long long k) {
  int i = (int)((k % g_nfiles + g_nfiles) % g_nfiles);
  return (g_alt && (g_fcalls++ & 1)) ? g_files2[i] : g_files[i];
}

/* run one task; returns its end time.  *now is the time of the thread of control, w its worker */
static unsigned long long run_task(dr_dag_node * parent, unsigned long long t_create, int is_root, dr_options * opts, int nw);

typedef struct { unsigned long long now; int w; dr_dag_node * task; } toc;

static void run_items(toc * c, int in_section, unsigned long long * max_child_end, int nw);

static unsigned long long run_task(dr_dag_node * parent, unsigned long long t_create, int is_root, dr_options * opts, int nw) {
  toc c[1];
  expect("T");
  c->w = WK(tki());
  { long long ds = tki(); long long f = tki(); long long l = tki();
    c->now = t_create + ds;
    g_now = c->now;
    if (is_root) dr_start__(opts, fname(f), (int)l, c->w, nw);
    else dr_start_task__(parent, fname(f), (int)l, c->w);
  }
  run_items(c, 0, 0, nw);
  expect("E");
  { long long d = tki(); long long f = tki(); long long l = tki();
    c->now += d; g_now = c->now;
    if (is_root) dr_stop__(fname(f), (int)l, c->w);
    else dr_end_task__(fname(f), (int)l, c->w);
  }
  return c->now;
}

static void run_items(toc * c, int in_section, unsigned long long * max_child_end, int nw) {
  for (;;) {
    const char * t = g_tok[g_pos];
    if (!strcmp(t, "O")) {
      g_pos++;
      long long d = tki(), f = tki(), l = tki(), d2 = tki(), w2 = tki(), f2 = tki(), l2 = tki();
      c->now += d; g_now = c->now;
      dr_dag_node * tt = dr_enter_other__(fname(f), (int)l, c->w);
      c->now += d2; g_now = c->now; c->w = WK(w2);
      dr_return_from_other__(tt, fname(f2), (int)l2, c->w);
    } else if (!strcmp(t, "S")) {
      g_pos++;
      long long b = tki();
      unsigned long long mx = 0;
      if (b) dr_begin_section__(c->w);
      run_items(c, 1, &mx, nw);
      expect("W");
      long long d = tki(), f = tki(), l = tki(), d2 = tki(), w2 = tki(), f2 = tki(), l2 = tki();
      c->now += d; g_now = c->now;
      dr_dag_node * tt = dr_enter_wait_tasks__(fname(f), (int)l, c->w);
      if (mx > c->now) c->now = mx;
      c->now += d2; g_now = c->now; c->w = WK(w2);
      dr_return_from_wait_tasks__(tt, fname(f2), (int)l2, c->w);
    } else if (!strcmp(t, "C") && in_section) {
      g_pos++;
      long long d = tki(), f = tki(), l = tki();
      dr_dag_node * cn = 0;
      c->now += d; g_now = c->now;
      dr_dag_node * tt = dr_enter_create_task__(&cn, fname(f), (int)l, c->w);
      unsigned long long ce = run_task(cn, c->now, 0, 0, nw);
      if (ce > *max_child_end) *max_child_end = ce;
      long long d2 = tki(), w2 = tki(), f2 = tki(), l2 = tki();
      c->now += d2; g_now = c->now; c->w = WK(w2);
      dr_return_from_create_task__(tt, fname(f2), (int)l2, c->w);
    } else {
      return;
    }
  }
}

/* ---- printing a pi dag ---- */
static void print_pi_dag(const char * sfx, dr_pi_dag * G) {
  long i;
  printf("G%s %ld %ld %ld %ld\n", sfx, G->n, G->m, G->start_clock, G->num_workers);
  { char tag[8]; snprintf(tag, sizeof tag, "N%s", sfx);
    for (i = 0; i < G->n; i++) print_pi_node(tag, i, &G->T[i]); }
  for (i = 0; i < G->m; i++) {
    dr_pi_dag_edge * x = &G->E[i];
    printf("E%s %ld", sfx, i); EDGE_FIELDS(XV, PV) printf("\n");
  }
  {
    dr_pi_string_table * S = G->S;
    printf("S%s %ld %ld", sfx, S->n, S->sz);
    for (i = 0; i < S->n; i++) printf(" %ld", S->I[i]);
    for (i = 0; i < S->n; i++) print_hex_str(S->C + S->I[i]);
    printf("\n");
  }
}

static void print_file_hex(const char * sfx, const char * path) {
  FILE * fp = fopen(path, "rb"); int ch;
  if (!fp) { printf("FILE%s missing\n", sfx); return; }
  printf("FILE%s ", sfx);
  while ((ch = fgetc(fp)) != EOF) printf("%02x", ch);
  printf("\n");
  fclose(fp);
}

typedef struct { void (*process_event)(chronological_traverser *, dr_event); dr_pi_dag * G; const char * sfx;
  long n_running, n_ready, n_events; } ev_printer;
static void ev_print(chronological_traverser * ct, dr_event ev) {
  ev_printer * p = (ev_printer *)ct;
  printf("EV%s %llu %d %ld %ld %d\n", p->sfx, ev.t, (int)ev.kind, (long)(ev.u - p->G->T),
         ev.pred ? (long)(ev.pred - p->G->T) : -1L, (int)ev.edge_kind);
  switch (ev.kind) {
  case dr_event_kind_ready: p->n_ready++; break;
  case dr_event_kind_start: p->n_running++; break;
  case dr_event_kind_last_start: p->n_ready--; break;
  case dr_event_kind_end: p->n_running--; break;
  default: break;
  }
  p->n_events++;
}
static void traverse(const char * sfx, dr_pi_dag * G) {
  ev_printer p[1];
  p->process_event = ev_print; p->G = G; p->sfx = sfx; p->n_running = p->n_ready = p->n_events = 0;
  dr_pi_dag_chronological_traverse(G, (chronological_traverser *)p);
  printf("EVEND%s %ld %ld %ld\n", sfx, p->n_events, p->n_running, p->n_ready);
}

static int files_equal(const char * a, const char * b) {
  FILE * fa = fopen(a, "rb"), * fb = fopen(b, "rb"); int r = 1, ca, cb;
  if (!fa || !fb) { if (fa) fclose(fa); if (fb) fclose(fb); return -1; }
  do { ca = fgetc(fa); cb = fgetc(fb); if (ca != cb) { r = 0; break; } } while (ca != EOF);
  fclose(fa); fclose(fb);
  return r;
}

static long file_size(const char * a) {
  FILE * f = fopen(a, "rb"); long r = -1;
  if (f) { fseek(f, 0, SEEK_END); r = ftell(f); fclose(f); }
  return r;
}

static char g_self[600];

typedef struct {
  long long id, hexlim; int keep, chk, nw, wsa, alt, dump2;
  char prefix[512], prefix2[512], prefix0[512];
  const char * c_umin, * c_cmax, * c_cmc;
  int end_w;
} session;

static int peek(const char * s) { return g_pos < g_ntok && !strcmp(g_tok[g_pos], s); }

/* parse one "case ..." description, record it (dr_start .. dr_stop), print the in-memory tree, dr_dump().
   [no_init]: the previous session of this process was not cleaned up, GS.opts stay as they are */
static void record_session(const char * dir, session * S, int no_init) {
  dr_options opts[1];
  int i;
  expect("case"); S->id = tki();
  expect("hex"); S->hexlim = tki();
  S->keep = 0; if (peek("keep")) { g_pos++; S->keep = (int)tki(); }
  expect("nw"); S->nw = (int)tki();
  expect("sc"); unsigned long long sc = (unsigned long long)tki();
  expect("chk"); S->chk = (int)tki();
  S->wsa = 1; if (peek("wsa")) { g_pos++; S->wsa = (int)tki(); }
  g_wsa = S->wsa;
  S->alt = 1; if (peek("alt")) { g_pos++; S->alt = (int)tki(); }
  g_alt = S->alt;
  S->dump2 = 0; if (peek("dump2")) { g_pos++; S->dump2 = (int)tki(); }
  dr_options_default_(opts);
  opts->on = 1;
  opts->dag_file_yes = 1; opts->stat_file_yes = 1; opts->gpl_file_yes = 0; opts->dot_file_yes = 0; opts->text_file_yes = 0;
  opts->worker_specific_state_array = (char)S->wsa;
  opts->chk_level = (char)S->chk; opts->dbg_level = 0; opts->verbose_level = 0; opts->papi_on = 0; opts->record_cpu = 0;
  expect("rec");
  opts->uncollapse_min = (dr_clock_t)tki(); opts->collapse_max = (dr_clock_t)tki();
  opts->node_count_target = (long)tki(); opts->prune_threshold = (long)tki(); opts->collapse_max_count = (long)tki();
  expect("conv");
  S->c_umin = tk(); S->c_cmax = tk(); S->c_cmc = tk();
  expect("files");
  g_nfiles = (int)tki();
  g_files = (char **)malloc(sizeof(char *) * (g_nfiles + 1));
  g_files2 = (char **)malloc(sizeof(char *) * (g_nfiles + 1));
  for (i = 0; i < g_nfiles; i++) { name_pool * p = pool_get(tk()); g_files[i] = p->a; g_files2[i] = p->b; }
  expect("prog");
  snprintf(S->prefix, sizeof S->prefix, "%s/c%lld", dir, S->id);
  snprintf(S->prefix2, sizeof S->prefix2, "%s/d%lld", dir, S->id);
  snprintf(S->prefix0, sizeof S->prefix0, "%s/e%lld", dir, S->id);
  opts->dag_file_prefix = strdup(S->prefix);
  if (no_init) GS.opts.dag_file_prefix = opts->dag_file_prefix;

  g_dr_verif_clock = vclock;
  g_now = sc;
  printf("BEGIN %lld\n", S->id);
  fflush(stdout);
  run_task(0, sc, 1, opts, S->nw);
  /* with the linear list of worker states every call of this (single) thread uses one state: one worker */
  printf("TREE %llu %d", (unsigned long long)GS.start_clock, GS.worker_specific_state_array ? S->nw : 1);
  print_tree(GS.root);
  printf("\n");
  fflush(stdout);
  if (S->dump2) {
    /* dr_dump() twice with nothing recorded in between: e<id>.dag first, then c<id>.dag; the reader prints both */
    const char * keep_prefix = GS.opts.dag_file_prefix;
    char st0[600];
    GS.opts.dag_file_prefix = S->prefix0;
    dr_dump_();
    GS.opts.dag_file_prefix = keep_prefix;
    snprintf(st0, sizeof st0, "%s.stat", S->prefix0); unlink(st0);
  }
  dr_dump_();                      /* dr_make_pi_dag + file writer + .stat of the in-memory dag */
  fflush(stdout);
}

/* the file is read back by a FRESH process image (pointers written into the file by this
   process must not be usable by the reader) */
static void exec_reader(session * S) {
  char a_id[32], a_hex[32], a_chk[8], a_keep[8], path0[600];
  snprintf(a_id, sizeof a_id, "%lld", S->id); snprintf(a_hex, sizeof a_hex, "%lld", S->hexlim);
  snprintf(a_chk, sizeof a_chk, "%d", S->chk); snprintf(a_keep, sizeof a_keep, "%d", S->keep);
  snprintf(path0, sizeof path0, "%s.dag", S->prefix0);
  execl(g_self, "c19_dump", "--read", S->prefix, S->prefix2, a_id, a_hex, S->c_umin, S->c_cmax, S->c_cmc, a_chk, a_keep,
        S->dump2 ? path0 : "-", (char *)0);
  printf("EXEC-FAILED\n"); fflush(stdout); _exit(4);
}

static void run_case(const char * dir) {
  session S[1];
  record_session(dir, S, 0);
  exec_reader(S);
}

/* several profiling sessions in ONE process:  history <hid> <k> <cleanup> ;; case .. ;; case ..
   after every session its file is judged by reader processes exactly like a single session's; then
   dr_cleanup() (cleanup = 1) or nothing (cleanup = 0: the next dr_start() recycles the previous dag and
   keeps the options of the first session) */
static void run_history(const char * dir) {
  int k, n, cl;
  expect("history"); tk(); n = (int)tki(); cl = (int)tki();
  for (k = 0; k < n; k++) {
    session S[1];
    expect(";;");
    record_session(dir, S, !cl && k > 0);
    {
      pid_t pid = fork();
      if (pid == 0) { alarm(60); exec_reader(S); }
      else {
        int st = 0;
        waitpid(pid, &st, 0);
        if (!(WIFEXITED(st) && WEXITSTATUS(st) == 0)) {
          printf("\nCRASH %lld %d %d\n", S->id, WIFSIGNALED(st) ? WTERMSIG(st) : 0, WIFEXITED(st) ? WEXITSTATUS(st) : -1);
          fflush(stdout);
        }
      }
    }
    if (cl) dr_cleanup__("cleanup.c", 1, 0, S->nw);
  }
}

static void init_reader_opts(const char * prefix, int chk) {
  dr_opts_init(0);
  GS.opts.dag_file_prefix = prefix;
  GS.opts.dag_file_yes = 1; GS.opts.stat_file_yes = 1; GS.opts.gpl_file_yes = 0; GS.opts.dot_file_yes = 0; GS.opts.text_file_yes = 0;
  GS.opts.chk_level = (char)chk; GS.opts.dbg_level = 0; GS.opts.verbose_level = 0;
}

/* stage 2: read the dumped file, print it, replay it, shrink it (dag2any --shrink), dump the shrunk dag */
static int stage_read(char ** a) {
  const char * prefix = a[0], * prefix2 = a[1];
  long long hexlim = atoll(a[3]);
  int chk = atoi(a[7]);
  int keep = atoi(a[8]);
  char path[600], path2[600], st1[600], st2[600];
  snprintf(path, sizeof path, "%s.dag", prefix);
  snprintf(path2, sizeof path2, "%s.dag", prefix2);
  snprintf(st1, sizeof st1, "%s.stat", prefix);
  snprintf(st2, sizeof st2, "%s.stat", prefix2);
  init_reader_opts(prefix2, chk);
  if (a[9] && strcmp(a[9], "-")) {
    /* the first of two dumps of the same session */
    dr_pi_dag * G0 = dr_read_dag(a[9]);
    if (!G0) { printf("READ-FAILED first dump\n"); fflush(stdout); return 0; }
    print_pi_dag("0", G0);
    printf("SIZE0 %ld %ld\n", file_size(a[9]), file_size(path));
    unlink(a[9]);
  }
  dr_pi_dag * G = dr_read_dag(path);
  if (!G) { printf("READ-FAILED\n"); fflush(stdout); return 0; }
  print_pi_dag("", G);
  if (G->n <= hexlim) print_file_hex("", path);
  traverse("", G);
  dr_gen_basic_stat(G);          /* .stat regenerated from the re-read dag must be identical */
  printf("STATEQ %d\n", files_equal(st1, st2));
  fflush(stdout);
  GS.opts.uncollapse_min = (dr_clock_t)strtoull(a[4], 0, 10);
  GS.opts.collapse_max = (dr_clock_t)strtoull(a[5], 0, 10);
  GS.opts.collapse_max_count = atol(a[6]);
  {
    dr_pi_dag G2[1];
    dr_copy_pi_dag(G2, G);
    print_pi_dag("2", G2);
    traverse("2", G2);
    fflush(stdout);
    dr_gen_basic_stat(G2);
    dr_gen_pi_dag(G2);
  }
  fflush(stdout);
  if (!keep) unlink(path);
  unlink(st1); unlink(st2);
  execl(g_self, "c19_dump", "--print", path2, "3", a[3], a[2], (char *)0);
  printf("EXEC-FAILED\n"); fflush(stdout);
  return 4;
}

/* stage 3: read and print the dumped shrunk dag */
static int stage_print(char ** a) {
  const char * path = a[0], * sfx = a[1];
  long long hexlim = atoll(a[2]);
  init_reader_opts("unused", 0);
  dr_pi_dag * G = dr_read_dag(path);
  if (!G) { printf("READ-FAILED %s\n", sfx); fflush(stdout); return 0; }
  print_pi_dag(sfx, G);
  if (G->n <= hexlim) print_file_hex(sfx, path);
  unlink(path);
  printf("END %s\n", a[3]);
  fflush(stdout);
  return 0;
}

int main(int argc, char ** argv) {
  char * line = 0; size_t cap = 0; ssize_t len;
  { ssize_t r = readlink("/proc/self/exe", g_self, sizeof g_self - 1); if (r < 0) r = 0; g_self[r] = 0; }
  if (argc >= 2 && !strcmp(argv[1], "--layout")) { print_layout(); return 0; }
  if (argc >= 12 && !strcmp(argv[1], "--read")) return stage_read(argv + 2);
  if (argc >= 6 && !strcmp(argv[1], "--print")) return stage_print(argv + 2);
  if (argc < 2) { fprintf(stderr, "usage: %s --layout | <scratch dir>\n", argv[0]); return 2; }
  mkdir(argv[1], 0777);
  while ((len = getline(&line, &cap, stdin)) > 0) {
    char * s; int n = 0, capn = 64;
    char ** toks = (char **)malloc(sizeof(char *) * capn);
    for (s = strtok(line, " \t\r\n"); s; s = strtok(0, " \t\r\n")) {
      if (n + 2 >= capn) { capn *= 2; toks = (char **)realloc(toks, sizeof(char *) * capn); }
      toks[n++] = s;
    }
    if (n == 0) { free(toks); continue; }
    toks[n] = "";
    fflush(stdout);
    {
      pid_t pid = fork();
      if (pid == 0) {
        g_tok = toks; g_ntok = n; g_pos = 0;
        alarm(120);
        if (!strcmp(toks[0], "history")) run_history(argv[1]); else run_case(argv[1]);
        fflush(stdout);
        _exit(0);
      } else {
        int st = 0;
        waitpid(pid, &st, 0);
        if (!(WIFEXITED(st) && WEXITSTATUS(st) == 0)) {
          printf("\nCRASH %s %d %d\n", n > 1 ? toks[1] : "?", WIFSIGNALED(st) ? WTERMSIG(st) : 0, WIFEXITED(st) ? WEXITSTATUS(st) : -1);
          fflush(stdout);
        }
      }
    }
    free(toks);
  }
  return 0;
}
