/* C12 unit harness: the size-class arithmetic, myth_flmalloc/myth_flfree and the stack /
 * record allocation functions of the CURRENT tree, driven without the runtime.
 * Reads one case per line on stdin, prints one result line per case.
 *
 *   params                      -> "params dsz <sizeof(struct myth_thread)> fln <FREE_LIST_NUM> page <PAGE_SIZE>"
 *   idx S                       -> "idx <MYTH_MALLOC_SIZE_TO_INDEX(S)> rs <MYTH_MALLOC_INDEX_TO_RSIZE(idx)|ub>"
 *                                  or "idx undef" when the builtin's argument is 0
 *   guard S                     -> "guard set <rc> <attr.stacksize afterwards> setstack <rc> <attr.stacksize afterwards>"
 *                                  myth_thread_attr_setstacksize_body / _setstack_body on an attribute holding 777
 *   hist W : ops                -> one token per op, then " | " and the lengths of the mmap calls
 *        a<w>:<size>               myth_flmalloc(w, size)          -> r<k>+<off>   (k-th mmap region)
 *        f<w>:<h>:<size>           myth_flfree(w, size, result of the h-th alloc op) -> f
 *   shist GSZ DSZ : ops         -> same, for stacks and records (g_attr.stacksize = GSZ)
 *        s<w>:<n>                  get_new_myth_thread_struct_stack(env w, n) -> r<k>+<off>/<size word>
 *        r<w>:<h>                  free_myth_thread_struct_stack(env w, th with th->stack = h-th result)
 *                                     -> def@r<k>+<off>  |  c<idx>@r<k>+<off>   (list that received it, pointer pushed)
 *        d<w>                      get_new_myth_thread_struct_desc(env w)     -> r<k>+<off>
 *        e<w>:<h>                  free_myth_thread_struct_desc(env w, h-th result) -> e
 *
 * Addresses are printed relative to the mmap call that produced their region, so that the
 * output does not depend on where the kernel places mappings.  mmap is intercepted by a macro
 * (the library calls it from static inline functions in the headers included below). */
#include <stdio.h>
#include <stdlib.h>
#include <string.h>
#include <stdint.h>
#include <sys/mman.h>

#define MAXREG 8192
static struct { char * base; size_t len; } regs[MAXREG];
static int nregs;
static void * c12_mmap(void * addr, size_t len, int prot, int flags, int fd, off_t off) {
  void * p = mmap(addr, len, prot, flags | MAP_NORESERVE, fd, off);
  if (p != MAP_FAILED && nregs < MAXREG) { regs[nregs].base = p; regs[nregs].len = len; nregs++; }
  return p;
}
#define mmap c12_mmap

#include "myth/myth.h"
#include "myth_config.h"
#include "myth_sched_func.h"

#define MAXW 8
#define MAXH 4096
static struct myth_running_env envs[MAXW];
static void * handles[MAXH];
static int nh;

static void pr_ptr(void * p) {
  int k;
  for (k = nregs - 1; k >= 0; k--)
    if ((char*)p >= regs[k].base && (char*)p < regs[k].base + regs[k].len) {
      printf("r%d+%zu", k, (size_t)((char*)p - regs[k].base));
      return;
    }
  printf("?");
}

static void pr_regs(void) {
  int k;
  printf(" |");
  for (k = 0; k < nregs; k++) printf(" %zu", regs[k].len);
}

static void reset(int W) {
  int r;
  static int inited;
  if (!inited) { myth_flmalloc_init(MAXW); inited = 1; }
  for (r = 0; r < MAXW; r++) {
    myth_flmalloc_init_worker(r);
    memset(&envs[r], 0, sizeof(envs[r]));
    envs[r].rank = r;
    myth_freelist_init(&envs[r].freelist_desc);
    myth_freelist_init(&envs[r].freelist_stack);
  }
  (void)W;
  nregs = 0; nh = 0;
}

int main(void) {
  static char line[1 << 20];
  while (fgets(line, sizeof(line), stdin)) {
    char * tok = strtok(line, " \n");
    if (!tok) { printf("\n"); continue; }
    if (strcmp(tok, "params") == 0) {
      printf("params dsz %zu fln %d page %d\n", sizeof(struct myth_thread), (int)FREE_LIST_NUM, (int)PAGE_SIZE);
    } else if (strcmp(tok, "idx") == 0) {
      size_t s = strtoull(strtok(NULL, " \n"), NULL, 10);
      if ((unsigned int)(s - 1) == 0) printf("idx undef\n");
      else {
        int idx = MYTH_MALLOC_SIZE_TO_INDEX(s);
        if (idx >= 0 && idx <= 30) printf("idx %d rs %lld\n", idx, (long long)MYTH_MALLOC_INDEX_TO_RSIZE(idx));
        else printf("idx %d rs ub\n", idx);
      }
    } else if (strcmp(tok, "guard") == 0) {
      size_t sz = strtoull(strtok(NULL, " \n"), NULL, 10);
      myth_thread_attr_t a1, a2; int r1, r2;
      memset(&a1, 0, sizeof(a1)); memset(&a2, 0, sizeof(a2));
      a1.stacksize = 777; a2.stacksize = 777;
      r1 = myth_thread_attr_setstacksize_body(&a1, sz);
      r2 = myth_thread_attr_setstack_body(&a2, (void *)0, sz);
      printf("guard set %d %zu setstack %d %zu\n", r1, (size_t)a1.stacksize, r2, (size_t)a2.stacksize);
    } else if (strcmp(tok, "hist") == 0) {
      int W = atoi(strtok(NULL, " \n"));
      reset(W);
      strtok(NULL, " \n");   /* ":" */
      printf("hist");
      while ((tok = strtok(NULL, " \n"))) {
        int w, h; unsigned long long sz;
        if (sscanf(tok, "a%d:%llu", &w, &sz) == 2) {
          void * p = myth_flmalloc(w, (size_t)sz);
          if (nh < MAXH) handles[nh++] = p;
          printf(" "); pr_ptr(p);
        } else if (sscanf(tok, "f%d:%d:%llu", &w, &h, &sz) == 3) {
          myth_flfree(w, (size_t)sz, handles[h]);
          printf(" f");
        } else printf(" badop");
      }
      pr_regs(); printf("\n");
    } else if (strcmp(tok, "shist") == 0) {
      size_t gsz = strtoull(strtok(NULL, " \n"), NULL, 10);
      strtok(NULL, " \n");   /* DSZ: the model's parameter; this side uses its own sizeof */
      strtok(NULL, " \n");   /* ":" */
      reset(MAXW);
      g_attr.stacksize = gsz;
      printf("shist");
      while ((tok = strtok(NULL, " \n"))) {
        int w, h; unsigned long long n;
        if (sscanf(tok, "s%d:%llu", &w, &n) == 2) {
          void * top = get_new_myth_thread_struct_stack(&envs[w], (size_t)n);
          if (nh < MAXH) handles[nh++] = top;
          printf(" "); pr_ptr(top); printf("/%llu", (unsigned long long)*(uintptr_t*)((char*)top + sizeof(void*)));
        } else if (sscanf(tok, "r%d:%d", &w, &h) == 2) {
          struct myth_thread th;
          void * before_def = envs[w].freelist_stack.head;
          void * before[FREE_LIST_NUM];
          int i, found = 0;
          for (i = 0; i < FREE_LIST_NUM; i++) before[i] = g_myth_freelist[w][i].head;
          memset(&th, 0, sizeof(th));
          th.stack = handles[h];
          free_myth_thread_struct_stack(&envs[w], &th);
          if (envs[w].freelist_stack.head != before_def) {
            printf(" def@"); pr_ptr(envs[w].freelist_stack.head); found = 1;
          }
          for (i = 0; i < FREE_LIST_NUM; i++)
            if (g_myth_freelist[w][i].head != before[i]) {
              printf(" c%d@", i); pr_ptr(g_myth_freelist[w][i].head); found = 1;
            }
          if (!found) printf(" nowhere");
        } else if (sscanf(tok, "d%d", &w) == 1) {
          void * p = get_new_myth_thread_struct_desc(&envs[w]);
          if (nh < MAXH) handles[nh++] = p;
          printf(" "); pr_ptr(p);
        } else if (sscanf(tok, "e%d:%d", &w, &h) == 2) {
          free_myth_thread_struct_desc(&envs[w], (myth_thread_t)handles[h]);
          printf(" e");
        } else printf(" badop");
      }
      pr_regs(); printf("\n");
    } else {
      printf("badcase\n");
    }
    fflush(stdout);
  }
  return 0;
}
