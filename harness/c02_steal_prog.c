/* C02 library-level family: whole fork-join programs run to completion (free-running, real
 * workers) under a USER steal function that sometimes declines its candidate.
 *
 *   MYTH_NUM_WORKERS=<w> c02_steal_prog <program> <size> <decline num> <decline den> <seed>
 *     program: fib     fib(<size>) by recursive create/join (result checked)
 *              fanout  <size> threads, each yields a few times and bumps its own counter; join all
 *              yield   8 threads yielding <size> times each around a shared progress counter
 *
 * The steal function installed with myth_wsapi_set_stealfunc picks a random victim, now and then
 * calls myth_wsapi_runqueue_peek with a REAL buffer (the hint of the candidate is copied and
 * checked), then myth_wsapi_runqueue_take(victim, decide, .) where decide declines with probability
 * num/den (per-worker PRNG).  Property: a declined candidate stays available, so the program
 * terminates with the right result on any number of workers.  A hang is caught by the caller's
 * watchdog (timeout), a thread resumed twice shows up as a crash or a wrong result.
 *
 * stdout: prog <program> workers=<w> decline=<num>/<den> result=<r> expected=<e> ok=<0|1>
 *              attempts=<a> accepted=<x> declined=<d> peeks=<p> hint_ok=<h> hint_copied=<c> hint_bad=<b> */
#include <stdio.h>
#include <stdlib.h>
#include <string.h>
#include <stdint.h>
#include "myth/myth.h"

#define HINT_MAGIC 0x5eed0c02c0ffeeULL
typedef struct { uint64_t magic; uint64_t id; } hint_t;
#define NHINT 4096
static hint_t g_hints[NHINT];
static volatile long g_hint_next;

typedef struct { uint64_t s; long attempts, accepted, declined, peeks, hint_ok, hint_copied, hint_bad; char pad[64]; } wstate_t;
static wstate_t g_w[64];
static int g_num, g_den;

static inline uint64_t xr(wstate_t * w) {
  uint64_t x = w->s; x ^= x << 13; x ^= x >> 7; x ^= x << 17; w->s = x; return x;
}

/* every thread publishes a hint (what a locality-aware steal function would inspect) */
static void set_my_hint(void) {
  long k = __sync_fetch_and_add(&g_hint_next, 1) % NHINT;
  void * d = &g_hints[k]; size_t s = sizeof(hint_t);
  g_hints[k].magic = HINT_MAGIC; g_hints[k].id = (uint64_t)k;
  myth_wsapi_set_hint(0, &d, &s);
}

static int decide(myth_thread_t th, void * u) {
  wstate_t * w = (wstate_t *)u;
  (void)th;
  if (g_num > 0 && (int)(xr(w) % (uint64_t)g_den) < g_num) { w->declined++; return 0; }
  w->accepted++;
  return 1;
}

static myth_thread_t my_steal(int rank) {
  int nw = myth_get_num_workers(), victim;
  wstate_t * w = &g_w[rank & 63];
  if (nw < 2) return 0;
  victim = (int)(xr(w) % (uint64_t)(nw - 1));
  if (victim >= rank) victim++;
  if ((xr(w) & 7) == 0) {
    hint_t buf; size_t sz = sizeof(buf);
    myth_thread_t c;
    memset(&buf, 0, sizeof(buf));
    c = myth_wsapi_runqueue_peek(victim, &buf, &sz);
    w->peeks++;
    if (c) {
      if (sz == sizeof(buf) && buf.magic == HINT_MAGIC && buf.id < NHINT) { w->hint_ok++; w->hint_copied++; }
      else if (sz == 0) w->hint_ok++;          /* a candidate that has not published a hint (yet) */
      else w->hint_bad++;
    }
  }
  w->attempts++;
  return myth_wsapi_runqueue_take(victim, decide, w);
}

/* ---- programs ---- */
static void * fib(void * a) {
  long n = (long)a, x, y;
  myth_thread_t t;
  void * r;
  if (n < 2) return (void *)n;
  set_my_hint();
  t = myth_create(fib, (void *)(n - 1));
  y = (long)fib((void *)(n - 2));
  myth_join(t, &r);
  x = (long)r;
  return (void *)(x + y);
}
static long fib_seq(long n) { long a = 0, b = 1, i; for (i = 0; i < n; i++) { long c = a + b; a = b; b = c; } return a; }

#define MAXF 65536
static volatile int g_runs[MAXF];
static void * fan_body(void * a) {
  long id = (long)a; int i;
  set_my_hint();
  for (i = 0; i < 3; i++) myth_yield();
  __sync_fetch_and_add(&g_runs[id], 1);
  return (void *)(id + 1);
}
static volatile long g_progress;
static long g_yields;
static void * yield_body(void * a) {
  long i; (void)a;
  set_my_hint();
  for (i = 0; i < g_yields; i++) { __sync_fetch_and_add(&g_progress, 1); myth_yield(); }
  return 0;
}

int main(int argc, char ** argv) {
  const char * prog; long size, result = 0, expected = 0; int i, nw; uint64_t seed;
  long at = 0, ac = 0, de = 0, pk = 0, ho = 0, hb = 0, hcp = 0;
  if (argc < 6) { fprintf(stderr, "usage: c02_steal_prog fib|fanout|yield <size> <num> <den> <seed>\n"); return 2; }
  prog = argv[1]; size = atol(argv[2]); g_num = atoi(argv[3]); g_den = atoi(argv[4]); seed = strtoull(argv[5], 0, 10);
  if (g_den <= 0) g_den = 1;
  for (i = 0; i < 64; i++) g_w[i].s = (seed + 1) * 0x9E3779B97F4A7C15ull + (uint64_t)i * 0xD1B54A32D192ED03ull + 1;
  myth_init();
  nw = myth_get_num_workers();
  set_my_hint();
  myth_wsapi_set_stealfunc(my_steal);
  if (strcmp(prog, "fib") == 0) {
    myth_thread_t t = myth_create(fib, (void *)size); void * r;
    myth_join(t, &r); result = (long)r; expected = fib_seq(size);
  } else if (strcmp(prog, "fanout") == 0) {
    static myth_thread_t ths[MAXF]; long k, sum = 0;
    if (size > MAXF) size = MAXF;
    for (k = 0; k < size; k++) ths[k] = myth_create(fan_body, (void *)k);
    for (k = 0; k < size; k++) { void * r; myth_join(ths[k], &r); sum += ((long)r == k + 1); }
    for (k = 0; k < size; k++) if (g_runs[k] != 1) sum = -1000000;
    result = sum; expected = size;
  } else if (strcmp(prog, "yield") == 0) {
    myth_thread_t ths[8]; int k;
    g_yields = size;
    for (k = 0; k < 8; k++) ths[k] = myth_create(yield_body, 0);
    for (k = 0; k < 8; k++) myth_join(ths[k], 0);
    result = g_progress; expected = 8 * size;
  } else return 2;
  myth_fini();
  for (i = 0; i < 64; i++) { at += g_w[i].attempts; ac += g_w[i].accepted; de += g_w[i].declined; pk += g_w[i].peeks; ho += g_w[i].hint_ok; hb += g_w[i].hint_bad; hcp += g_w[i].hint_copied; }
  printf("prog %s workers=%d decline=%d/%d result=%ld expected=%ld ok=%d attempts=%ld accepted=%ld declined=%ld peeks=%ld hint_ok=%ld hint_copied=%ld hint_bad=%ld\n",
         prog, nw, g_num, g_den, result, expected, result == expected && hb == 0, at, ac, de, pk, ho, hcp, hb);
  return (result == expected && hb == 0) ? 0 : 1;
}
