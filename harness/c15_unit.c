/* C15 unit harness: calls the CPU-list parser and the environment default functions of the
 * CURRENT tree (src/myth_bind_worker.c is #included, so its static functions are the real ones;
 * src/myth_init_func.h provides the static inline default functions).
 *
 * One case per input line, one output line per case; every case runs in a forked child so that an
 * assertion failure, a crash or a hang of one case is reported ("assertfail", "signal <n>") and
 * does not disturb the others.  Strings are hex-encoded:  h:<hex>  or  U  (variable unset).
 *
 *   info                              -> info ncpu=.. dstack=.. dguard=.. dbind=.. dcf=.. cap=.. aff=c,c,..
 *   atoi S                            -> atoi <v>                     (libc atoi: the model's assumption)
 *   dflt stk|guard|bind|cf D S        -> dflt <value as size_t>       (D = built-in default, for the model only)
 *   dflt nw NCPU S_NUM_WORKERS S_WORKER_NUM -> dflt <value as size_t>
 *   gattr NCPU DS DG DB DC S1..S6     -> gattr stack guard nw bind cf initialized  (myth_globalattr_init_body)
 *   cpul CAP S                        -> ok k v1..vk | err raw=h:<hex of the diagnostic on stderr>
 *                                        (+ " overflow" if a cell beyond CAP or beyond k was written)
 *   avail NCPU K c1..cK S NR          -> avail n t1..tn ranks r0..r(NR-1) diag=h:<hex of stderr>   (affinity mask set to c1..cK first)
 */
#include <stdio.h>
#include <stdlib.h>
#include <string.h>
#include <signal.h>
#include <unistd.h>
#include <sys/wait.h>
#include "myth/myth.h"
#include "myth_config.h"
#include "myth_init_func.h"
#include "myth_bind_worker.c"

#define CANARY 0x5a5a5a5a
#define MAXCAP 4096
#define PAD 64

static char * unhex(const char * tok) {   /* NULL for "U" */
  if (strcmp(tok, "U") == 0) return NULL;
  const char * h = tok + 2;
  size_t n = strlen(h) / 2, i;
  char * s = malloc(n + 1);
  for (i = 0; i < n; i++) { unsigned v; sscanf(h + 2 * i, "%2x", &v); s[i] = (char)v; }
  s[n] = 0;
  return s;
}

static void put_env(const char * name, const char * tok) {
  char * s = unhex(tok);
  if (s) setenv(name, s, 1); else unsetenv(name);
}

static char * errbuf; static size_t errlen; static FILE * saved_err;
static void capture_begin(void) { saved_err = stderr; errbuf = NULL; errlen = 0; stderr = open_memstream(&errbuf, &errlen); }
static void capture_end(void) { fclose(stderr); stderr = saved_err; }

static void do_case(char * line) {
  char * w[64]; int nw_ = 0; char * p;
  for (p = strtok(line, " \n"); p && nw_ < 64; p = strtok(NULL, " \n")) w[nw_++] = p;
  if (nw_ == 0) { printf("empty\n"); return; }
  if (strcmp(w[0], "info") == 0) {
    cpu_set_t cs; int i, first = 1;
    sched_getaffinity(getpid(), sizeof cs, &cs);
    printf("info ncpu=%d dstack=%ld dguard=%ld dbind=%d dcf=%d cap=%d aff=", myth_get_n_available_cpus(),
           (long)MYTH_DEF_STACK_SIZE, (long)MYTH_DEF_GUARD_SIZE, (int)MYTH_DEFAULT_BIND_WORKERS, (int)MYTH_CHILD_FIRST,
           (int)N_MAX_CPUS);
    for (i = 0; i < CPU_SETSIZE; i++) if (CPU_ISSET(i, &cs)) { printf("%s%d", first ? "" : ",", i); first = 0; }
    printf("\n");
  } else if (strcmp(w[0], "atoi") == 0) {
    char * s = unhex(w[1]);
    printf("atoi %d\n", atoi(s ? s : ""));
  } else if (strcmp(w[0], "dflt") == 0) {
    size_t v = 0;
    unsetenv(ENV_MYTH_NUM_WORKERS); unsetenv(ENV_MYTH_WORKER_NUM);
    if (strcmp(w[1], "stk") == 0) { put_env(ENV_MYTH_DEF_STKSIZE, w[3]); v = myth_globalattr_default_stacksize(); }
    else if (strcmp(w[1], "guard") == 0) { put_env(ENV_MYTH_DEF_GUARDSIZE, w[3]); v = myth_globalattr_default_guardsize(); }
    else if (strcmp(w[1], "bind") == 0) { put_env(ENV_MYTH_BIND_WORKERS, w[3]); v = myth_globalattr_default_bind_workers(); }
    else if (strcmp(w[1], "cf") == 0) { put_env(ENV_MYTH_CHILD_FIRST, w[3]); v = myth_globalattr_default_child_first(); }
    else if (strcmp(w[1], "nw") == 0) {
      put_env(ENV_MYTH_NUM_WORKERS, w[3]); put_env(ENV_MYTH_WORKER_NUM, w[4]);
      capture_begin(); v = myth_globalattr_default_num_workers(); capture_end();
    }
    printf("dflt %zu\n", v);
  } else if (strcmp(w[0], "gattr") == 0) {
    myth_globalattr_t a;
    memset(&a, 0x77, sizeof a);
    put_env(ENV_MYTH_DEF_STKSIZE, w[6]); put_env(ENV_MYTH_DEF_GUARDSIZE, w[7]); put_env(ENV_MYTH_NUM_WORKERS, w[8]);
    put_env(ENV_MYTH_WORKER_NUM, w[9]); put_env(ENV_MYTH_BIND_WORKERS, w[10]); put_env(ENV_MYTH_CHILD_FIRST, w[11]);
    capture_begin(); myth_globalattr_init_body(&a); capture_end();
    printf("gattr %zu %zu %d %d %d %d\n", a.stacksize, a.guardsize, a.n_workers, a.bind_workers, a.child_first, a.initialized);
  } else if (strcmp(w[0], "cpul") == 0) {
    static int arr[MAXCAP + 2 * PAD];
    int cap = atoi(w[1]), i, r, over = 0;
    int * a = arr + PAD;
    if (cap > MAXCAP) cap = MAXCAP;
    for (i = 0; i < MAXCAP + 2 * PAD; i++) arr[i] = CANARY;
    put_env("C15_CPU_LIST", w[2]);
    capture_begin();
    r = myth_parse_cpu_list("C15_CPU_LIST", a, cap);
    capture_end();
    for (i = 0; i < PAD; i++) if (arr[i] != CANARY) over = 1;
    for (i = (cap > 0 ? cap : 0); i < MAXCAP + PAD; i++) if (a[i] != CANARY) over = 1;
    if (r >= 0) {
      for (i = r; i < cap; i++) if (a[i] != CANARY) over = 1;
      printf("ok %d", r);
      for (i = 0; i < r && i < MAXCAP; i++) printf(" %d", a[i]);
    } else {
      /* the captured diagnostic, verbatim: tools/props/c15.py classifies it with the message texts it
         reads from the CURRENT source, so a reworded message is not a difference but a dropped one is */
      size_t k;
      printf("err raw=h:");
      for (k = 0; k < errlen; k++) printf("%02x", (unsigned char)errbuf[k]);
    }
    printf("%s\n", over ? " overflow" : "");
  } else if (strcmp(w[0], "avail") == 0) {
    int k = atoi(w[2]), i, nr;
    cpu_set_t cs;
    CPU_ZERO(&cs);
    for (i = 0; i < k; i++) CPU_SET(atoi(w[3 + i]), &cs);
    if (sched_setaffinity(0, sizeof cs, &cs) != 0) { printf("avail-seterr\n"); return; }
    put_env("MYTH_CPU_LIST", w[3 + k]);
    nr = atoi(w[4 + k]);
    capture_begin();
    myth_get_available_cpus();
    capture_end();
    printf("avail %d", n_available_cpus);
    for (i = 0; i < n_available_cpus; i++) printf(" %d", worker_cpu[i]);
    printf(" ranks");
    for (i = 0; i < nr; i++) printf(" %d", myth_get_worker_cpu(i));
    printf(" diag=h:");
    { size_t k; for (k = 0; k < errlen; k++) printf("%02x", (unsigned char)errbuf[k]); }
    printf("\n");
  } else {
    printf("bad-op\n");
  }
}

int main(void) {
  char * line = NULL; size_t cap = 0;
  if (!freopen("/dev/null", "w", stderr)) return 2;   /* diagnostics are captured per case */
  while (getline(&line, &cap, stdin) > 0) {
    fflush(stdout);
    pid_t pid = fork();
    if (pid == 0) {
      alarm(10);
      do_case(line);
      fflush(stdout);
      _exit(0);
    }
    int status = 0;
    waitpid(pid, &status, 0);
    if (WIFSIGNALED(status)) {
      if (WTERMSIG(status) == SIGABRT) printf("assertfail\n");
      else printf("signal %d\n", WTERMSIG(status));
    } else if (WEXITSTATUS(status) != 0) {
      printf("exit %d\n", WEXITSTATUS(status));
    }
  }
  return 0;
}
