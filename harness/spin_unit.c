/*
 * spin_unit.c -- unit correspondence for the internal spin lock and the sleep queue.
 * Includes the real headers of the current tree (-DMYTH_VERIF).  One case per input line:
 *   q <op> <op> ...            op = e<k> (enqueue item k) | d (dequeue)       sequential history
 *        -> "q deq=[v v ..] final=[k k ..] head=<k|-> tail=<k|->"
 *   s <nthreads> <rounds> <i0> <i1> ...   nthreads pthreads each doing <rounds> x (lock; unlock) on one
 *        spin lock; the schedule names which thread performs its next POINT (spin.trylock / spin.unlock)
 *        -> "s <i>:<point>:<locked-before> ..."   one entry per scheduled step, then "final=<locked>"
 */
#define _GNU_SOURCE
#include <stdio.h>
#include <stdlib.h>
#include <string.h>
#include <pthread.h>
#include <sched.h>
#include "myth_sleep_queue_func.h"
#include "myth_spinlock_func.h"

typedef struct { myth_sleep_queue_item item; int id; } qitem;
static qitem items[4096];

/* ---- explicit-schedule controller for the spin-lock case ---- */
#define MAXS 100000
static int sched_[MAXS], nsched, pos;
static volatile int turn_done;
static __thread int me = -1;
static myth_spinlock_t the_lock;
static char * outbuf; static size_t outlen;
static pthread_mutex_t mu = PTHREAD_MUTEX_INITIALIZER;
static pthread_cond_t cv = PTHREAD_COND_INITIALIZER;
static int nthreads_, alive;

static int running = -1;    /* the thread whose step (the code after its POINT) is in progress */

/* a scheduled thread's step lasts from its POINT to its next hook (POINT, SPIN or exit): only then
   may the next scheduled thread log and proceed, so that line order = access order */
static void ctl(int kind, const char * id, const void * obj, long val) {
  (void)obj; (void)val;
  if (me < 0) return;
  pthread_mutex_lock(&mu);
  if (running == me) { running = -1; pthread_cond_broadcast(&cv); }
  if (kind == MYTH_VERIF_KIND_POINT) {
    while (pos < nsched && (running != -1 || sched_[pos] != me)) pthread_cond_wait(&cv, &mu);
    if (pos < nsched) {
      outlen += sprintf(outbuf + outlen, " %d:%s:%d", me, id, the_lock.locked);
      pos++;
      running = me;
    }
  }
  pthread_mutex_unlock(&mu);
}

static int rounds_;
static void * worker(void * a) {
  me = (int)(long)a;
  for (int r = 0; r < rounds_; r++) {
    myth_spin_lock_body(&the_lock);
    myth_spin_unlock_body(&the_lock);
  }
  pthread_mutex_lock(&mu);
  if (running == me) running = -1;
  alive--;
  /* drop this thread's remaining schedule entries so that nobody waits for them */
  int k = 0;
  for (int i = 0; i < nsched; i++) { if (i < pos || sched_[i] != me) sched_[k++] = sched_[i]; }
  nsched = k;
  pthread_cond_broadcast(&cv);
  pthread_mutex_unlock(&mu);
  me = -1;
  return 0;
}

int main(void) {
  static char line[1 << 20];
  outbuf = malloc(1 << 22);
  while (fgets(line, sizeof(line), stdin)) {
    char * save; char * w = strtok_r(line, " \n", &save);
    if (!w) { printf("\n"); continue; }
    if (!strcmp(w, "q")) {
      myth_sleep_queue_t q[1]; myth_sleep_queue_init(q);
      printf("q deq=[");
      int first = 1;
      while ((w = strtok_r(0, " \n", &save))) {
        if (w[0] == 'e') { int k = atoi(w + 1); items[k].id = k; myth_sleep_queue_enq(q, &items[k].item); }
        else { myth_sleep_queue_item_t x = myth_sleep_queue_deq(q);
               if (x) printf("%s%d", first ? "" : " ", ((qitem *)x)->id); else printf("%s-", first ? "" : " ");
               first = 0; }
      }
      printf("] final=[");
      first = 1;
      for (myth_sleep_queue_item_t x = q->head; x; x = x->next) { printf("%s%d", first ? "" : " ", ((qitem *)x)->id); first = 0; }
      printf("] head=");
      if (q->head) printf("%d", ((qitem *)q->head)->id); else printf("-");
      printf(" tail=");
      if (q->tail) printf("%d", ((qitem *)q->tail)->id); else printf("-");
      printf("\n");
    } else if (!strcmp(w, "s")) {
      nthreads_ = atoi(strtok_r(0, " \n", &save)); rounds_ = atoi(strtok_r(0, " \n", &save));
      nsched = 0; pos = 0; outlen = 0; outbuf[0] = 0;
      while ((w = strtok_r(0, " \n", &save)) && nsched < MAXS) sched_[nsched++] = atoi(w);
      myth_spin_init_body(&the_lock);
      g_myth_verif_cb = ctl;
      pthread_t th[64]; alive = nthreads_;
      for (int i = 0; i < nthreads_; i++) pthread_create(&th[i], 0, worker, (void *)(long)i);
      for (int i = 0; i < nthreads_; i++) pthread_join(th[i], 0);
      g_myth_verif_cb = 0;
      printf("s%s final=%d\n", outbuf, the_lock.locked);
    } else printf("?\n");
    fflush(stdout);
  }
  return 0;
}
