/* C18 harness: a serial simulator of multi-worker task-parallel executions that drives the
 * DAG Recorder's instrumentation entry points (dr_start__, dr_start_task__, dr_begin_section__,
 * dr_enter_create_task__, dr_return_from_create_task__, dr_enter_wait_tasks__,
 * dr_return_from_wait_tasks__, dr_enter_other__, dr_return_from_other__, dr_end_task__, dr_stop__)
 * of the CURRENT tree with explicit worker ids and a virtual clock (MYTH_VERIF hook
 * g_dr_verif_clock), under several contraction settings, and prints the root totals.
 *
 * Built together with the profiler sources of vlib.REPO (see tools/props/c18.py).
 *
 * Case language (one case per line; the same line is read by ocaml/driver_C18.ml):
 *   case    := NW NSET setting*NSET task
 *   setting := UMIN CMAX NCT PRUNE CMC CHK       (uncollapse_min collapse_max node_count_target
 *                                                 prune_threshold collapse_max_count chk_level;
 *                                                 CHK >= 10: keep the library's default thresholds,
 *                                                 chk_level = CHK - 10)
 *   task    := 'T' titem* 'e' leaf
 *   titem   := 'o' leaf | section
 *   section := ('S' | 'B') sitem* 'w' leaf       ('B': opened by dr_begin_section__; 'S': opened
 *                                                 implicitly by the first create/wait when that is
 *                                                 possible, else as 'B')
 *   sitem   := 'o' leaf | 'c' leaf task | section
 *   leaf    := START END WORKER                   (virtual clock readings at the start / end of the
 *                                                 interval and the worker that executes it)
 * A child task runs to completion at its creation (serial simulation); the interval that follows
 * a create / wait / other may run on another worker (the continuation migrated).
 *
 * Output: one line per case:
 *   seg ('|' seg)*      one seg per setting:
 *   rc=R t1=.. tinf=.. nodes=c,w,o,e edges=end,create,ccont,wcont,ocont cur=.. mat=..
 *      ; stat work=.. tinf=.. cr=.. wt=.. en=.. dagnodes=.. mat=.. sedges=end,create,ccont,wcont,ocont
 *      ; ev <hook events>
 * Each setting runs in a forked child (the recorder's own checks call exit(1)).
 */
#define DAG_RECORDER 2
#include "dag_recorder_impl.h"
#include <sys/wait.h>
#include <fcntl.h>
#include <unistd.h>

extern unsigned long long (*g_dr_verif_clock)(void);
static unsigned long long vclock;
static unsigned long long vclock_read(void) { return vclock; }

/* ---------------- case ---------------- */
typedef struct { unsigned long long s, e; int w; } leaf_t;
typedef struct tnode {
  char tag;              /* 'T' 'S' 'B' 'o' 'c' */
  leaf_t leaf;           /* o, c: the interval; T: the end interval; S/B: the wait interval */
  struct tnode ** items; int n;
  struct tnode * child;  /* c */
} tnode;

typedef struct { unsigned long long umin, cmax; long nct, prune, cmc; int chk; } setting_t;

static char ** toks; static int ntok, tpos;
static const char * nexttok(void) { if (tpos >= ntok) { fprintf(stderr, "c18_sim: truncated case\n"); exit(3); } return toks[tpos++]; }
static const char * peektok(void) { return tpos < ntok ? toks[tpos] : ""; }
static leaf_t parse_leaf(void) {
  leaf_t l; l.s = strtoull(nexttok(), 0, 10); l.e = strtoull(nexttok(), 0, 10); l.w = atoi(nexttok()); return l;
}
static tnode * mk(char tag) { tnode * x = calloc(1, sizeof(tnode)); x->tag = tag; return x; }
static void add(tnode * p, tnode * c) { p->items = realloc(p->items, sizeof(tnode *) * (p->n + 1)); p->items[p->n++] = c; }
static tnode * parse_task(void);
static tnode * parse_section(char tag) {
  tnode * s = mk(tag);
  for (;;) {
    const char * t = nexttok();
    if (t[0] == 'w') { s->leaf = parse_leaf(); return s; }
    else if (t[0] == 'o') { tnode * o = mk('o'); o->leaf = parse_leaf(); add(s, o); }
    else if (t[0] == 'c') { tnode * c = mk('c'); c->leaf = parse_leaf();
      if (strcmp(nexttok(), "T")) { fprintf(stderr, "c18_sim: T expected\n"); exit(3); }
      c->child = parse_task(); add(s, c); }
    else if (t[0] == 'S' || t[0] == 'B') add(s, parse_section(t[0]));
    else { fprintf(stderr, "c18_sim: bad token %s in section\n", t); exit(3); }
  }
}
static tnode * parse_task(void) {   /* after 'T' */
  tnode * T = mk('T');
  for (;;) {
    const char * t = nexttok();
    if (t[0] == 'e') { T->leaf = parse_leaf(); return T; }
    else if (t[0] == 'o') { tnode * o = mk('o'); o->leaf = parse_leaf(); add(T, o); }
    else if (t[0] == 'S' || t[0] == 'B') add(T, parse_section(t[0]));
    else { fprintf(stderr, "c18_sim: bad token %s in task\n", t); exit(3); }
  }
}

/* ---------------- the steps of one task, in program order ---------------- */
typedef struct { char op; /* 'b' begin_section, 'o' 'c' 'w' 'e' interval ending that way */ leaf_t leaf; tnode * child; } step_t;
typedef struct { step_t * v; int n; } steps_t;
static void push_step(steps_t * S, char op, leaf_t l, tnode * child) {
  S->v = realloc(S->v, sizeof(step_t) * (S->n + 1)); S->v[S->n].op = op; S->v[S->n].leaf = l; S->v[S->n].child = child; S->n++;
}
static void flatten_section(steps_t * S, tnode * s, int under_task) {
  int explicit_open = (s->tag == 'B') || !under_task || (s->n > 0 && s->items[0]->tag != 'c');
  leaf_t z = {0, 0, 0};
  int i;
  if (explicit_open) push_step(S, 'b', z, 0);
  for (i = 0; i < s->n; i++) {
    tnode * x = s->items[i];
    if (x->tag == 'o') push_step(S, 'o', x->leaf, 0);
    else if (x->tag == 'c') push_step(S, 'c', x->leaf, x->child);
    else flatten_section(S, x, 0);
  }
  push_step(S, 'w', s->leaf, 0);
}
static void flatten_task(steps_t * S, tnode * T) {
  int i;
  for (i = 0; i < T->n; i++) {
    tnode * x = T->items[i];
    if (x->tag == 'o') push_step(S, 'o', x->leaf, 0);
    else flatten_section(S, x, 1);
  }
  push_step(S, 'e', T->leaf, 0);
}

/* ---------------- hook events (the raw interval stream for the oracle) ---------------- */
static char * evbuf; static size_t evlen, evcap;
static void ev(const char * fmt, ...) __attribute__((format(printf, 1, 2)));
#include <stdarg.h>
static void ev(const char * fmt, ...) {
  char tmp[128]; va_list ap; int k;
  va_start(ap, fmt); k = vsnprintf(tmp, sizeof tmp, fmt, ap); va_end(ap);
  if (evlen + k + 1 > evcap) { evcap = (evcap + k + 1) * 2; evbuf = realloc(evbuf, evcap); }
  memcpy(evbuf + evlen, tmp, k + 1); evlen += k;
}
static int hk_interval(dr_dag_node * n) {
  static const char kc[] = "cwoe";
  int k = n->info.kind;
  ev(" %c:%llu:%llu:%d", (k >= 0 && k < 4) ? kc[k] : '?', n->info.start.t, n->info.end.t, n->info.worker);
  return 0;
}
static int hk_start_task(dr_dag_node * n) { (void)n; ev(" T"); return 0; }
static int hk_begin_section(dr_dag_node * n) { (void)n; ev(" B"); return 0; }
static int hk_ret_create(dr_dag_node * n) { (void)n; ev(" rc"); return 0; }
static int hk_ret_wait(dr_dag_node * n) { (void)n; ev(" rw"); return 0; }
static int hk_ret_other(dr_dag_node * n) { (void)n; ev(" ro"); return 0; }

/* ---------------- the simulator ---------------- */
static const char * F = "c18_sim.c";
static int is_root_running;

static void run_task(tnode * T, dr_dag_node * parent, dr_options * opts, int nw) {
  steps_t S = {0, 0};
  int i, j;
  dr_dag_node * t = 0;
  leaf_t first;
  flatten_task(&S, T);
  for (j = 0; S.v[j].op == 'b'; j++) ;
  first = S.v[j].leaf;
  vclock = first.s;
  if (!parent && !is_root_running) {
    is_root_running = 1;
    dr_start__(opts, F, 1, first.w, nw);    /* reads the clock twice: start_clock, start of the first interval */
  } else {
    dr_start_task__(parent, F, 2, first.w);
  }
  /* cur = the worker that executes the running interval */
  int cur = first.w;
  for (i = 0; i < S.n; i++) {
    step_t * st = &S.v[i];
    leaf_t nl; int k;
    if (st->op == 'b') { dr_begin_section__(cur); continue; }
    /* the interval that follows this one in the same task */
    for (k = i + 1; k < S.n && S.v[k].op == 'b'; k++) ;
    if (k < S.n) nl = S.v[k].leaf; else { nl.s = 0; nl.e = 0; nl.w = 0; }
    vclock = st->leaf.e;
    switch (st->op) {
    case 'o':
      t = dr_enter_other__(F, 3, st->leaf.w);
      vclock = nl.s; cur = nl.w;
      dr_return_from_other__(t, F, 4, nl.w);
      break;
    case 'c': {
      dr_dag_node * c = 0;
      t = dr_enter_create_task__(&c, F, 5, st->leaf.w);
      run_task(st->child, c, opts, nw);
      vclock = nl.s; cur = nl.w;
      dr_return_from_create_task__(t, F, 6, nl.w);
      break;
    }
    case 'w':
      t = dr_enter_wait_tasks__(F, 7, st->leaf.w);
      vclock = nl.s; cur = nl.w;
      dr_return_from_wait_tasks__(t, F, 8, nl.w);
      break;
    case 'e':
      if (!parent) dr_stop__(F, 9, st->leaf.w); else dr_end_task__(F, 10, st->leaf.w);
      break;
    }
  }
  free(S.v);
}

/* number of nodes actually present in the in-memory DAG */
static long count_mat(dr_dag_node * n) {
  if (n->info.kind == dr_dag_node_kind_create_task) return 1 + (n->child ? count_mat(n->child) : 0);
  if (n->info.kind >= dr_dag_node_kind_section) {
    long c = 1; dr_dag_node * ch;
    for (ch = n->subgraphs->head; ch; ch = ch->next) c += count_mat(ch);
    return c;
  }
  return 1;
}

static long long stat_num(const char * txt, const char * key) {
  const char * p = strstr(txt, key);
  if (!p) return -1;
  p = strchr(p, '=');
  if (!p) return -1;
  return strtoll(p + 1, 0, 10);
}
/* sum of the (nw+1)x(nw+1) matrix printed after the given header line */
static long long stat_matrix_sum(const char * txt, const char * header, int nw) {
  const char * p = strstr(txt, header);
  long long s = 0; int i;
  if (!p) return -1;
  p += strlen(header);
  for (i = 0; i < (nw + 1) * (nw + 1); i++) { char * q; long long v = strtoll(p, &q, 10); if (q == p) return -1; s += v; p = q; }
  return s;
}

static void run_setting(tnode * root, setting_t * st, int nw, const char * dir, FILE * out) {
  dr_options opts[1];
  char prefix[512], path[600];
  dr_options_default_(opts);
  snprintf(prefix, sizeof prefix, "%s/c18_%d", dir, (int)getpid());
  opts->dag_file_prefix = prefix;
  opts->dag_file_yes = 0; opts->stat_file_yes = 1; opts->gpl_file_yes = 0; opts->dot_file_yes = 0; opts->text_file_yes = 0;
  if (st->chk < 10) {
    opts->uncollapse_min = st->umin; opts->collapse_max = st->cmax;
    opts->node_count_target = st->nct; opts->prune_threshold = st->prune; opts->collapse_max_count = st->cmc;
  }                             /* chk >= 10: the library's default thresholds */
  opts->chk_level = (char)(st->chk % 10);
  opts->worker_specific_state_array = 1;
  opts->on = 1; opts->verbose_level = 0; opts->dbg_level = 0; opts->papi_on = 0; opts->record_cpu = 0;
  opts->hooks.start_task = hk_start_task; opts->hooks.begin_section = hk_begin_section;
  opts->hooks.enter_create_task = hk_interval; opts->hooks.enter_wait_tasks = hk_interval;
  opts->hooks.enter_other = hk_interval; opts->hooks.end_task = hk_interval;
  opts->hooks.return_from_create_task = hk_ret_create; opts->hooks.return_from_wait_tasks = hk_ret_wait;
  opts->hooks.return_from_other = hk_ret_other;
  g_dr_verif_clock = vclock_read;
  evlen = 0; ev("%s", "");
  is_root_running = 0;
  run_task(root, 0, opts, nw);
  {
    dr_dag_node_info * I = &GS.root->info;
    fprintf(out, "rc=0 t1=%llu tinf=%llu nodes=%ld,%ld,%ld,%ld edges=%ld,%ld,%ld,%ld,%ld cur=%ld mat=%ld",
            I->t_1, I->t_inf,
            I->logical_node_counts[dr_dag_node_kind_create_task], I->logical_node_counts[dr_dag_node_kind_wait_tasks],
            I->logical_node_counts[dr_dag_node_kind_other], I->logical_node_counts[dr_dag_node_kind_end_task],
            I->logical_edge_counts[dr_dag_edge_kind_end], I->logical_edge_counts[dr_dag_edge_kind_create],
            I->logical_edge_counts[dr_dag_edge_kind_create_cont], I->logical_edge_counts[dr_dag_edge_kind_wait_cont],
            I->logical_edge_counts[dr_dag_edge_kind_other_cont], I->cur_node_count, count_mat(GS.root));
  }
  fflush(out);
  /* the report generated by the recorder itself */
  dr_dump_();
  snprintf(path, sizeof path, "%s.stat", prefix);
  {
    FILE * fp = fopen(path, "r");
    if (!fp) { fprintf(out, " ; stat missing"); }
    else {
      static char txt[1 << 16]; size_t n = fread(txt, 1, sizeof txt - 1, fp); txt[n] = 0; fclose(fp); unlink(path);
      fprintf(out, " ; stat work=%lld tinf=%lld cr=%lld wt=%lld en=%lld dagnodes=%lld mat=%lld sedges=%lld,%lld,%lld,%lld,%lld",
              stat_num(txt, "work (T1)"), stat_num(txt, "critical_path (T_inf)"), stat_num(txt, "create_task "),
              stat_num(txt, "wait_tasks "), stat_num(txt, "end_task "), stat_num(txt, "dag nodes"), stat_num(txt, "materialized nodes"),
              stat_matrix_sum(txt, "end-parent edges:\n", nw), stat_matrix_sum(txt, "create-child edges:\n", nw),
              stat_matrix_sum(txt, "create-cont edges:\n", nw), stat_matrix_sum(txt, "wait-cont edges:\n", nw),
              stat_matrix_sum(txt, "other-cont edges:\n", nw));
    }
  }
  fprintf(out, " ; ev%s", evbuf);
  fflush(out);
}

int main(int argc, char ** argv) {
  const char * dir = argc > 1 ? argv[1] : ".";
  char * line = 0; size_t cap = 0;
  while (getline(&line, &cap, stdin) > 0) {
    int nw, nset, i;
    setting_t * sets;
    tnode * root;
    char * save, * p;
    /* tokenise */
    ntok = 0; tpos = 0; free(toks); toks = 0;
    for (p = strtok_r(line, " \t\r\n", &save); p; p = strtok_r(0, " \t\r\n", &save)) {
      toks = realloc(toks, sizeof(char *) * (ntok + 1)); toks[ntok++] = p;
    }
    if (ntok == 0) { printf("\n"); continue; }
    nw = atoi(nexttok()); nset = atoi(nexttok());
    sets = calloc(nset, sizeof(setting_t));
    for (i = 0; i < nset; i++) {
      sets[i].umin = strtoull(nexttok(), 0, 10); sets[i].cmax = strtoull(nexttok(), 0, 10);
      sets[i].nct = atol(nexttok()); sets[i].prune = atol(nexttok()); sets[i].cmc = atol(nexttok()); sets[i].chk = atoi(nexttok());
    }
    if (strcmp(nexttok(), "T")) { fprintf(stderr, "c18_sim: T expected\n"); exit(3); }
    root = parse_task();
    for (i = 0; i < nset; i++) {
      int fd[2]; pid_t pid; int status = 0; char buf[4096]; ssize_t k; size_t got = 0;
      fflush(stdout);
      if (pipe(fd)) { perror("pipe"); exit(3); }
      pid = fork();
      if (pid == 0) {
        FILE * out = fdopen(fd[1], "w");
        close(fd[0]);
        { int dn = open("/dev/null", 1); if (dn >= 0) { dup2(dn, 2); } }  /* recorder diagnostics */
        run_setting(root, &sets[i], nw, dir, out);
        fclose(out);
        _exit(0);
      }
      close(fd[1]);
      if (i) printf(" | ");
      {
        char * acc = 0;
        while ((k = read(fd[0], buf, sizeof buf)) > 0) { acc = realloc(acc, got + k + 1); memcpy(acc + got, buf, k); got += k; }
        close(fd[0]);
        waitpid(pid, &status, 0);
        if (WIFEXITED(status) && WEXITSTATUS(status) == 0 && got > 0) { acc[got] = 0; fputs(acc, stdout); }
        else if (WIFSIGNALED(status)) printf("rc=sig%d", WTERMSIG(status));
        else printf("rc=%d", WIFEXITED(status) ? (WEXITSTATUS(status) ? WEXITSTATUS(status) : 99) : 98);
        free(acc);
      }
    }
    printf("\n");
    fflush(stdout);
    free(sets);
  }
  return 0;
}
