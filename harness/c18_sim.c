/* C18 harness: a simulator of multi-worker task-parallel executions that drives the DAG Recorder of
 * the CURRENT tree through its PUBLIC macro layer (dr_start, dr_start_task, dr_begin_section,
 * dr_enter_create_task, dr_return_from_create_task, dr_enter_wait_tasks, dr_return_from_wait_tasks,
 * dr_enter_other, dr_return_from_other, dr_end_task, dr_stop, dr_dump of dag_recorder.h; the client
 * supplies dr_get_worker() / dr_get_max_workers() as the adaptors in src/tpswitch and
 * src/mtbb/task_group.h do) with simulated worker ids and a virtual clock (MYTH_VERIF hook
 * g_dr_verif_clock), under several contraction settings and several DRIVING ORDERS, and prints the
 * root totals, the generated report and the interval stream delivered by the recorder's hooks.
 *
 * Built together with the profiler sources of vlib.REPO (see tools/props/c18.py).
 *
 * Case language (one case per line; the same line is read by ocaml/driver_C18.ml):
 *   case    := NW NSET setting*NSET task
 *   setting := UMIN CMAX NCT PRUNE CMC CHK ORDER ARRAY
 *                                                (uncollapse_min collapse_max node_count_target
 *                                                 prune_threshold collapse_max_count chk_level;
 *                                                 CHK >= 10: keep the library's default thresholds,
 *                                                 chk_level = CHK - 10;
 *                                                 ORDER: 0 work-first (a created task runs to completion
 *                                                 before its parent continues), 1 help-first (the parent
 *                                                 continues; tasks start later, oldest first; a task ends
 *                                                 after its parent entered wait_tasks), >= 2: a seeded
 *                                                 random interleaving of the tasks;
 *                                                 ARRAY: dr_options.worker_specific_state_array; 0 = the
 *                                                 library's default, per-worker state found through a
 *                                                 pthread key: every simulated worker is then a real OS
 *                                                 thread that makes that worker's calls)
 *   task    := 'T' titem* 'e' leaf
 *   titem   := 'o' leaf | section
 *   section := ('S' | 'B') sitem* 'w' leaf       ('B': opened by dr_begin_section; 'S': opened
 *                                                 implicitly by the first create/wait when that is
 *                                                 possible, else as 'B')
 *   sitem   := 'o' leaf | 'c' leaf task | section
 *   leaf    := START END WORKER                   (virtual clock readings at the start / end of the
 *                                                 interval and the worker that executes it)
 * The unit of interleaving is one interval: the call that starts it (dr_start_task /
 * dr_return_from_*), the dr_begin_section calls made during it, the call that ends it (dr_enter_* /
 * dr_end_task) - a worker executes an interval without running anything else in between.  A task can
 * start once the interval that creates it has ended; the interval after a wait can start once all
 * tasks created in that section have ended.
 *
 * Output: one line per case:
 *   seg ('|' seg)*      one seg per setting:
 *   rc=R t1=.. tinf=.. nodes=c,w,o,e edges=end,create,ccont,wcont,ocont cur=.. mat=..
 *      ; stat work=.. tinf=.. cr=.. wt=.. en=.. dagnodes=.. mat=.. sedges=end,create,ccont,wcont,ocont
 *      ; ev <hook events, each tagged @task>
 *      ; cov P=<n_workers of the report> col=<contracted subgraphs left in memory>
 *            interior=<closes at which something below the closing node was contracted while it stayed>
 * Each setting runs in a forked child with a 10 s alarm (the recorder's own checks call exit(1);
 * a recorder gone wrong may crash or loop).
 */
#define DAG_RECORDER 2
static int g_cur_worker, g_max_workers;
#define dr_get_worker() (g_cur_worker)
#define dr_get_max_workers() (g_max_workers)
#include "dag_recorder_impl.h"
#include <sys/wait.h>
#include <fcntl.h>
#include <unistd.h>
#include <stdarg.h>

extern unsigned long long (*g_dr_verif_clock)(void);
static unsigned long long vclock;
static unsigned long long vclock_read(void) { return vclock; }

/* ---------------- case ---------------- */
typedef struct { unsigned long long s, e; int w; } leaf_t;
typedef struct tnode {
  char tag;              /* 'T' 'S' 'B' 'o' 'c' */
  leaf_t leaf;           /* o, c: the interval; T: the end interval; S/B: the wait interval */
  struct tnode ** items; int n;
  struct tnode * child;  /* c */
} tnode;

typedef struct { unsigned long long umin, cmax; long nct, prune, cmc; int chk; long order; int array; } setting_t;

static char ** toks; static int ntok, tpos;
static const char * nexttok(void) { if (tpos >= ntok) { fprintf(stderr, "c18_sim: truncated case\n"); exit(3); } return toks[tpos++]; }
static leaf_t parse_leaf(void) {
  leaf_t l; l.s = strtoull(nexttok(), 0, 10); l.e = strtoull(nexttok(), 0, 10); l.w = atoi(nexttok()); return l;
}
static tnode * mk(char tag) { tnode * x = calloc(1, sizeof(tnode)); x->tag = tag; return x; }
static void add(tnode * p, tnode * c) { p->items = realloc(p->items, sizeof(tnode *) * (p->n + 1)); p->items[p->n++] = c; }
static tnode * parse_task(void);
static tnode * parse_section(char tag) {
  tnode * s = mk(tag);
  for (;;) {
    const char * t = nexttok();
    if (t[0] == 'w') { s->leaf = parse_leaf(); return s; }
    else if (t[0] == 'o') { tnode * o = mk('o'); o->leaf = parse_leaf(); add(s, o); }
    else if (t[0] == 'c') { tnode * c = mk('c'); c->leaf = parse_leaf();
      if (strcmp(nexttok(), "T")) { fprintf(stderr, "c18_sim: T expected\n"); exit(3); }
      c->child = parse_task(); add(s, c); }
    else if (t[0] == 'S' || t[0] == 'B') add(s, parse_section(t[0]));
    else { fprintf(stderr, "c18_sim: bad token %s in section\n", t); exit(3); }
  }
}
static tnode * parse_task(void) {   /* after 'T' */
  tnode * T = mk('T');
  for (;;) {
    const char * t = nexttok();
    if (t[0] == 'e') { T->leaf = parse_leaf(); return T; }
    else if (t[0] == 'o') { tnode * o = mk('o'); o->leaf = parse_leaf(); add(T, o); }
    else if (t[0] == 'S' || t[0] == 'B') add(T, parse_section(t[0]));
    else { fprintf(stderr, "c18_sim: bad token %s in task\n", t); exit(3); }
  }
}

/* ---------------- tasks and their steps, in program order ---------------- */
typedef struct {
  char op;               /* 'o' 'c' 'w' 'e': an interval ending that way */
  leaf_t leaf;
  int nbegin;            /* dr_begin_section calls made during this interval */
  int child;             /* c: id of the created task */
  int * waited; int nwaited;   /* w: the tasks created directly in the section that closes */
} step_t;
typedef struct {
  step_t * v; int n;
  int pos;               /* next interval */
  int startable;         /* the creating interval has ended (root: 1) */
  dr_dag_node * create;  /* the create_task interval that made this task */
  dr_dag_node * handle;  /* what the last dr_enter_* returned */
  dr_dag_node * node;    /* the task node (from the start_task hook) */
  int done;
} task_t;
static task_t * tasks; static int ntasks;

static int pending_begin;
static int new_task(void) { tasks = realloc(tasks, sizeof(task_t) * (ntasks + 1)); memset(&tasks[ntasks], 0, sizeof(task_t)); return ntasks++; }
static step_t * push_step(int tk, char op, leaf_t l) {
  task_t * T = &tasks[tk];
  T->v = realloc(T->v, sizeof(step_t) * (T->n + 1));
  memset(&T->v[T->n], 0, sizeof(step_t));
  T->v[T->n].op = op; T->v[T->n].leaf = l; T->v[T->n].nbegin = pending_begin; T->v[T->n].child = -1;
  pending_begin = 0;
  return &T->v[T->n++];
}
static void flatten_task(int tk, tnode * T);
static void flatten_section(int tk, tnode * s, int under_task) {
  int explicit_open = (s->tag == 'B') || !under_task || (s->n > 0 && s->items[0]->tag != 'c');
  int i, * waited = 0, nwaited = 0;
  if (explicit_open) pending_begin++;
  for (i = 0; i < s->n; i++) {
    tnode * x = s->items[i];
    if (x->tag == 'o') push_step(tk, 'o', x->leaf);
    else if (x->tag == 'c') {
      int ch = new_task();
      int at = tasks[tk].n;
      push_step(tk, 'c', x->leaf);
      tasks[tk].v[at].child = ch;
      waited = realloc(waited, sizeof(int) * (nwaited + 1)); waited[nwaited++] = ch;
      { int saved = pending_begin; pending_begin = 0; flatten_task(ch, x->child); pending_begin = saved; }
    }
    else flatten_section(tk, x, 0);
  }
  { step_t * w = push_step(tk, 'w', s->leaf); w->waited = waited; w->nwaited = nwaited; }
}
static void flatten_task(int tk, tnode * T) {
  int i;
  for (i = 0; i < T->n; i++) {
    tnode * x = T->items[i];
    if (x->tag == 'o') push_step(tk, 'o', x->leaf);
    else flatten_section(tk, x, 1);
  }
  push_step(tk, 'e', T->leaf);
}

/* ---------------- hook events (the raw interval stream for the oracle) ---------------- */
static char * evbuf; static size_t evlen, evcap;
static int cur_task, cur_child;
static void ev(const char * fmt, ...) __attribute__((format(printf, 1, 2)));
static void ev(const char * fmt, ...) {
  char tmp[160]; va_list ap; int k;
  va_start(ap, fmt); k = vsnprintf(tmp, sizeof tmp, fmt, ap); va_end(ap);
  if (evlen + k + 1 > evcap) { evcap = (evcap + k + 1) * 2; evbuf = realloc(evbuf, evcap); }
  memcpy(evbuf + evlen, tmp, k + 1); evlen += k;
}
static int hk_interval(dr_dag_node * n) {
  static const char kc[] = "cwoe";
  static const char ec[] = "ECKWO";      /* end, create, create_cont, wait_cont, other_cont */
  int k = n->info.kind, e = n->info.in_edge_kind;
  ev(" %c:%llu:%llu:%d:%c@%d", (k >= 0 && k < 4) ? kc[k] : '?', n->info.start.t, n->info.end.t, n->info.worker,
     (e >= 0 && e < 5) ? ec[e] : '?', cur_task);
  if (k == dr_dag_node_kind_create_task) ev(">%d", cur_child);
  return 0;
}
static int hk_start_task(dr_dag_node * n) { tasks[cur_task].node = n; ev(" T@%d", cur_task); return 0; }
static int hk_begin_section(dr_dag_node * n) { (void)n; ev(" B@%d", cur_task); return 0; }
static int hk_ret_create(dr_dag_node * n) { (void)n; ev(" rc@%d", cur_task); return 0; }
static int hk_ret_wait(dr_dag_node * n) { (void)n; ev(" rw@%d", cur_task); return 0; }
static int hk_ret_other(dr_dag_node * n) { (void)n; ev(" ro@%d", cur_task); return 0; }

/* number of nodes actually present in the in-memory DAG / of contracted subgraphs among them */
static long count_mat(dr_dag_node * n) {
  if (n->info.kind == dr_dag_node_kind_create_task) return 1 + (n->child ? count_mat(n->child) : 0);
  if (n->info.kind >= dr_dag_node_kind_section) {
    long c = 1; dr_dag_node * ch;
    for (ch = n->subgraphs->head; ch; ch = ch->next) c += count_mat(ch);
    return c;
  }
  return 1;
}
static long count_col(dr_dag_node * n) {
  if (n->info.kind == dr_dag_node_kind_create_task) return n->child ? count_col(n->child) : 0;
  if (n->info.kind >= dr_dag_node_kind_section) {
    long c = 0; dr_dag_node * ch;
    if (!n->subgraphs->head) return 1;
    for (ch = n->subgraphs->head; ch; ch = ch->next) c += count_col(ch);
    return c;
  }
  return 0;
}

/* ---------------- the simulator ---------------- */
static long n_interior;
static int track_interior;

/* a close (of the section that was just waited for, or of a task) happened inside the call made
   between the two counts: did it contract something below the closing node and keep that node? */
static void note_close(long before, dr_dag_node * closed) {
  long after = count_mat(GS.root);
  if (after < before && closed && closed->info.kind >= dr_dag_node_kind_section && closed->subgraphs->head) n_interior++;
}

static int unit_ready(task_t * T) {
  if (T->done || !T->startable) return 0;
  if (T->pos > 0 && T->v[T->pos - 1].op == 'w') {
    step_t * w = &T->v[T->pos - 1]; int i;
    for (i = 0; i < w->nwaited; i++) if (!tasks[w->waited[i]].done) return 0;
  }
  return 1;
}

/* ---- one OS thread per simulated worker (list mode: the recorder keys its state on the thread) ---- */
#define MAXW 64
static int use_threads;
static pthread_t w_thr[MAXW]; static int w_started[MAXW];
static pthread_mutex_t w_mu = PTHREAD_MUTEX_INITIALIZER;
static pthread_cond_t w_cv = PTHREAD_COND_INITIALIZER;
static int job_worker = -1, job_done;
static void (*job_fn)(int, dr_options *); static int job_tk; static dr_options * job_opts;
static void * worker_main(void * a) {
  int w = (int)(long)a;
  pthread_mutex_lock(&w_mu);
  for (;;) {
    while (job_worker != w) pthread_cond_wait(&w_cv, &w_mu);
    job_fn(job_tk, job_opts);
    job_worker = -1; job_done = 1;
    pthread_cond_broadcast(&w_cv);
  }
  return 0;
}
static void on_worker(int w, void (*fn)(int, dr_options *), int tk, dr_options * opts) {
  if (!use_threads) { fn(tk, opts); return; }
  if (w < 0 || w >= MAXW) { fprintf(stderr, "c18_sim: worker id out of range\n"); exit(3); }
  pthread_mutex_lock(&w_mu);
  if (!w_started[w]) { w_started[w] = 1; pthread_create(&w_thr[w], 0, worker_main, (void *)(long)w); }
  job_fn = fn; job_tk = tk; job_opts = opts; job_done = 0; job_worker = w;
  pthread_cond_broadcast(&w_cv);
  while (!job_done) pthread_cond_wait(&w_cv, &w_mu);
  pthread_mutex_unlock(&w_mu);
}

/* execute one interval of task tk (on the thread of the worker that executes it) */
static void run_unit(int tk, dr_options * opts) {
  task_t * T = &tasks[tk];
  step_t * st = &T->v[T->pos];
  int i;
  cur_task = tk;
  g_cur_worker = st->leaf.w;
  vclock = st->leaf.s;
  /* the call that starts the interval */
  if (T->pos == 0) {
    if (tk == 0) dr_start(opts);        /* reads the clock twice: start_clock, start of the first interval */
    else dr_start_task(T->create);
  } else {
    switch (T->v[T->pos - 1].op) {
    case 'o': dr_return_from_other(T->handle); break;
    case 'c': dr_return_from_create_task(T->handle); break;
    case 'w': {
      long before = track_interior ? count_mat(GS.root) : 0;
      dr_return_from_wait_tasks(T->handle);
      if (track_interior) note_close(before, dr_task_last_node(T->handle));
      break;
    }
    }
  }
  for (i = 0; i < st->nbegin; i++) dr_begin_section();
  /* the call that ends it */
  vclock = st->leaf.e;
  switch (st->op) {
  case 'o': T->handle = dr_enter_other(); break;
  case 'c': {
    dr_dag_node * c = 0;
    cur_child = st->child;
    T->handle = dr_enter_create_task(&c);
    tasks[st->child].create = c; tasks[st->child].startable = 1;
    break;
  }
  case 'w': T->handle = dr_enter_wait_tasks(); break;
  case 'e': {
    long before = track_interior ? count_mat(GS.root) : 0;
    if (tk == 0) dr_stop(); else dr_end_task();
    if (track_interior) note_close(before, T->node);
    T->done = 1;
    break;
  }
  }
  T->pos++;
}

static void run_all(dr_options * opts, long order) {
  unsigned long long rs = 0x9E3779B97F4A7C15ull * (unsigned long long)(order + 1);
  int left = ntasks, i;
  for (i = 0; i < ntasks; i++) { tasks[i].pos = 0; tasks[i].done = 0; tasks[i].startable = (i == 0); }
  while (left > 0) {
    int pick = -1;
    if (order == 0) {            /* work-first: the newest task that can run */
      for (i = ntasks - 1; i >= 0; i--) if (unit_ready(&tasks[i])) { pick = i; break; }
    } else if (order == 1) {     /* help-first: the oldest task that can run */
      for (i = 0; i < ntasks; i++) if (unit_ready(&tasks[i])) { pick = i; break; }
    } else {
      int n = 0, k;
      for (i = 0; i < ntasks; i++) if (unit_ready(&tasks[i])) n++;
      rs = rs * 6364136223846793005ull + 1442695040888963407ull;
      k = n ? (int)((rs >> 33) % (unsigned)n) : 0;
      for (i = 0; i < ntasks; i++) if (unit_ready(&tasks[i]) && k-- == 0) { pick = i; break; }
    }
    if (pick < 0) { fprintf(stderr, "c18_sim: no task can run\n"); exit(3); }
    on_worker(tasks[pick].v[tasks[pick].pos].leaf.w, run_unit, pick, opts);
    if (tasks[pick].done) left--;
  }
}

static long long stat_num(const char * txt, const char * key) {
  const char * p = strstr(txt, key);
  if (!p) return -1;
  p = strchr(p, '=');
  if (!p) return -1;
  return strtoll(p + 1, 0, 10);
}
/* sum of the (P+1)x(P+1) matrix printed after the given header line */
static long long stat_matrix_sum(const char * txt, const char * header, long long P) {
  const char * p = strstr(txt, header);
  long long s = 0, i;
  if (!p || P < 0 || P > 4096) return -1;
  p += strlen(header);
  for (i = 0; i < (P + 1) * (P + 1); i++) { char * q; long long v = strtoll(p, &q, 10); if (q == p) return -1; s += v; p = q; }
  return s;
}

static void run_setting(setting_t * st, int nw, const char * dir, FILE * out) {
  dr_options opts[1];
  char prefix[512], path[600];
  dr_options_default(opts);
  snprintf(prefix, sizeof prefix, "%s/c18_%d", dir, (int)getpid());
  opts->dag_file_prefix = prefix;
  opts->dag_file_yes = 0; opts->stat_file_yes = 1; opts->gpl_file_yes = 0; opts->dot_file_yes = 0; opts->text_file_yes = 0;
  if (st->chk < 10) {
    opts->uncollapse_min = st->umin; opts->collapse_max = st->cmax;
    opts->node_count_target = st->nct; opts->prune_threshold = st->prune; opts->collapse_max_count = st->cmc;
  }                             /* chk >= 10: the library's default thresholds */
  opts->chk_level = (char)(st->chk % 10);
  opts->worker_specific_state_array = (char)st->array;
  use_threads = !st->array;
  opts->on = 1; opts->verbose_level = 0; opts->dbg_level = 0; opts->papi_on = 0; opts->record_cpu = 0;
  opts->hooks.start_task = hk_start_task; opts->hooks.begin_section = hk_begin_section;
  opts->hooks.enter_create_task = hk_interval; opts->hooks.enter_wait_tasks = hk_interval;
  opts->hooks.enter_other = hk_interval; opts->hooks.end_task = hk_interval;
  opts->hooks.return_from_create_task = hk_ret_create; opts->hooks.return_from_wait_tasks = hk_ret_wait;
  opts->hooks.return_from_other = hk_ret_other;
  g_dr_verif_clock = vclock_read;
  g_max_workers = nw;
  evlen = 0; ev("%s", "");
  n_interior = 0;
  track_interior = (opts->node_count_target != 0);
  run_all(opts, st->order);
  {
    dr_dag_node_info * I = &GS.root->info;
    fprintf(out, "rc=0 t1=%llu tinf=%llu nodes=%ld,%ld,%ld,%ld edges=%ld,%ld,%ld,%ld,%ld cur=%ld mat=%ld",
            I->t_1, I->t_inf,
            I->logical_node_counts[dr_dag_node_kind_create_task], I->logical_node_counts[dr_dag_node_kind_wait_tasks],
            I->logical_node_counts[dr_dag_node_kind_other], I->logical_node_counts[dr_dag_node_kind_end_task],
            I->logical_edge_counts[dr_dag_edge_kind_end], I->logical_edge_counts[dr_dag_edge_kind_create],
            I->logical_edge_counts[dr_dag_edge_kind_create_cont], I->logical_edge_counts[dr_dag_edge_kind_wait_cont],
            I->logical_edge_counts[dr_dag_edge_kind_other_cont], I->cur_node_count, count_mat(GS.root));
  }
  fflush(out);
  {
    long col = count_col(GS.root);
    long long P = -1;
    /* the report generated by the recorder itself */
    dr_dump();
    snprintf(path, sizeof path, "%s.stat", prefix);
    {
      FILE * fp = fopen(path, "r");
      if (!fp) { fprintf(out, " ; stat missing"); }
      else {
        static char txt[1 << 18]; size_t n = fread(txt, 1, sizeof txt - 1, fp); txt[n] = 0; fclose(fp); unlink(path);
        P = stat_num(txt, "n_workers (P)");
        fprintf(out, " ; stat work=%lld tinf=%lld cr=%lld wt=%lld en=%lld dagnodes=%lld mat=%lld sedges=%lld,%lld,%lld,%lld,%lld",
                stat_num(txt, "work (T1)"), stat_num(txt, "critical_path (T_inf)"), stat_num(txt, "create_task "),
                stat_num(txt, "wait_tasks "), stat_num(txt, "end_task "), stat_num(txt, "dag nodes"), stat_num(txt, "materialized nodes"),
                stat_matrix_sum(txt, "end-parent edges:\n", P), stat_matrix_sum(txt, "create-child edges:\n", P),
                stat_matrix_sum(txt, "create-cont edges:\n", P), stat_matrix_sum(txt, "wait-cont edges:\n", P),
                stat_matrix_sum(txt, "other-cont edges:\n", P));
      }
    }
    fprintf(out, " ; ev%s", evbuf);
    fprintf(out, " ; cov P=%lld col=%ld interior=%ld", P, col, n_interior);
  }
  fflush(out);
}

int main(int argc, char ** argv) {
  const char * dir = argc > 1 ? argv[1] : ".";
  char * line = 0; size_t cap = 0;
  while (getline(&line, &cap, stdin) > 0) {
    int nw, nset, i;
    setting_t * sets;
    tnode * root;
    char * save, * p;
    /* tokenise */
    ntok = 0; tpos = 0; free(toks); toks = 0;
    for (p = strtok_r(line, " \t\r\n", &save); p; p = strtok_r(0, " \t\r\n", &save)) {
      toks = realloc(toks, sizeof(char *) * (ntok + 1)); toks[ntok++] = p;
    }
    if (ntok == 0) { printf("\n"); continue; }
    nw = atoi(nexttok()); nset = atoi(nexttok());
    sets = calloc(nset, sizeof(setting_t));
    for (i = 0; i < nset; i++) {
      sets[i].umin = strtoull(nexttok(), 0, 10); sets[i].cmax = strtoull(nexttok(), 0, 10);
      sets[i].nct = atol(nexttok()); sets[i].prune = atol(nexttok()); sets[i].cmc = atol(nexttok()); sets[i].chk = atoi(nexttok());
      sets[i].order = atol(nexttok()); sets[i].array = atoi(nexttok());
    }
    if (strcmp(nexttok(), "T")) { fprintf(stderr, "c18_sim: T expected\n"); exit(3); }
    root = parse_task();
    ntasks = 0; tasks = 0; pending_begin = 0;
    flatten_task(new_task(), root);
    for (i = 0; i < nset; i++) {
      int fd[2]; pid_t pid; int status = 0; char buf[4096]; ssize_t k; size_t got = 0;
      fflush(stdout);
      if (pipe(fd)) { perror("pipe"); exit(3); }
      pid = fork();
      if (pid == 0) {
        FILE * out = fdopen(fd[1], "w");
        close(fd[0]);
        { int dn = open("/dev/null", 1); if (dn >= 0) { dup2(dn, 2); } }  /* recorder diagnostics */
        alarm(10);               /* a recorder that walks freed memory may loop for ever */
        run_setting(&sets[i], nw, dir, out);
        fclose(out);
        _exit(0);
      }
      close(fd[1]);
      if (i) printf(" | ");
      {
        char * acc = 0;
        while ((k = read(fd[0], buf, sizeof buf)) > 0) { acc = realloc(acc, got + k + 1); memcpy(acc + got, buf, k); got += k; }
        close(fd[0]);
        waitpid(pid, &status, 0);
        if (WIFEXITED(status) && WEXITSTATUS(status) == 0 && got > 0) { acc[got] = 0; fputs(acc, stdout); }
        else if (WIFSIGNALED(status)) printf("rc=sig%d", WTERMSIG(status));
        else printf("rc=%d", WIFEXITED(status) ? (WEXITSTATUS(status) ? WEXITSTATUS(status) : 99) : 98);
        free(acc);
      }
    }
    printf("\n");
    fflush(stdout);
    free(sets);
  }
  return 0;
}
