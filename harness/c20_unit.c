/* C20 unit/library harness.  Reads cases on stdin, prints one result line per case.
 *
 *   add  as an bs bn         -> "add <sec> <nsec>"          (myth_timespec_add of the current tree)
 *   gt   as an bs bn         -> "gt <0|1>"
 *   nsleep  rs rn  K c0s c0n ... -> "ret <code> reads <r> yields <y>"   myth_nanosleep under a scripted clock
 *   nsleepr M rs rn ps pn K c..  -> "ret <code> reads <r> yields <y> rem <s> <n> req <s> <n>"  myth_nanosleep(req, rem) with
 *                                   M = 0: rem = NULL ("rem none"), 1: rem = a separate object holding (ps, pn) before the call,
 *                                   2: rem = req (the same object; ps pn ignored).  After the call the contents of *rem and *req.
 *   usleep  usec   K clock...    -> same, through myth_usleep
 *   sleep   s      K clock...    -> same, through myth_sleep
 *   tlock   ds dn  F  K clock...  -> myth_mutex_timedlock; the mutex is free from attempt F on (F<0: never)
 *   tjoin   ds dn  F  K clock...  -> myth_timedjoin;       the target has finished from attempt F on
 *
 * The clock is the MYTH_VERIF virtual clock: reading k returns script[k] (the last entry repeats).
 * For tlock/tjoin a helper thread holds the mutex / keeps running and lets go right before
 * attempt i (it counts the caller's yields), so availability at each attempt is exactly the script. */
#include <stdio.h>
#include <stdlib.h>
#include <string.h>
#include <errno.h>
#include "myth/myth.h"
#include "myth_config.h"
#include "myth_sched_func.h"
#include "myth_sync_func.h"

#define MAXK 4096
static struct timespec script[MAXK];
static int n_script, n_reads;
static volatile long n_yields;
static myth_thread_t g_caller;

static int vclock(struct timespec * ts) {
  int k = n_reads < n_script ? n_reads : n_script - 1;
  *ts = script[k];
  n_reads++;
  return 0;
}
static void cb(int kind, const char * id, const void * obj, long val) {
  (void)val;
  if (kind == MYTH_VERIF_KIND_EVENT && strcmp(id, "yield.enter") == 0 && obj == (void*)g_caller) n_yields++;
}

static int read_clock(void) {
  int K, i;
  if (scanf("%d", &K) != 1 || K < 1 || K > MAXK) return -1;
  for (i = 0; i < K; i++) {
    long s, n;
    if (scanf("%ld %ld", &s, &n) != 2) return -1;
    script[i].tv_sec = s; script[i].tv_nsec = n;
  }
  n_script = K; n_reads = 0; n_yields = 0;
  return 0;
}

/* helpers for tlock/tjoin.  With one worker the caller's attempt 0 and attempt 1 see the same
   state (no yield in between); attempt i >= 2 follows the caller's (i-1)-th yield.  g_free_at = F
   means: the resource is available from attempt F on (F = 0 or F >= 2; F < 0: never). */
static myth_mutex_t g_m[1];
static volatile int g_helper_ready;
static volatile long g_free_at;
static void * holder(void * a) {
  (void)a;
  myth_mutex_lock(g_m);
  g_helper_ready = 1;
  do { myth_yield_ex(myth_yield_option_local_only); } while (g_free_at < 0 || n_yields + 1 < g_free_at);
  myth_mutex_unlock(g_m);
  return 0;
}
static void * runner(void * a) {
  (void)a;
  g_helper_ready = 1;
  if (g_free_at == 0) return (void *)0x5a5a;
  do { myth_yield_ex(myth_yield_option_local_only); } while (g_free_at < 0 || n_yields + 1 < g_free_at);
  return (void *)0x5a5a;
}

int main(void) {
  char op[32];
  myth_globalattr_t ga[1];
  myth_globalattr_init(ga);
  myth_globalattr_set_n_workers(ga, 1);
  myth_init_ex(ga);
  g_caller = myth_self();
  g_myth_verif_cb = cb;
  while (scanf("%31s", op) == 1) {
    if (!strcmp(op, "add") || !strcmp(op, "gt")) {
      struct timespec a, b, c;
      long as, an, bs, bn;
      if (scanf("%ld %ld %ld %ld", &as, &an, &bs, &bn) != 4) return 2;
      a.tv_sec = as; a.tv_nsec = an; b.tv_sec = bs; b.tv_nsec = bn;
      if (op[0] == 'a') { myth_timespec_add(&a, &b, &c); printf("add %ld %ld\n", (long)c.tv_sec, (long)c.tv_nsec); }
      else printf("gt %d\n", myth_timespec_gt(&a, &b));
    } else if (!strcmp(op, "clocksrc")) {
      /* clocksrc N: the library's clock source against the system real-time clock.  The deadline theorems
         take the readings of hr_gettime as the time; this validates that a reading never lies before a reading
         of clock_gettime(CLOCK_REALTIME) made just before it (a source truncated to microseconds does, by up
         to 999 ns, and then a sleep measured with the real clock returns early) nor after one made just after. */
      long n, early = 0, late = 0, worst = 0; int subus = 0;
      if (scanf("%ld", &n) != 1) return 2;
      g_myth_verif_clock = 0;
      for (long i = 0; i < n; i++) {
        struct timespec a, h, b;
        clock_gettime(CLOCK_REALTIME, &a); hr_gettime(&h); clock_gettime(CLOCK_REALTIME, &b);
        long ha = (h.tv_sec - a.tv_sec) * 1000000000L + (h.tv_nsec - a.tv_nsec);
        long bh = (b.tv_sec - h.tv_sec) * 1000000000L + (b.tv_nsec - h.tv_nsec);
        if (ha < 0) { early++; if (-ha > worst) worst = -ha; }
        if (bh < 0) late++;
        if (h.tv_nsec % 1000) subus = 1;
      }
      printf("clocksrc early=%ld late=%ld worst_ns=%ld subus=%d\n", early, late, worst, subus);
    } else if (!strcmp(op, "nsleep") || !strcmp(op, "usleep") || !strcmp(op, "sleep")) {
      long rs = 0, rn = 0; int ret;
      if (!strcmp(op, "nsleep")) { if (scanf("%ld %ld", &rs, &rn) != 2) return 2; }
      else if (scanf("%ld", &rs) != 1) return 2;
      if (read_clock()) return 2;
      g_myth_verif_clock = vclock;
      if (!strcmp(op, "nsleep")) { struct timespec r; r.tv_sec = rs; r.tv_nsec = rn; ret = myth_nanosleep(&r, 0); }
      else if (!strcmp(op, "usleep")) ret = myth_usleep((useconds_t)rs);
      else ret = (int)myth_sleep((unsigned int)rs);
      g_myth_verif_clock = 0;
      printf("ret %d reads %d yields %ld\n", ret, n_reads, n_yields);
    } else if (!strcmp(op, "nsleepr")) {
      long mode, rs, rn, ps, pn; int ret;
      /* the two objects live in one array so that neither is a compiler temporary; volatile reads afterwards */
      static struct timespec cell[2];
      struct timespec * rem;
      if (scanf("%ld %ld %ld %ld %ld", &mode, &rs, &rn, &ps, &pn) != 5) return 2;
      if (read_clock()) return 2;
      cell[0].tv_sec = rs; cell[0].tv_nsec = rn; cell[1].tv_sec = ps; cell[1].tv_nsec = pn;
      rem = mode == 0 ? 0 : mode == 1 ? &cell[1] : &cell[0];
      g_myth_verif_clock = vclock;
      ret = myth_nanosleep(&cell[0], rem);
      g_myth_verif_clock = 0;
      printf("ret %d reads %d yields %ld", ret, n_reads, n_yields);
      if (rem) printf(" rem %ld %ld", (long)((volatile struct timespec *)rem)->tv_sec, (long)((volatile struct timespec *)rem)->tv_nsec);
      else printf(" rem none");
      printf(" req %ld %ld\n", (long)((volatile struct timespec *)&cell[0])->tv_sec, (long)((volatile struct timespec *)&cell[0])->tv_nsec);
    } else if (!strcmp(op, "tlock") || !strcmp(op, "tjoin")) {
      long ds, dn, F; int ret; struct timespec d; myth_thread_t h = 0; void * res = 0;
      if (scanf("%ld %ld %ld", &ds, &dn, &F) != 3) return 2;
      if (F == 1) return 3;	/* not realisable with one worker */
      if (read_clock()) return 2;
      g_free_at = F; g_helper_ready = 0;
      d.tv_sec = ds; d.tv_nsec = dn;
      if (!strcmp(op, "tlock")) {
	myth_mutex_init(g_m, 0);
	if (F != 0) {
	  /* child-first creation runs the holder at once; it yields back holding the mutex */
	  h = myth_create(holder, 0);
	  if (!g_helper_ready) return 4;
	}
	n_yields = 0; n_reads = 0;
	g_myth_verif_clock = vclock;
	ret = myth_mutex_timedlock(g_m, &d);
	g_myth_verif_clock = 0;
	printf("ret %d reads %d yields %ld\n", ret, n_reads, n_yields);
	if (ret == 0) myth_mutex_unlock(g_m);
	if (F != 0) { g_free_at = 0; myth_join(h, 0); }
	myth_mutex_destroy(g_m);
      } else {
	h = myth_create(runner, 0);
	if (!g_helper_ready) return 4;
	n_yields = 0; n_reads = 0;
	g_myth_verif_clock = vclock;
	ret = myth_timedjoin(h, &res, &d);
	g_myth_verif_clock = 0;
	printf("ret %d reads %d yields %ld val %lx\n", ret, n_reads, n_yields, ret == 0 ? (long)res : 0L);
	if (ret != 0) { g_free_at = 0; myth_join(h, 0); }
      }
    } else return 2;
    fflush(stdout);
  }
  return 0;
}
