/* C18 harness, real recording: a MassiveThreads program written against mtbb::task_group (the
 * recorder is enabled the way tests/cxx/mtbb/lambda/profiler does it: -DDAG_RECORDER=2
 * -DTO_MTHREAD_NATIVE, dag_recorder.h through <mtbb/task_group.h>, linked with libdr + libmyth)
 * and the PUBLIC macro layer (dr_start, dr_stop, dr_dump, dr_enter_other, dr_return_from_other),
 * run by the real scheduler on MYTH_NUM_WORKERS workers with the real clock.
 *
 *   c18_real N UMIN CMAX NCT PRUNE CMC ARRAY PREFIX
 *
 * The program: a fib-like recursion with nested task groups (tg1.run; tg2.run; tg2.wait; tg1.wait),
 * a third kind of frame with one task group running two tasks, and `other` intervals around
 * myth_yield() (which may migrate the caller).  It counts what it does; the recorder's totals
 * (root summary and the .stat report written to PREFIX.stat) must equal those counts whatever the
 * contraction options, the number of workers and the schedule.
 *
 * Output: one line
 *   prog creates=.. waits=.. others=.. tasks=.. value=.. ; root t1=.. tinf=.. nodes=c,w,o,e
 *   edges=end,create,ccont,wcont,ocont cur=.. workers=..
 */
#include <stdio.h>
#include <stdlib.h>
#include <string.h>
#include <myth/myth.h>
#define DAG_RECORDER 2
#include <mtbb/task_group.h>

static long n_creates, n_waits, n_others, n_tasks;
#define COUNT(x) __sync_fetch_and_add(&(x), 1)

static void other_interval(void) {
  dr_dag_node * t = dr_enter_other();
  myth_yield();
  dr_return_from_other(t);
  COUNT(n_others);
}

static long work(long k) { volatile long s = 0; long i; for (i = 0; i < k; i++) s += i; return s; }

static long fibx(int n) {
  if (n < 2) {
    work(50 + 37 * n);
    if (n == 1) other_interval();
    return n;
  }
  if (n % 3 == 0) {
    /* one group, two tasks, an `other` interval inside the section */
    mtbb::task_group tg;
    long a = 0, b = 0;
    tg.run([=, &a] { COUNT(n_tasks); a = fibx(n - 1); }); COUNT(n_creates);
    other_interval();
    tg.run([=, &b] { COUNT(n_tasks); b = fibx(n - 2); }); COUNT(n_creates);
    tg.wait(); COUNT(n_waits);
    return a + b;
  } else {
    /* nested groups: the inner one is waited first */
    mtbb::task_group tg1, tg2;
    long a = 0, b = 0;
    tg1.run([=, &a] { COUNT(n_tasks); a = fibx(n - 1); }); COUNT(n_creates);
    tg2.run([=, &b] { COUNT(n_tasks); b = fibx(n - 2); }); COUNT(n_creates);
    work(200);
    tg2.wait(); COUNT(n_waits);
    if (n % 2) other_interval();
    tg1.wait(); COUNT(n_waits);
    return a + b;
  }
}

int main(int argc, char ** argv) {
  if (argc < 9) { fprintf(stderr, "usage: c18_real N UMIN CMAX NCT PRUNE CMC ARRAY PREFIX\n"); return 2; }
  int n = atoi(argv[1]);
  dr_options opts[1];
  dr_options_default(opts);
  opts->uncollapse_min = strtoull(argv[2], 0, 10);
  opts->collapse_max = strtoull(argv[3], 0, 10);
  opts->node_count_target = atol(argv[4]);
  opts->prune_threshold = atol(argv[5]);
  opts->collapse_max_count = atol(argv[6]);
  opts->worker_specific_state_array = (char)atoi(argv[7]);
  opts->dag_file_prefix = argv[8];
  opts->dag_file_yes = 0; opts->stat_file_yes = 1; opts->gpl_file_yes = 0; opts->dot_file_yes = 0; opts->text_file_yes = 0;
  opts->on = 1; opts->verbose_level = 0; opts->dbg_level = 0; opts->chk_level = 0; opts->papi_on = 0;
  myth_init();
  dr_start(opts);
  long v = fibx(n);
  other_interval();
  dr_stop();
  dr_dump();
  {
    dr_dag_node_info * I = &GS.root->info;
    printf("prog creates=%ld waits=%ld others=%ld tasks=%ld value=%ld ; root t1=%llu tinf=%llu nodes=%ld,%ld,%ld,%ld "
           "edges=%ld,%ld,%ld,%ld,%ld cur=%ld workers=%d\n",
           n_creates, n_waits, n_others, n_tasks, v, I->t_1, I->t_inf,
           I->logical_node_counts[dr_dag_node_kind_create_task], I->logical_node_counts[dr_dag_node_kind_wait_tasks],
           I->logical_node_counts[dr_dag_node_kind_other], I->logical_node_counts[dr_dag_node_kind_end_task],
           I->logical_edge_counts[dr_dag_edge_kind_end], I->logical_edge_counts[dr_dag_edge_kind_create],
           I->logical_edge_counts[dr_dag_edge_kind_create_cont], I->logical_edge_counts[dr_dag_edge_kind_wait_cont],
           I->logical_edge_counts[dr_dag_edge_kind_other_cont], I->cur_node_count, (int)myth_get_num_workers());
  }
  fflush(stdout);
  return 0;
}
