/* C02 unit harness: the real deque of the current tree under a token-passing controller.
 *
 * Built by tools/props/c02.py from vlib.REPO with
 *     -DMYTH_VERIF -DMYTH_VERIF_QUEUE_SIZE=<4|8|16>
 * It #includes the real src/myth_wsqueue_func.h; nothing of the deque is re-implemented here.
 *
 * stdin: one case per line
 *     <size> <nthieves> | <owner ops> | <thief 1 ops> | ... | <schedule>
 *   owner ops :  P<tag> push   O pop   U<tag> put
 *   thief ops :  T take   S<tag> trypass   K peek
 *   schedule  :  participant indices (0 = owner, i = thief i), or u<p>.<n> = "step participant p
 *                until it has completed n operations"; one index entry = one step of that
 *                participant (enter its next operation up to the first POINT / run to the next
 *                POINT / return).  After the explicit schedule the remaining steps are made
 *                round-robin until every participant has finished.
 * stdout: one line per case
 *     <step>|<step>|...[ABORT|TIMEOUT] # <fence log>
 *   step = <participant>:<top>,<base>,<lock>,<wc.seq>,<wc.ptr>:<slot tags>:<label>/<label>/...
 *   label = "-" (between operations / finished), "ret(<value>)", or "<POINT id>(<val>)"
 *   fence log = <step index>:<r|w|rw> ... (MYTH_VERIF_EVENTs "wsq.fence.*", in order)
 *
 * Exactly one participant runs at a time: every MYTH_VERIF_POINT parks the calling thread and
 * gives control back to the controller (main thread), which prints the canonical snapshot and
 * wakes the participant named by the next schedule entry.  A participant whose spin-lock
 * attempt fails comes back to the same POINT without having changed anything.
 * Each case runs in a forked child so that abort() on overflow is observed as SIGABRT. */
#define _GNU_SOURCE
#include <stdio.h>
#include <stdlib.h>
#include <string.h>
#include <stdint.h>
#include <pthread.h>
#include <semaphore.h>
#include <signal.h>
#include <unistd.h>
#include <sys/wait.h>
#include <fcntl.h>

#include "myth_config.h"
#include "myth_wsqueue.h"
#include "myth_wsqueue_func.h"

void * real_malloc(size_t n) { return malloc(n); }
void real_free(void * p) { free(p); }

#define MAXP 8
#define MAXOPS 256
#define MAXSCHED 8192
#define STEPCAP 6000

typedef struct { char kind; long tag; } op_t;
typedef struct part {
  int idx, nops;
  op_t ops[MAXOPS];
  sem_t go;
  const char * at;      /* id of the POINT the thread is parked at */
  long val;
  long result;
  volatile int finished;
  volatile int ops_done;   /* operations whose return has been consumed */
  pthread_t th;
} part_t;

static part_t P[MAXP];
static int NP;
static sem_t back;
static __thread part_t * me;
static myth_thread_queue Q;
static char dummy[1 << 16];
static int cur_step;
static char fence_log[1 << 16];
static int fence_len;

static myth_thread_t tag2p(long tag) { return tag ? (myth_thread_t)(dummy + tag) : NULL; }
static long p2tag(const void * p) {
  if (!p) return 0;
  if ((const char *)p < dummy || (const char *)p >= dummy + sizeof(dummy)) return -1;
  return (const char *)p - dummy;
}

static void park(const char * id, long val) {
  me->at = id; me->val = val;
  sem_post(&back);
  sem_wait(&me->go);
}

static void cb(int kind, const char * id, const void * obj, long val) {
  (void)obj;
  if (!me) return;
  if (kind == MYTH_VERIF_KIND_POINT) {
    park(id, val);
  } else if (kind == MYTH_VERIF_KIND_EVENT) {
    if (strncmp(id, "wsq.fence.", 10) == 0 && fence_len < (int)sizeof(fence_log) - 32)
      fence_len += sprintf(fence_log + fence_len, " %d:%s", cur_step, id + 10);
  }
}

static void * body(void * a) {
  part_t * p = (part_t *)a;
  int i;
  me = p;
  for (i = 0; i < p->nops; i++) {
    long r = 0;
    park("h.call", 0);
    switch (p->ops[i].kind) {
    case 'P': myth_queue_push(&Q, tag2p(p->ops[i].tag)); break;
    case 'O': r = p2tag(myth_queue_pop(&Q)); break;
    case 'U': myth_queue_put(&Q, tag2p(p->ops[i].tag)); break;
    case 'T': r = p2tag(myth_queue_take(&Q)); break;
    case 'S': r = myth_queue_trypass(&Q, tag2p(p->ops[i].tag)); break;
    case 'K': r = p2tag(myth_queue_peek(&Q)); break;
    }
    p->result = r;
    park("h.ret", 0);
    p->ops_done = i + 1;
  }
  p->finished = 1;
  sem_post(&back);
  return 0;
}

static int val_is_ptr(const char * id) {
  return strncmp(id, "wsq.push.", 9) == 0 || strncmp(id, "wsq.put.", 8) == 0 ||
         strncmp(id, "wsq.pass.", 9) == 0;
}

static char out[1 << 20];
static int outlen, outdone;
static void flush_out(void) {
  while (outdone < outlen) {
    ssize_t k = write(1, out + outdone, outlen - outdone);
    if (k <= 0) break;
    outdone += k;
  }
  outlen = outdone = 0;
}

static void snapshot(int who, int first) {
  int i;
  char * o = out + outlen;
  if (!first) *o++ = '|';
  o += sprintf(o, "%d:%d,%d,%d,%d,%ld:", who, Q.top, Q.base, Q.lock.locked, Q.wc.seq, p2tag((void *)Q.wc.ptr));
  for (i = 0; i < Q.size; i++) o += sprintf(o, i ? ",%ld" : "%ld", p2tag(Q.ptr[i]));
  *o++ = ':';
  for (i = 0; i < NP; i++) {
    part_t * p = &P[i];
    if (i) *o++ = '/';
    if (p->finished || strcmp(p->at, "h.call") == 0) *o++ = '-';
    else if (strcmp(p->at, "h.ret") == 0) o += sprintf(o, "ret(%ld)", p->result);
    else o += sprintf(o, "%s(%ld)", p->at, val_is_ptr(p->at) ? p2tag((void *)p->val) : p->val);
  }
  outlen = o - out;
  flush_out();
}

static int sched[MAXSCHED], sched_until[MAXSCHED], nsched;   /* sched_until[k] >= 0: token u<p>.<n> */

static void do_step(int i, int * first) {
  if (i >= 0 && i < NP && !P[i].finished) {
    sem_post(&P[i].go);
    sem_wait(&back);
  }
  snapshot(i, *first);
  *first = 0;
  cur_step++;
}

static void run_case(void) {
  int i, k, first = 1, steps = 0;
  sem_init(&back, 0, 0);
  myth_queue_init(&Q);
  g_myth_verif_cb = cb;
  for (i = 0; i < NP; i++) {
    sem_init(&P[i].go, 0, 0);
    P[i].idx = i; P[i].finished = 0; P[i].ops_done = 0; P[i].at = "h.call";
    pthread_create(&P[i].th, 0, body, &P[i]);
  }
  for (i = 0; i < NP; i++) sem_wait(&back);
  cur_step = 0;
  for (k = 0; k < nsched; k++) {
    if (sched_until[k] < 0) { do_step(sched[k], &first); steps++; }
    else {
      int p = sched[k], guard = 0;
      while (p >= 0 && p < NP && !P[p].finished && P[p].ops_done < sched_until[k] && guard++ < 400) {
        do_step(p, &first); steps++;
      }
    }
  }
  for (;;) {
    int all = 1;
    for (i = 0; i < NP; i++) if (!P[i].finished) all = 0;
    if (all || steps >= STEPCAP) break;
    for (i = 0; i < NP; i++) if (!P[i].finished) { do_step(i, &first); steps++; }
  }
  outlen += sprintf(out + outlen, " #%s", fence_log);
  flush_out();
}

static int parse_case(char * line) {
  char * save = 0, * fld;
  int size, nth, f = 0;
  NP = 0; nsched = 0; fence_len = 0; fence_log[0] = 0;
  for (fld = strtok_r(line, "|", &save); fld; fld = strtok_r(0, "|", &save), f++) {
    char * s2 = 0, * tok;
    if (f == 0) {
      if (sscanf(fld, "%d %d", &size, &nth) != 2) return -1;
      if (size != MYTH_VERIF_QUEUE_SIZE || nth + 1 > MAXP) return -2;
      NP = nth + 1;
      continue;
    }
    if (f <= NP) {
      part_t * p = &P[f - 1];
      p->nops = 0;
      for (tok = strtok_r(fld, " \n", &s2); tok; tok = strtok_r(0, " \n", &s2)) {
        if (p->nops >= MAXOPS) return -3;
        p->ops[p->nops].kind = tok[0];
        p->ops[p->nops].tag = tok[1] ? atol(tok + 1) : 0;
        p->nops++;
      }
    } else {
      for (tok = strtok_r(fld, " \n", &s2); tok; tok = strtok_r(0, " \n", &s2)) {
        if (nsched >= MAXSCHED) return -4;
        if (tok[0] == 'u') {
          char * dot = strchr(tok, '.');
          if (!dot) return -6;
          sched[nsched] = atoi(tok + 1); sched_until[nsched] = atoi(dot + 1);
        } else { sched[nsched] = atoi(tok); sched_until[nsched] = -1; }
        nsched++;
      }
    }
  }
  return f >= NP + 1 ? 0 : -5;
}

int main(void) {
  static char line[1 << 18];
  while (fgets(line, sizeof(line), stdin)) {
    int rc = parse_case(line), st = 0;
    pid_t pid;
    if (rc) { printf("BADCASE %d\n", rc); fflush(stdout); continue; }
    fflush(stdout);
    pid = fork();
    if (pid == 0) {
      int fd = open("/dev/null", 1);
      if (fd >= 0) dup2(fd, 2);          /* "Fatal error:Runqueue overflow" goes nowhere */
      alarm(10);
      run_case();
      _exit(0);
    }
    waitpid(pid, &st, 0);
    if (WIFSIGNALED(st) && WTERMSIG(st) == SIGABRT) { if (write(1, "|ABORT\n", 7) < 0) return 1; }
    else if (WIFSIGNALED(st)) { char b[64]; int n = sprintf(b, "|SIGNAL %d\n", WTERMSIG(st)); if (write(1, b, n) < 0) return 1; }
    else { if (write(1, "\n", 1) < 0) return 1; }
  }
  return 0;
}
