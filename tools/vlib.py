"""Shared machinery of the /verif checks (see DESIGN.md section 2.6).

Every check:
  1. (re)generates the Coq files derived from /repo, builds the Coq targets the
     property needs (full .vo), counts obligations / discharged, collects
     Print Assumptions;
  2. builds the C harnesses from /repo's *current working tree* with -DMYTH_VERIF,
     runs implementation and extracted model on the same cases and diffs;
  3. writes evidence/<id>.json;
  4. prints VIOLATION / KNOWN-FINDING lines and returns the exit status.
"""
import fcntl, hashlib, json, os, re, shutil, subprocess, sys, time, random

VERIF = os.path.dirname(os.path.dirname(os.path.abspath(__file__)))
REPO = os.environ.get("VERIF_REPO", "/repo")
BUILD = os.path.join(VERIF, "build")
COQ = os.path.join(VERIF, "coq")
NPROC = os.cpu_count() or 4

COMMON_SRCS = ["myth_log.c", "myth_sched.c", "myth_internal_barrier.c", "myth_bind_worker.c",
               "myth_worker.c", "myth_sync.c", "myth_init.c", "myth_misc.c", "myth_tls.c",
               "myth_thread.c", "myth_context.c", "myth_if_native.c", "myth_real.c", "myth_eco.c"]
WRAP_SRCS = ["myth_wrap_pthread.c", "myth_wrap_malloc.c", "myth_wrap_socket.c"]

FORBIDDEN = re.compile(r"\b(Admitted|admit|Axiom|Axioms|Parameter|Parameters|Conjecture|Conjectures|"
                       r"Hypothesis|Hypotheses|Variable|Variables|Admit Obligations)\b|Unset Guard|"
                       r"bypass_check|type-in-type|impredicative-set|Unset Universe Checking|"
                       r"Unset Positivity")


def sh(cmd, cwd=None, timeout=None, env=None, input=None):
    """run a command, return (rc, stdout+stderr)"""
    try:
        p = subprocess.run(cmd, cwd=cwd, timeout=timeout, env=env, input=input,
                           stdout=subprocess.PIPE, stderr=subprocess.STDOUT,
                           shell=isinstance(cmd, str), text=True, errors="replace")
        return p.returncode, p.stdout
    except subprocess.TimeoutExpired as e:
        out = e.stdout or ""
        if isinstance(out, bytes):
            out = out.decode("utf-8", "replace")
        return 124, out + "\n[timeout]"


def run_queue_capacity(default=131072):
    """INITIAL_QUEUE_SIZE of the tree under check (src/myth_config.h): the fixed length of every worker's run queue.
    No property promises a capacity (C02 quantifies "up to the capacity"), so generators that need many runnable
    threads on one worker scale themselves by it instead of assuming the pinned value."""
    try:
        t = open(os.path.join(REPO, "src", "myth_config.h"), errors="replace").read()
        m = re.search(r"#define\s+INITIAL_QUEUE_SIZE\s+(.+)", t)
        e = m.group(1).split("//")[0].split("/*")[0].strip()
        if re.fullmatch(r"[0-9()*+<\s]+", e):
            return int(eval(e))
    except Exception:
        pass
    return default


def sha(*parts):
    h = hashlib.sha256()
    for p in parts:
        if isinstance(p, str):
            p = p.encode()
        h.update(p)
        h.update(b"\0")
    return h.hexdigest()


def file_sha(path):
    try:
        with open(path, "rb") as f:
            return hashlib.sha256(f.read()).hexdigest()
    except OSError:
        return "missing"


class Lock:
    def __init__(self, name):
        os.makedirs(BUILD, exist_ok=True)
        self.path = os.path.join(BUILD, "." + name + ".lock")

    def __enter__(self):
        self.f = open(self.path, "w")
        fcntl.flock(self.f, fcntl.LOCK_EX)
        return self

    def __exit__(self, *a):
        fcntl.flock(self.f, fcntl.LOCK_UN)
        self.f.close()


# ----------------------------------------------------------------------------------------------
# /repo configuration
# ----------------------------------------------------------------------------------------------

def ensure_config_h():
    """src/config.h is produced by ./configure (git-ignored).  If a restore lost it, regenerate it
    out of tree so that nothing under /repo is touched."""
    cfg = os.path.join(REPO, "src", "config.h")
    if os.path.exists(cfg):
        return os.path.join(REPO, "src")
    alt = os.path.join(BUILD, "conf")
    if not os.path.exists(os.path.join(alt, "src", "config.h")):
        os.makedirs(alt, exist_ok=True)
        with Lock("conf"):
            if not os.path.exists(os.path.join(alt, "src", "config.h")):
                rc, out = sh([os.path.join(REPO, "configure"), "CFLAGS=-Wno-error"], cwd=alt, timeout=600)
                if rc != 0:
                    raise RuntimeError("configure failed:\n" + out[-2000:])
    return os.path.join(alt, "src")


def makefile_vars():
    """variables of src/Makefile.am of the tree under check (continuation lines joined); the library's own
    compile flags and source lists are READ from it on every run, so that a change of the build defaults
    (an added -D, a different wrap flavour, a new source file) reaches the checks"""
    try:
        txt = open(os.path.join(REPO, "src", "Makefile.am"), errors="replace").read()
    except OSError:
        return {}
    txt = txt.replace("\\\n", " ")
    vs = {}
    for m in re.finditer(r"^([A-Za-z_][A-Za-z0-9_]*)\s*(\+?=)\s*(.*)$", txt, re.M):
        k, op, v = m.group(1), m.group(2), m.group(3).strip()
        vs[k] = (vs.get(k, "") + " " + v).strip() if op == "+=" else v
    return vs


def _expand(vs, val, depth=0):
    if depth > 5:
        return val
    return re.sub(r"\$\((\w+)\)", lambda m: _expand(vs, vs.get(m.group(1), ""), depth + 1), val)


def lib_cflags(wrap="VANILLA"):
    cfgdir = ensure_config_h()
    flags = ["-Wno-error", "-w", "-DHAVE_CONFIG_H", "-I" + cfgdir, "-I" + os.path.join(REPO, "src"),
             "-I" + os.path.join(REPO, "include")]
    vs = makefile_vars()
    var = {"VANILLA": "libmyth_la_CFLAGS", "LD": "libmyth_ld_la_CFLAGS", "DL": "libmyth_dl_la_CFLAGS"}.get(wrap)
    got = []
    if var and var in vs:
        for tok in _expand(vs, vs[var]).split():
            if tok.startswith(("-D", "-U", "-f", "-m", "-O", "-std")):
                got.append(tok)
    if not any(t.startswith("-DMYTH_WRAP=") for t in got):
        got = ["-D_GNU_SOURCE", "-D_XOPEN_SOURCE", "-D_DARWIN_C_SOURCE", "-DMYTH_WRAP=MYTH_WRAP_" + wrap]
    return flags + got + ["-DMYTH_VERIF"]


def lib_sources(wrap="VANILLA"):
    """the library's translation units as listed in src/Makefile.am (fallback: the pinned list)"""
    vs = makefile_vars()
    common = [t for t in _expand(vs, vs.get("COMMON_SRCS", "")).split() if t.endswith(".c")]
    wraps = [t for t in _expand(vs, vs.get("WRAP_SRCS", "")).split() if t.endswith(".c")]
    if not common:
        common, wraps = list(COMMON_SRCS), list(WRAP_SRCS)
    return common + (wraps if wrap != "VANILLA" else [])


def repo_src_hash(subdir="src", exts=(".c", ".h", ".cc", ".opts")):
    h = hashlib.sha256()
    base = os.path.join(REPO, subdir)
    for root, dirs, files in os.walk(base):
        dirs.sort()
        if ".libs" in dirs:
            dirs.remove(".libs")
        if ".deps" in dirs:
            dirs.remove(".deps")
        for f in sorted(files):
            if f.endswith(exts):
                p = os.path.join(root, f)
                h.update(p.encode())
                with open(p, "rb") as fh:
                    h.update(fh.read())
    return h.hexdigest()


def build_lib(extra=(), wrap="VANILLA", opt="-O0", srcs=None):
    """Compile the library translation units of the current tree with -DMYTH_VERIF into a
    content-addressed directory; returns the path of the archive.  Raises on compile errors."""
    flags = lib_cflags(wrap) + [opt, "-g", "-fPIC"] + list(extra)
    srcs = srcs or lib_sources(wrap)
    key = sha(repo_src_hash("src"), repo_src_hash("include"), " ".join(flags), " ".join(srcs))[:16]
    d = os.path.join(BUILD, "lib", key)
    ar = os.path.join(d, "libmyth.a")
    with Lock("lib-" + key):
        if os.path.exists(ar):
            return ar
        os.makedirs(d, exist_ok=True)
        procs = []
        for s in srcs:
            o = os.path.join(d, s.replace(".c", ".o"))
            procs.append((s, subprocess.Popen(["gcc"] + flags + ["-c", os.path.join(REPO, "src", s), "-o", o],
                                              stdout=subprocess.PIPE, stderr=subprocess.STDOUT, text=True)))
        errs = []
        for s, p in procs:
            out, _ = p.communicate()
            if p.returncode != 0:
                errs.append(s + ":\n" + out[-1500:])
        if errs:
            shutil.rmtree(d, ignore_errors=True)
            raise BuildError("library does not compile with -DMYTH_VERIF:\n" + "\n".join(errs))
        objs = [os.path.join(d, s.replace(".c", ".o")) for s in srcs]
        rc, out = sh(["ar", "rcs", ar + ".tmp"] + objs)
        if rc != 0:
            raise BuildError("ar failed: " + out)
        os.rename(ar + ".tmp", ar)
        prune_cache(os.path.join(BUILD, "lib"), keep=12)
    return ar


def prune_cache(d, keep):
    """keep the `keep` newest entries and anything younger than two hours (concurrent checks of other
    properties - or of mutated scratch trees - may be linking against an entry right now)"""
    try:
        now = time.time()
        ents = sorted((os.path.getmtime(os.path.join(d, e)), e) for e in os.listdir(d))
        for mt, e in ents[:-keep]:
            if now - mt > 7200:
                shutil.rmtree(os.path.join(d, e), ignore_errors=True)
    except OSError:
        pass


class BuildError(Exception):
    pass


def cc(out, srcs, flags=(), libs=(), cxx=False, timeout=300):
    """compile+link a harness; raises BuildError"""
    os.makedirs(os.path.dirname(out), exist_ok=True)
    cmd = (["g++"] if cxx else ["gcc"]) + list(flags) + list(srcs) + ["-o", out] + list(libs)
    rc, o = sh(cmd, timeout=timeout)
    if rc != 0:
        raise BuildError("harness build failed: %s\n%s" % (" ".join(cmd), o[-3000:]))
    return out


# ----------------------------------------------------------------------------------------------
# Coq
# ----------------------------------------------------------------------------------------------

def coq_closure(vfiles):
    """the .v files (paths relative to coq/) that the given files depend on, transitively,
    inside the MT development (found by scanning `From MT Require ...` lines)"""
    seen, todo = [], list(vfiles)
    while todo:
        f = todo.pop()
        if f in seen or not os.path.exists(os.path.join(COQ, f)):
            continue
        seen.append(f)
        txt = strip_coq_comments(open(os.path.join(COQ, f), errors="replace").read())
        for m in re.finditer(r"From\s+MT\s+Require\s+(?:Import\s+|Export\s+)?(.*?)\.(?:\s|$)", txt, re.S):
            for mod in m.group(1).split():
                todo.append(mod.replace(".", "/") + ".v")
        for m in re.finditer(r"Require\s+(?:Import\s+|Export\s+)?((?:MT\.[\w.]+\s*)+)\.(?:\s|$)", txt):
            for mod in m.group(1).split():
                todo.append(mod[3:].replace(".", "/") + ".v")
    return seen


def coq_hygiene(vfiles=None):
    """forbidden tokens in the development (in the dependency closure of vfiles when given;
    Section-local Variable/Hypothesis are allowed only inside a Section and are checked by
    looking at Section nesting)."""
    bad = []
    if vfiles is not None:
        walk = [(COQ, None, coq_closure(vfiles))]
    else:
        walk = os.walk(COQ)
    for root, _, files in walk:
        for f in files:
            if not f.endswith(".v"):
                continue
            p = os.path.join(root, f)
            depth = 0
            txt = open(p, errors="replace").read()
            txt = strip_coq_comments(txt)
            for ln, line in enumerate(txt.split("\n"), 1):
                m = re.match(r"\s*(Section|Module Type|Module)\s+(\w+)", line)
                if m and ":=" not in line:
                    depth += 1
                if re.match(r"\s*End\s+\w+\s*\.", line):
                    depth = max(0, depth - 1)
                for mm in FORBIDDEN.finditer(line):
                    tok = mm.group(0)
                    if tok in ("Variable", "Variables", "Hypothesis", "Hypotheses") and depth > 0:
                        continue
                    bad.append("%s:%d: %s" % (os.path.relpath(p, VERIF), ln, tok))
    return bad


def strip_coq_comments(txt):
    out = []
    i, depth, n = 0, 0, len(txt)
    while i < n:
        if txt.startswith("(*", i):
            depth += 1
            i += 2
        elif txt.startswith("*)", i) and depth > 0:
            depth -= 1
            i += 2
        else:
            if depth == 0 or txt[i] == "\n":
                out.append(txt[i])
            i += 1
    return "".join(out)


def coq_make(targets, timeout=1800):
    """make the given .vo targets (paths relative to coq/); returns (ok, log)"""
    with Lock("coq"):
        gen_coqproject()
        if not os.path.exists(os.path.join(COQ, "Makefile")) or \
                os.path.getmtime(os.path.join(COQ, "Makefile")) < os.path.getmtime(os.path.join(COQ, "_CoqProject")):
            rc, out = sh("coq_makefile -f _CoqProject -o Makefile", cwd=COQ, timeout=120)
            if rc != 0:
                return False, out
        rc, out = sh(["make", "-k", "-j%d" % NPROC] + list(targets), cwd=COQ, timeout=timeout)
        return rc == 0, out


def gen_coqproject():
    """_CoqProject lists every .v file under coq/ (regenerated when the set changes)"""
    vs = []
    for root, dirs, files in os.walk(COQ):
        dirs.sort()
        for f in sorted(files):
            if f.endswith(".v") and not f.startswith("Extract_") and not f.startswith("."):
                vs.append(os.path.relpath(os.path.join(root, f), COQ))
    txt = ("-Q . MT\n-arg -w -arg -notation-overridden,-deprecated-hint-without-locality,"
           "-deprecated-instance-without-locality\n" + "\n".join(sorted(vs)) + "\n")
    p = os.path.join(COQ, "_CoqProject")
    if not os.path.exists(p) or open(p).read() != txt:
        open(p, "w").write(txt)


def theorems_in(vfile):
    txt = strip_coq_comments(open(os.path.join(COQ, vfile)).read())
    return re.findall(r"^\s*(?:Theorem|Lemma|Corollary)\s+(\w+)", txt, re.M)


def theorem_statements(vfile):
    txt = strip_coq_comments(open(os.path.join(COQ, vfile)).read())
    res = {}
    for m in re.finditer(r"^\s*(?:Theorem|Lemma|Corollary)\s+(\w+)\s*:?(.*?)\nProof\.", txt, re.M | re.S):
        res[m.group(1)] = " ".join(m.group(2).split())
    return res


def print_assumptions(module, names, workdir):
    """returns {theorem: 'Closed under the global context' | [axioms]} by loading the compiled
    module; a theorem that is missing (file did not compile) maps to None"""
    os.makedirs(workdir, exist_ok=True)
    res = {}
    src = os.path.join(workdir, "PA.v")
    with open(src, "w") as f:
        f.write("From MT Require Import %s.\n" % module)
        for n in names:
            f.write('Goal True. idtac "@@BEGIN %s". Abort.\nPrint Assumptions %s.\nGoal True. idtac "@@END". Abort.\n' % (n, n))
    rc, out = sh(["coqc", "-Q", COQ, "MT", "-o", os.path.join(workdir, "PA.vo"), src], cwd=workdir, timeout=600)
    if rc != 0:
        # fall back to one by one
        for n in names:
            with open(src, "w") as f:
                f.write("From MT Require Import %s.\nPrint Assumptions %s.\n" % (module, n))
            rc1, out1 = sh(["coqc", "-Q", COQ, "MT", "-o", os.path.join(workdir, "PA.vo"), src], cwd=workdir, timeout=600)
            res[n] = parse_assumption_block(out1) if rc1 == 0 else None
        return res
    for m in re.finditer(r"@@BEGIN (\w+)\n(.*?)@@END", out, re.S):
        res[m.group(1)] = parse_assumption_block(m.group(2))
    for n in names:
        res.setdefault(n, None)
    return res


def parse_assumption_block(txt):
    txt = txt.strip()
    if "Closed under the global context" in txt:
        return "Closed under the global context"
    axs = []
    for line in txt.split("\n"):
        m = re.match(r"^([\w.']+)\s*:", line)
        if m:
            axs.append(m.group(1))
    return axs or txt[:300]


def build_driver(prop, extract_v, driver_ml, deps_vo):
    """extract (ExtrOcamlBasic only) and build the OCaml driver of one property.
    Returns path to the executable."""
    d = os.path.join(BUILD, "ocaml", prop)
    key = sha(file_sha(os.path.join(COQ, extract_v)), file_sha(os.path.join(VERIF, "ocaml", driver_ml)),
              file_sha(os.path.join(VERIF, "ocaml", "zio.ml")),
              *[file_sha(os.path.join(COQ, v)) for v in deps_vo])
    exe = os.path.join(d, "driver")
    stamp = os.path.join(d, "stamp")
    with Lock("ocaml-" + prop):
        if os.path.exists(exe) and os.path.exists(stamp) and open(stamp).read() == key:
            return exe
        shutil.rmtree(d, ignore_errors=True)
        os.makedirs(d)
        shutil.copy(os.path.join(COQ, extract_v), os.path.join(d, "Extract.v"))
        rc, out = sh(["coqc", "-Q", COQ, "MT", "Extract.v"], cwd=d, timeout=900)
        if rc != 0:
            raise BuildError("extraction failed:\n" + out[-3000:])
        shutil.copy(os.path.join(VERIF, "ocaml", driver_ml), os.path.join(d, "driver.ml"))
        shutil.copy(os.path.join(VERIF, "ocaml", "zio.ml"), os.path.join(d, "zio.ml"))
        mls = sorted(f for f in os.listdir(d) if f.endswith(".ml") and f != "driver.ml")
        # dependency order via ocamldep -sort
        rc, out = sh(["ocamlfind", "ocamldep", "-sort"] + [f for f in os.listdir(d) if f.endswith((".ml", ".mli"))], cwd=d)
        order = out.split() if rc == 0 else []
        order = [f for f in order if f != "driver.ml"] + ["driver.ml"]
        rc, out = sh(["ocamlfind", "ocamlopt", "-w", "-a", "-O2"] + order + ["-o", "driver"], cwd=d, timeout=600)
        if rc != 0:
            rc, out = sh(["ocamlfind", "ocamlopt", "-w", "-a"] + order + ["-o", "driver"], cwd=d, timeout=600)
        if rc != 0:
            raise BuildError("ocaml driver build failed:\n" + out[-3000:])
        open(stamp, "w").write(key)
    return exe


def run_lines(cmd, cases, timeout=600, cwd=None, env=None):
    """feed one case per line, expect one output line per case; returns (lines, rc, raw)"""
    rc, out = sh(cmd, input="\n".join(cases) + "\n", timeout=timeout, cwd=cwd, env=env)
    lines = out.split("\n")
    if lines and lines[-1] == "":
        lines.pop()
    return lines, rc, out


def diff_lines(cases, impl, model):
    """list of (index, case, impl_line, model_line) where they differ (missing lines count)"""
    res = []
    for i, c in enumerate(cases):
        a = impl[i] if i < len(impl) else "<no output>"
        b = model[i] if i < len(model) else "<no output>"
        if a != b:
            res.append((i, c, a, b))
    return res


# ----------------------------------------------------------------------------------------------
# known findings, replays, evidence
# ----------------------------------------------------------------------------------------------

def known_findings(prop):
    p = os.path.join(VERIF, "known_findings.json")
    if not os.path.exists(p):
        return []
    d = json.load(open(p))
    return [f for f in d.get("findings", []) if f.get("property") == prop]


def write_replay(prop, body):
    os.makedirs(os.path.join(VERIF, "replays"), exist_ok=True)
    txt = json.dumps(body, indent=1, sort_keys=True, default=str)
    name = "%s-%s.json" % (prop, hashlib.sha1(txt.encode()).hexdigest()[:12])
    path = os.path.join(VERIF, "replays", name)
    with open(path, "w") as f:
        f.write(txt + "\n")
    return path


class Splitmix:
    """one PRNG state per run; every random choice derives from it"""
    def __init__(self, seed):
        self.s = seed & 0xFFFFFFFFFFFFFFFF

    def next(self):
        self.s = (self.s + 0x9E3779B97F4A7C15) & 0xFFFFFFFFFFFFFFFF
        z = self.s
        z = ((z ^ (z >> 30)) * 0xBF58476D1CE4E5B9) & 0xFFFFFFFFFFFFFFFF
        z = ((z ^ (z >> 27)) * 0x94D049BB133111EB) & 0xFFFFFFFFFFFFFFFF
        return z ^ (z >> 31)

    def below(self, n):
        return self.next() % n

    def choice(self, l):
        return l[self.below(len(l))]

    def rng(self, a, b):
        """uniform in [a, b]"""
        return a + self.below(b - a + 1)

    def chance(self, num, den):
        return self.below(den) < num

    def shuffle(self, l):
        for i in range(len(l) - 1, 0, -1):
            j = self.below(i + 1)
            l[i], l[j] = l[j], l[i]


class Ctx:
    """state of one check run"""

    def __init__(self, prop, tier, seed):
        self.prop, self.tier, self.seed = prop, tier, seed
        self.t0 = time.time()
        self.rng = Splitmix(seed)
        # runs against a scratch tree (VERIF_REPO) get a directory of their own, so that a run against /repo and runs
        # against mutated copies can go on at the same time without clobbering each other's traces
        self.dir = os.path.join(BUILD, prop if REPO == "/repo" else "%s@%s" % (prop, sha(REPO)[:8]))
        os.makedirs(self.dir, exist_ok=True)
        try:      # directories of runs against scratch trees that are no longer in use
            for d in os.listdir(BUILD):
                q = os.path.join(BUILD, d)
                if "@" in d and os.path.isdir(q) and time.time() - os.path.getmtime(q) > 3 * 3600:
                    shutil.rmtree(q, ignore_errors=True)
        except OSError:
            pass
        self.violations = []          # list of dicts {kind, what, replay, found}
        self.known_hit = []
        self.cov = {"obligations": 0, "discharged": 0, "checker_cmd": "", "trusted_base": [],
                    "samples": [], "correspondence": {}, "theorems": {}}
        self.assumptions = []
        self.notes = []
        self.thorough = (tier == "thorough")

    # ---- proof side ----
    def prove(self, prop_file, module, targets=None, extra_theorem_files=()):
        """build Properties_Cxx.vo (and what it needs); fill obligations/discharged/assumptions."""
        bad = coq_hygiene([prop_file])
        names = theorems_in(prop_file)
        stmts = theorem_statements(prop_file)
        self.cov["obligations"] = len(names)
        vo = prop_file[:-2] + ".vo"
        ok, log = coq_make([vo] + list(targets or []))
        self.cov["checker_cmd"] = ("cd /verif/coq && coq_makefile -f _CoqProject -o Makefile && make %s "
                                   "(coqc 8.16.1, full .vo build; then Print Assumptions per theorem)" % vo)
        pa = print_assumptions(module, names, os.path.join(self.dir, "pa")) if ok else {}
        if not ok:
            # which theorems still check?  compile a truncated copy up to each failure
            pa = self.partial_theorems(prop_file, module, names)
        discharged = [n for n in names if pa.get(n) is not None]
        self.cov["discharged"] = len(discharged)
        axioms = set()
        for n in names:
            a = pa.get(n)
            self.cov["theorems"][n] = {"statement": stmts.get(n, "")[:600],
                                       "status": "checked" if a is not None else "FAILED",
                                       "assumptions": a}
            if isinstance(a, list):
                axioms.update(a)
        self.cov["trusted_base"] += ["Coq 8.16.1 kernel (coqc, vm_compute used, native_compute not used)",
                                     "axioms reported by Print Assumptions: " +
                                     (", ".join(sorted(axioms)) if axioms else "none (all theorems closed under the global context)")]
        for n in names[:4]:
            self.cov["samples"].append({"obligation": n, "statement": stmts.get(n, "")[:400]})
        if bad:
            self.violation("hygiene", "forbidden tokens in the Coq development: " + "; ".join(bad[:10]),
                           {"theorem_or_correspondence": "coq hygiene", "tokens": bad}, found=False)
        broken = [n for n in names if pa.get(n) is None]
        if broken:
            tail = "\n".join(l for l in log.split("\n") if not l.startswith(("COQC", "COQDEP", "make")))[-3000:]
            self.proof_log = tail
        return broken, (log if not ok else "")

    def partial_theorems(self, prop_file, module, names):
        """the property file did not compile: find out which theorems still do, by compiling a copy
        in which each failing theorem is cut out (iteratively)."""
        src = open(os.path.join(COQ, prop_file)).read()
        work = os.path.join(self.dir, "partial")
        os.makedirs(work, exist_ok=True)
        res = {}
        remaining = src
        for _ in range(len(names) + 2):
            p = os.path.join(work, "Partial.v")
            open(p, "w").write(remaining)
            rc, out = sh(["coqc", "-Q", COQ, "MT", "-o", os.path.join(work, "Partial.vo"), p], cwd=work, timeout=1200)
            if rc == 0:
                for n in re.findall(r"^\s*(?:Theorem|Lemma|Corollary)\s+(\w+)", strip_coq_comments(remaining), re.M):
                    res[n] = "checked in a copy with the failing theorems removed (assumptions not collected)"
                break
            m = re.search(r'line (\d+), characters', out)
            if not m:
                break
            ln = int(m.group(1))
            lines = remaining.split("\n")
            # find the theorem block containing line ln and cut it (and its Print Assumptions)
            start = None
            for i in range(min(ln, len(lines)) - 1, -1, -1):
                if re.match(r"\s*(Theorem|Lemma|Corollary|Example)\s+\w+", lines[i]):
                    start = i
                    break
            if start is None:
                break
            end = start
            while end < len(lines) and not re.match(r"\s*(Qed|Defined)\.", lines[end]):
                end += 1
            name = re.match(r"\s*\w+\s+(\w+)", lines[start]).group(1)
            cut = lines[:start] + lines[end + 1:]
            cut = [l for l in cut if not re.match(r"\s*Print Assumptions\s+%s\s*\." % re.escape(name), l)]
            remaining = "\n".join(cut)
        return res

    # ---- results ----
    def violation(self, kind, what, replay_body, found):
        body = {"property": self.prop, "kind": "failing-input" if found else "broken-obligation",
                "what": what, "tier": self.tier, "seed": self.seed}
        body.update(replay_body or {})
        body["reproduce"] = "./check %s --replay <this file>" % self.prop
        path = write_replay(self.prop, body)
        self.violations.append({"kind": kind, "what": what, "replay": path, "found": found})

    def known(self, what):
        self.known_hit.append(what)

    def finish(self, level="proof", assumptions=None, extra_cov=None):
        # shared developments this property's model rests on (scheduler-level machine, spin lock +
        # sleep queue): their theorems are added to the obligations, their ties are run, and a
        # failure is reported under this property
        atts, self.attachments = getattr(self, "attachments", []), []
        for a in atts:
            try:
                a(self)
            except BuildError as e:
                self.violation("build", "attached development does not build: " + str(e)[:800],
                               {"theorem_or_correspondence": "build of an attached correspondence harness"}, found=False)
            except Exception as e:      # never lose the property's own verdict to a crash of an attachment
                import traceback
                self.violation("attachment", "attached correspondence run failed: %r" % (e,),
                               {"theorem_or_correspondence": "attached development", "traceback": traceback.format_exc()[-2000:]},
                               found=False)
        cov = self.cov
        if extra_cov:
            cov.update(extra_cov)
        ev = {"property_id": self.prop, "tier": self.tier, "seed": self.seed, "level": level,
              "coverage": cov, "assumptions": (assumptions or []) + self.assumptions,
              "wall_s": round(time.time() - self.t0, 2), "violations": len(self.violations),
              "known_findings_replayed": self.known_hit, "notes": self.notes}
        # runs against a scratch copy of the repository (mutation experiments) must not overwrite
        # the evidence of the real tree
        is_prop = bool(re.fullmatch(r"C\d\d", self.prop))     # MACHINE / SPIN / COMPOSE are shared developments, not properties
        evdir = os.path.join(VERIF, "evidence") if (os.path.realpath(REPO) == "/repo" and is_prop) else self.dir
        os.makedirs(evdir, exist_ok=True)
        with open(os.path.join(evdir, self.prop + ".json"), "w") as f:
            json.dump(ev, f, indent=1, default=str)
            f.write("\n")
        for k in self.known_hit:
            print("KNOWN-FINDING: property=%s %s" % (self.prop, k))
        for v in self.violations:
            print("VIOLATION property=%s replay=%s%s" % (self.prop, v["replay"],
                                                        "" if v["found"] else " no-failing-input-found"))
            print("  (" + v["what"][:400] + ")")
        if not self.violations:
            print("OK property=%s tier=%s obligations=%d discharged=%d wall=%.1fs" % (
                self.prop, self.tier, cov.get("obligations", 0), cov.get("discharged", 0), time.time() - self.t0))
        sys.stdout.flush()
        return 1 if self.violations else 0
