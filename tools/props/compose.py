"""Composition of the blocking-protocol models with the scheduler-level machine (coq/Compose): "a blocked thread
occupies no worker and is woken by exactly one insertion", proved once against an interface (GenericModel.v /
GenericProofs.v) and instantiated for the Sync object (C04/C05/C09), the barrier (C06), the join counter (C07)
and the uncond (C08).  Not a property of its own: `attach(ctx, n)` is called by the checks of C04, C06, C07, C08
(ATTACH table of tools/check.py; the instance replayed is chosen by ctx.prop); `./check COMPOSE` runs all four.

Proof side: coq/Properties_Compose.v.
Tie: controlled runs with `msnap 1`; BOTH projections of the same trace - the protocol projection (tools/trace.py
sync_block, tools/props/c06.py c06_block, c07.py jc_block, c08.py uncond_block: calls, returns, POINT ticks) and
the machine projection (tools/machine_common.py: moves read off the trace, machine snapshots) - are merged in
trace order and replayed through the extracted PRODUCT step (ocaml/driver_Compose.ml): a protocol step is
accepted only on the worker that the machine component says runs that thread / that callback, the machine moves a
synchronised step carries (pop + SaveCtx at a blocking step, EndCb at the end of a callback, PushTop at a push)
are performed by the product step itself and therefore REMOVED from the machine projection, and the machine
component must equal the library's cur / run queues at every trace line."""
import os, re, json
import vlib, trace
import machine_common as mc
from props import c04

VFILES = ["Sync/SyncModel.v", "Machine/MachineModel.v", "Compose/GenericModel.v", "Compose/Instances.v", "Compose/ComposeModel.v",
          "Barrier/BarrierModel.v", "JoinCounter/JcModel.v", "Uncond/UncondModel.v"]
SYNC_PUSH = ("wake1.push", "wakeany.push")


def build_driver():
    return vlib.build_driver("Compose", "Extract_Compose.v", "driver_Compose.ml", VFILES)


def merge(case_text, r, plines, psrc, begin, push_ids, names):
    """merged driver input: the protocol projection (plines with their source events psrc) and the machine
    projection of the same trace, in trace order; the moves carried by synchronised steps are removed from the
    machine projection"""
    mlines, msrc, L = mc.machine_block(case_text, r["trace_text"])
    idx_of_raw = {row[6]: i for i, row in enumerate(L)}
    sync_at = {}
    for ln, ev in zip(plines, psrc):
        if ev is None:
            continue
        i = idx_of_raw.get(ev.raw)
        if i is None:
            continue
        w = ln.split()
        if w[0] == "call":
            s = "sync %d call %s" % (ev.w, " ".join(w[1:]))
        elif w[0] == "ret":
            s = "sync %d ret %s" % (ev.w, " ".join(w[1:]))
        elif w[0] == "announce":
            s = "sync %d announce %s" % (ev.w, w[1])
        elif w[0] == "tick":
            rest = w[3:]
            if rest and rest[0].isdigit() and begin.startswith("begin sync"):
                rest = rest[1:]                  # Sync's tick lines carry the worker themselves
            s = "sync %d tick %s %s %s" % (ev.w, w[1], w[2], " ".join(rest))
        else:
            continue
        sync_at[i] = s
    per = {}
    for ln, i in zip(mlines, msrc):
        if i is not None:
            per.setdefault(i, []).append(ln)
    out = [begin]
    in_sync_cb = {}
    stats = {"blocking": 0, "cb_end": 0, "sync_push": 0, "free_moves": 0}
    for i, row in enumerate(L):
        k, w, actor, words = row[0], row[1], row[2], row[3]
        ms = per.get(i, [])
        snaps = [x for x in ms if x.startswith("snap")]
        moves = [x for x in ms if not x.startswith("snap")]
        ends_sync_cb = (k == "E" and words and words[0] == "cb.leave" and in_sync_cb.get(w))
        if not ends_sync_cb:
            out += snaps          # (at the cb.leave of a protocol callback the product has already returned into the hand)
        if i in sync_at:
            out.append(sync_at[i])
            if any(x.endswith(" SaveCtx") for x in moves):
                # blocking step: the pop and the context save are part of the product step
                moves = [x for x in moves if not (x.startswith("autopop") or x.endswith(" SaveCtx"))]
                in_sync_cb[w] = True
                stats["blocking"] += 1
            if k == "P" and words[0] in push_ids and words[1] in names:
                moves = [x for x in moves if " PushTop " not in x]
                stats["sync_push"] += 1
        if ends_sync_cb:
            moves = [x for x in moves if not x.endswith(" EndCb")]
            in_sync_cb[w] = False
            stats["cb_end"] += 1
        stats["free_moves"] += len(moves)
        out += moves
    out.append("end")
    return out, stats


def _nw_nt(case_text):
    objs, threads, scripts, params = trace.parse_case(case_text)
    return int(params.get("workers", "2")), (max(threads) + 1 if threads else 1)


def compose_block(case_text, r):
    """Sync instance: one mutex with its condition variables, or one felock (status + inner mutex + its two
    condition queues = one SyncModel state); raises ValueError if the program is outside the product's domain"""
    groups, nt = trace.sync_groups(case_text)
    fes = [g for g in groups if g["felock"]]
    mus = [g for g in groups if g["mutex"]]
    nw, nt2 = _nw_nt(case_text)
    if len(fes) == 1 and not mus:
        g = fes[0]
        slines, ssrc = trace.sync_block(g, nt, r["events"])
        return merge(case_text, r, slines, ssrc, "begin sync %d %d 2" % (nw, nt), SYNC_PUSH, {g["felock"]})
    if len(mus) != 1 or fes:
        raise ValueError("compose: exactly one mutex group or exactly one felock expected")
    g = mus[0]
    names = set([g["mutex"]] + g["conds"])
    slines, ssrc = trace.sync_block(g, nt, r["events"])
    return merge(case_text, r, slines, ssrc, "begin sync %d %d %d" % (nw, nt, max(1, len(g["conds"]))), SYNC_PUSH, names)


def barrier_block(case_text, r):
    from props import c06
    bs = c06.barriers_of(case_text)
    nw, nt = _nw_nt(case_text)
    if len(bs) != 1 or bs[0][2] != list(range(nt)):
        raise ValueError("compose: one barrier whose participants are all threads 0..nt-1 expected")
    name, N, parts = bs[0]
    pl, ps = c06.c06_block(name, N, parts, r["events"])
    return merge(case_text, r, pl, ps, "begin barrier %d %d %d" % (nw, nt, N), ("wakemanys.push",), {name})


def jc_block(case_text, r):
    from props import c07
    jcs, nthreads = c07.jc_objects(case_text)
    nw, nt = _nw_nt(case_text)
    if not jcs:
        raise ValueError("compose: a join counter expected")
    # with several join counters the product is taken with the first one; blocking on the others = free machine moves
    name, n = jcs[0]
    pl, ps = c07.jc_block(name, n, nt, r["events"])
    return merge(case_text, r, pl, ps, "begin jc %d %d %d" % (nw, nt, n), ("wakemany.push",), {name})


def uncond_block(case_text, r):
    from props import c08
    objs, threads, _, _ = trace.parse_case(case_text)
    us = [n for n, (k, _) in objs.items() if k == "uncond"]
    nw, nt = _nw_nt(case_text)
    if not us:
        raise ValueError("compose: an uncond expected")
    # with several unconds the product is taken with the first one; blocking on the others = free machine moves
    pl, ps = c08.uncond_block(us[0], nt, r["events"])
    return merge(case_text, r, pl, ps, "begin uncond %d %d" % (nw, nt), ("uncond.sig.push",), {us[0]})


BLOCKS = {"sync": compose_block, "felock": compose_block, "barrier": barrier_block, "jc": jc_block, "uncond": uncond_block}


def validate(driver, lines):
    rc, out = vlib.sh([driver], input="\n".join(lines) + "\n", timeout=600)
    res = [l for l in out.split("\n") if l.startswith(("ok", "FAIL"))]
    return res[0] if res else "FAIL 0 driver produced no verdict (rc=%d): %s" % (rc, out[-300:])


def oracle_blocked_parked(case_text, trace_text):
    """independent statement of the clause on the implementation: at a POINT on a blocking object, a thread
    listed in the object's sleep container in the snapshot of that very line (sleep queue q=[..] of a mutex /
    condition / join counter, sleep stack stk=[..] of a barrier, published waiter th=.. of an uncond) is the
    current thread of no worker and in no run queue (machine snapshot of the same line)"""
    objs, _, _, _ = trace.parse_case(case_text)
    lines = trace_text.split("\n")
    for n, line in enumerate(lines):
        if line[:1] != "P" or n + 1 >= len(lines) or not lines[n + 1].startswith("M "):
            continue
        head, _, snap = line.partition(" | ")
        w = head.split()
        obj = w[5] if len(w) > 5 else None
        if obj not in objs or objs[obj][0] not in ("mutex", "cond", "jc", "barrier", "uncond", "felock"):
            continue
        mem = set()
        for key in ("q", "stk", "c0q", "c1q"):
            m = re.search(r"\b%s=\[([^\]]*)\]" % key, snap)
            if m:
                mem |= set(x.strip() for x in m.group(1).split(",") if x.strip().startswith("t"))
        m = re.search(r"\bth=(t\d+)", snap)
        if m:
            mem.add(m.group(1))
        mm = re.match(r"M cur=\[(.*?)\] dq=\[(.*)\]$", lines[n + 1])
        cur = set(c for c in mm.group(1).split(",") if c.startswith("t"))
        qs = set(t for q in re.findall(r"\[([^\[\]]*)\]", mm.group(2)) for t in q.split())
        bad = mem & (cur | qs)
        if bad:
            return "thread(s) %s are in the sleep container of %s and at the same time current / in a run queue: %s | %s" % (
                sorted(bad), obj, line, lines[n + 1])
    return None


def _msnap(text):
    l = text.split("\n")
    return "\n".join(l[:1] + ["msnap 1"] + l[1:])


def gen_kind_cases(ctx, kind, n):
    """cases of one instance; every case = {"text", "kind", ...}"""
    r = ctx.rng
    if kind == "sync":
        return gen_cases(ctx, n)
    out = []
    if kind == "felock":
        from props import c09
        for i in range(n):
            c = c09.gen_hold(r) if i % 4 == 3 else (c09.gen_baton(r) if i % 4 == 2 else c09.gen_case(r))
            out.append(dict(c, text=_msnap(c["text"]), kind=kind))
    elif kind == "barrier":
        from props import c06
        for _ in range(n):
            out.append({"text": _msnap(c06.gen_case(r, N=r.choice([2, 3, 5]))), "kind": kind})
    elif kind == "jc":
        from props import c07
        while len(out) < n:
            objs, threads = c07.gen_program(r)
            out.append({"text": _msnap(trace.case_text(r.rng(1, 4), r.rng(1, 1 << 30), objs, threads, pswitch=r.choice([20, 35, 60, 85]))),
                        "kind": kind})
    elif kind == "uncond":
        from props import c08
        fams = ["handoff", "pingpong", "spsc", "relay", "chain", "twowaiters"]
        for i in range(n):
            workers = r.choice([1, 2, 2, 3, 4])
            p, unsafe = c08.gen_program(r, fams[i % len(fams)], workers)
            out.append({"text": _msnap(p.text(workers, r.rng(1, 1 << 30), r.choice([15, 35, 60, 85]))), "kind": kind})
    return out


KINDS_OF = {"C04": ["sync"], "C05": ["sync"], "C09": ["felock"], "C06": ["barrier"], "C07": ["jc"], "C08": ["uncond"]}


def gen_cases(ctx, n):
    r = ctx.rng
    cases = []
    for i in range(n):
        nw = r.choice([1, 2, 2, 3, 4])
        ps = r.choice([20, 35, 60, 85])
        if r.chance(1, 3):
            N = r.rng(3, 5)
            objs, threads, expect = c04.gen_cond_program(r, N)
        else:
            N = r.rng(2, 5)
            objs, threads, ex = c04.gen_mutex_program(r, N, 1)
            expect = {"x0": ex[0]}
        text = trace.case_text(nw, r.rng(1, 1 << 30), objs, threads, pswitch=ps, extra={"msnap": "1"})
        cases.append({"text": text, "kind": "sync", "N": N, "workers": nw, "pswitch": ps, "expect": expect})
    return cases


def attach(ctx, n_cases=40, prove=True):
    broken = []
    if prove:
        ok, log = vlib.coq_make(["Properties_Compose.vo"])
        names = vlib.theorems_in("Properties_Compose.v")
        pa = vlib.print_assumptions("Properties_Compose", names, os.path.join(ctx.dir, "pa_compose")) if ok else {}
        stm = vlib.theorem_statements("Properties_Compose.v")
        for nme in names:
            a = pa.get(nme)
            ctx.cov["theorems"][nme] = {"statement": stm.get(nme, "")[:600], "status": "checked" if a is not None else "FAILED",
                                        "assumptions": a}
            ctx.cov["obligations"] += 1
            if a is not None:
                ctx.cov["discharged"] += 1
            else:
                broken.append(nme)
        bad = vlib.coq_hygiene(["Properties_Compose.v"])
        if bad:
            ctx.violation("hygiene", "forbidden tokens in the composition development: " + "; ".join(bad[:10]),
                          {"theorem_or_correspondence": "coq hygiene (compose)", "tokens": bad}, found=False)
    exe = trace.build_interp()
    mine = os.path.join(ctx.dir, "lib_interp_compose")
    import shutil
    shutil.copyfile(exe, mine + ".tmp")
    os.chmod(mine + ".tmp", 0o755)
    os.replace(mine + ".tmp", mine)
    drv = build_driver()
    kinds = KINDS_OF.get(ctx.prop, ["sync", "felock", "barrier", "jc", "uncond"])
    cases = []
    for kd in kinds:
        cases += gen_kind_cases(ctx, kd, max(10, n_cases // len(kinds)) if len(kinds) > 1 else n_cases)
    wd = os.path.join(ctx.dir, "compose_runs")
    tot = {"sync_steps": 0, "free_moves": 0, "snapshots": 0, "blocking": 0, "cb_end": 0, "sync_push": 0}
    fails, oracle_fails, verdicts, per_kind, skipped = [], [], {}, {}, 0
    for i, c in enumerate(cases):
        try:
            r = trace.run_case(mine, c["text"], wd, "k%04d" % i, timeout=60)
        except Exception as ex:                      # noqa: a crashing library leaves a trace cut in mid-line
            tp = os.path.join(wd, "k%04d.trace" % i)
            tail = open(tp, errors="replace").read()[-300:] if os.path.exists(tp) else ""
            verdicts["NONE"] = verdicts.get("NONE", 0) + 1
            oracle_fails.append((c, "run did not complete: trace unusable (%s); tail: %s" % (type(ex).__name__, tail)))
            continue
        v = (r["verdict"] or "NONE").split()[0]
        verdicts[v] = verdicts.get(v, 0) + 1
        if v != "DONE" or r["rc"] != 0:
            oracle_fails.append((c, "run did not complete: verdict %s rc %s %s" % (r["verdict"], r["rc"], r["out"][-200:].strip())))
            continue
        o = (c04.oracle(c, r) if c["kind"] == "sync" else None) or oracle_blocked_parked(c["text"], r["trace_text"]) \
            or mc.oracle_single_place(r["trace_text"])
        if o:
            oracle_fails.append((c, o))
        try:
            lines, st = BLOCKS[c["kind"]](c["text"], r)
        except ValueError:
            skipped += 1
            continue
        except Exception as ex:                      # noqa: projection of a damaged trace
            fails.append((c, "FAIL 0 projection failed: %s" % ex, []))
            continue
        res = validate(drv, lines)
        if res.startswith("ok"):
            w = res.split()
            tot["sync_steps"] += int(w[1])
            tot["free_moves"] += int(w[2])
            tot["snapshots"] += int(w[3])
            for k in ("blocking", "cb_end", "sync_push"):
                tot[k] += st[k]
            pk = per_kind.setdefault(c["kind"], {"runs": 0, "protocol_steps": 0, "blocking_steps": 0})
            pk["runs"] += 1
            pk["protocol_steps"] += int(w[1])
            pk["blocking_steps"] += st["blocking"]
        else:
            k = int(res.split()[1])
            fails.append((c, res, lines[max(0, k - 10):k + 1]))
    summ = {"compose_cases": len(cases), "compose_disagreements": len(fails), "compose_oracle_failures": len(oracle_fails),
            "compose_verdicts": verdicts, "compose_per_instance": per_kind, "compose_skipped_outside_domain": skipped}
    summ.update({"compose_" + k: v for k, v in tot.items()})
    ctx.cov.setdefault("correspondence", {})["compose"] = summ
    ctx.cov["trusted_base"] += ["product tie: tools/props/compose.py (merge of the two projections of one trace; the moves carried by "
                                "synchronised steps are removed from the machine projection), ocaml/driver_Compose.ml, extraction of "
                                "coq/Compose/ComposeModel.v (ExtrOcamlBasic only), lib_interp machine snapshots (msnap)"]
    if oracle_fails:
        c, msg = oracle_fails[0]
        ctx.violation("compose-oracle", msg, {"case": c, "observed": msg, "compose": True,
                                              "expected": "blocked threads occupy no worker / run queue; C04 oracle; single place",
                                              "level": "library"}, found=True)
    elif fails:
        c, res, tail = fails[0]
        ctx.violation("compose-correspondence", "product (%s x machine) and library disagree on %d of %d runs; first: %s" % (
                      c.get("kind", "sync"), len(fails), len(cases), res[:300]),
                      {"theorem_or_correspondence": "correspondence coq/Compose/GenericModel.v + Instances.v <-> src/myth_sync_func.h block/wake "
                       "helpers + scheduler", "case": c, "compose": True, "observed": res, "model_input_tail": tail}, found=False)
    if broken:
        ctx.violation("proof", "composition theorem(s) no longer check: " + ", ".join(broken),
                      {"theorem_or_correspondence": ", ".join(broken)}, found=False)
    return summ


def run(ctx):
    attach(ctx, 60 if not ctx.thorough else 600)
    ctx.cov["checker_cmd"] = "cd /verif/coq && make Properties_Compose.vo"
    return ctx.finish(assumptions=["one deque operation is one atomic machine move (C02)",
                                   "free TakeJoiner / PutBase / PushTop only for threads not suspended inside the Sync object"])


def replay(ctx, path):
    body = json.load(open(path))
    c = body["case"]
    exe = trace.build_interp()
    drv = build_driver()
    r = trace.run_case(exe, c["text"], os.path.join(ctx.dir, "replay"), "r")
    print("verdict:", r["verdict"])
    try:
        lines, st = BLOCKS[c.get("kind", "sync")](c["text"], r)
        print("product replay:", validate(drv, lines), st)
    except Exception as ex:                          # noqa
        print("projection failed:", ex)
    print("oracle:", (c04.oracle(c, r) if c.get("kind", "sync") == "sync" else None)
          or oracle_blocked_parked(c["text"], r["trace_text"]) or "holds")
    return 0
