"""Composition of the Sync model with the scheduler-level machine (coq/Compose): the machine-level half of
C04 ("threads blocked on a mutex do not occupy a worker").  Not a property of its own: `attach(ctx, n)` is
called by C04's check (ATTACH table of tools/check.py); `./check COMPOSE` runs it alone.

Proof side: coq/Properties_Compose.v (product invariant = both component invariants + LINK; blocked threads
are parked; Sync steps happen on exactly one worker; PushTop enabled at push steps).
Tie: controlled runs of mutex / condition-variable programs with `msnap 1`; BOTH projections of the same
trace - the Sync projection (tools/trace.py sync_block: calls, returns, POINT ticks with the Sync words) and
the machine projection (tools/machine_common.py: moves read off the trace, machine snapshots) - are merged in
trace order and replayed through the extracted PRODUCT step (ocaml/driver_Compose.ml): a Sync step is
accepted only on the worker that the machine component says runs that thread / that callback, the machine
moves a synchronised step carries (pop + SaveCtx at a blocking step, EndCb at the end of a callback, PushTop
at a push) are performed by the product step itself and therefore REMOVED from the machine projection, and
the machine component must equal the library's cur / run queues at every trace line."""
import os, re, json
import vlib, trace
import machine_common as mc
from props import c04

VFILES = ["Sync/SyncModel.v", "Machine/MachineModel.v", "Compose/GenericModel.v", "Compose/Instances.v", "Compose/ComposeModel.v",
          "Barrier/BarrierModel.v", "JoinCounter/JcModel.v", "Uncond/UncondModel.v"]
SYNC_PUSH = ("wake1.push", "wakeany.push")


def build_driver():
    return vlib.build_driver("Compose", "Extract_Compose.v", "driver_Compose.ml", VFILES)


def compose_block(case_text, r):
    """merged driver input for one run; returns (lines, info) or raises ValueError if the program is outside
    the product's domain (more than one Sync object group)"""
    groups, nt = trace.sync_groups(case_text)
    groups = [g for g in groups if g["mutex"]]
    if len(groups) != 1 or groups[0]["felock"]:
        raise ValueError("compose: exactly one mutex group expected")
    g = groups[0]
    names = set([g["mutex"]] + g["conds"])
    nconds = max(1, len(g["conds"]))
    mlines, msrc, L = mc.machine_block(case_text, r["trace_text"])
    nw = int(mlines[0].split()[1])
    idx_of_raw = {row[6]: i for i, row in enumerate(L)}
    slines, ssrc = trace.sync_block(g, nt, r["events"])
    sync_at = {}
    for ln, ev in zip(slines, ssrc):
        if ev is None:
            continue
        i = idx_of_raw.get(ev.raw)
        if i is None:
            continue
        w = ln.split()
        if w[0] == "call":
            s = "sync %d call %s" % (ev.w, " ".join(w[1:]))
        elif w[0] == "ret":
            s = "sync %d ret %s" % (ev.w, " ".join(w[1:]))
        else:   # tick t ctx worker label val obs...
            s = "sync %s tick %s %s %s" % (w[3], w[1], w[2], " ".join(w[4:]))
        sync_at[i] = s
    per = {}
    for ln, i in zip(mlines, msrc):
        if i is not None:
            per.setdefault(i, []).append(ln)
    out = ["begin sync %d %d %d" % (nw, nt, nconds)]
    in_sync_cb = {}
    stats = {"blocking": 0, "cb_end": 0, "sync_push": 0, "free_moves": 0}
    for i, row in enumerate(L):
        k, w, actor, words = row[0], row[1], row[2], row[3]
        ms = per.get(i, [])
        snaps = [x for x in ms if x.startswith("snap")]
        moves = [x for x in ms if not x.startswith("snap")]
        ends_sync_cb = (k == "E" and words and words[0] == "cb.leave" and in_sync_cb.get(w))
        if not ends_sync_cb:
            out += snaps          # (at the cb.leave of a Sync callback the product has already returned into the hand)
        if i in sync_at:
            out.append(sync_at[i])
            if any(x.endswith(" SaveCtx") for x in moves):
                # blocking step: the pop and the context save are part of the product step
                moves = [x for x in moves if not (x.startswith("autopop") or x.endswith(" SaveCtx"))]
                in_sync_cb[w] = True
                stats["blocking"] += 1
            if k == "P" and words[0] in SYNC_PUSH and words[1] in names:
                moves = [x for x in moves if " PushTop " not in x]
                stats["sync_push"] += 1
        if ends_sync_cb:
            moves = [x for x in moves if not x.endswith(" EndCb")]
            in_sync_cb[w] = False
            stats["cb_end"] += 1
        stats["free_moves"] += len(moves)
        out += moves
    out.append("end")
    return out, stats


def validate(driver, lines):
    rc, out = vlib.sh([driver], input="\n".join(lines) + "\n", timeout=600)
    res = [l for l in out.split("\n") if l.startswith(("ok", "FAIL"))]
    return res[0] if res else "FAIL 0 driver produced no verdict (rc=%d): %s" % (rc, out[-300:])


def oracle_blocked_parked(case_text, trace_text):
    """independent statement of the clause on the implementation: at every trace line, a thread listed in the
    sleep queue of the mutex / a condition variable (latest snapshot) is the current thread of no worker and
    in no run queue (machine snapshot of the same line)"""
    objs, _, _, _ = trace.parse_case(case_text)
    sleepq = {}
    lines = trace_text.split("\n")
    for n, line in enumerate(lines):
        if line[:1] == "P":
            head, _, snap = line.partition(" | ")
            w = head.split()
            obj = w[5] if len(w) > 5 else None
            if obj in objs and objs[obj][0] in ("mutex", "cond"):
                m = re.search(r"q=\[([^\]]*)\]", snap)
                if m:
                    sleepq[obj] = set(x for x in m.group(1).split(",") if x)
        elif line[:2] == "M ":
            m = re.match(r"M cur=\[(.*?)\] dq=\[(.*)\]$", line)
            cur = set(c for c in m.group(1).split(",") if c.startswith("t"))
            qs = set(t for q in re.findall(r"\[([^\[\]]*)\]", m.group(2)) for t in q.split())
            for o, mem in sleepq.items():
                bad = mem & (cur | qs)
                # the snapshot of the queue is the one taken at the last POINT on that object: a thread dequeued
                # and pushed since then legitimately shows up in a run queue; only flag it if the queue
                # snapshot is from this very line
                if bad and lines[n - 1][:1] == "P" and (" " + o + " ") in lines[n - 1].partition(" | ")[0] + " ":
                    return "thread(s) %s are in the sleep queue of %s and at the same time current / in a run queue: %s" % (
                        sorted(bad), o, line)
    return None


def gen_cases(ctx, n):
    r = ctx.rng
    cases = []
    for i in range(n):
        nw = r.choice([1, 2, 2, 3, 4])
        ps = r.choice([20, 35, 60, 85])
        if r.chance(1, 3):
            N = r.rng(3, 5)
            objs, threads, expect = c04.gen_cond_program(r, N)
        else:
            N = r.rng(2, 5)
            objs, threads, ex = c04.gen_mutex_program(r, N, 1)
            expect = {"x0": ex[0]}
        text = trace.case_text(nw, r.rng(1, 1 << 30), objs, threads, pswitch=ps, extra={"msnap": "1"})
        cases.append({"text": text, "kind": "compose", "N": N, "workers": nw, "pswitch": ps, "expect": expect})
    return cases


def attach(ctx, n_cases=40, prove=True):
    broken = []
    if prove:
        ok, log = vlib.coq_make(["Properties_Compose.vo"])
        names = vlib.theorems_in("Properties_Compose.v")
        pa = vlib.print_assumptions("Properties_Compose", names, os.path.join(ctx.dir, "pa_compose")) if ok else {}
        stm = vlib.theorem_statements("Properties_Compose.v")
        for nme in names:
            a = pa.get(nme)
            ctx.cov["theorems"][nme] = {"statement": stm.get(nme, "")[:600], "status": "checked" if a is not None else "FAILED",
                                        "assumptions": a}
            ctx.cov["obligations"] += 1
            if a is not None:
                ctx.cov["discharged"] += 1
            else:
                broken.append(nme)
        bad = vlib.coq_hygiene(["Properties_Compose.v"])
        if bad:
            ctx.violation("hygiene", "forbidden tokens in the composition development: " + "; ".join(bad[:10]),
                          {"theorem_or_correspondence": "coq hygiene (compose)", "tokens": bad}, found=False)
    exe = trace.build_interp()
    mine = os.path.join(ctx.dir, "lib_interp_compose")
    import shutil
    shutil.copyfile(exe, mine + ".tmp")
    os.chmod(mine + ".tmp", 0o755)
    os.replace(mine + ".tmp", mine)
    drv = build_driver()
    cases = gen_cases(ctx, n_cases)
    wd = os.path.join(ctx.dir, "compose_runs")
    tot = {"sync_steps": 0, "free_moves": 0, "snapshots": 0, "blocking": 0, "cb_end": 0, "sync_push": 0}
    fails, oracle_fails, verdicts = [], [], {}
    for i, c in enumerate(cases):
        try:
            r = trace.run_case(mine, c["text"], wd, "k%04d" % i, timeout=60)
        except Exception as ex:                      # noqa: a crashing library leaves a trace cut in mid-line
            tp = os.path.join(wd, "k%04d.trace" % i)
            tail = open(tp, errors="replace").read()[-300:] if os.path.exists(tp) else ""
            verdicts["NONE"] = verdicts.get("NONE", 0) + 1
            oracle_fails.append((c, "run did not complete: trace unusable (%s); tail: %s" % (type(ex).__name__, tail)))
            continue
        v = (r["verdict"] or "NONE").split()[0]
        verdicts[v] = verdicts.get(v, 0) + 1
        if v != "DONE" or r["rc"] != 0:
            oracle_fails.append((c, "run did not complete: verdict %s rc %s %s" % (r["verdict"], r["rc"], r["out"][-200:].strip())))
            continue
        o = c04.oracle(c, r) or oracle_blocked_parked(c["text"], r["trace_text"]) or mc.oracle_single_place(r["trace_text"])
        if o:
            oracle_fails.append((c, o))
        try:
            lines, st = compose_block(c["text"], r)
        except Exception as ex:                      # noqa: projection of a damaged trace
            fails.append((c, "FAIL 0 projection failed: %s" % ex, []))
            continue
        res = validate(drv, lines)
        if res.startswith("ok"):
            w = res.split()
            tot["sync_steps"] += int(w[1])
            tot["free_moves"] += int(w[2])
            tot["snapshots"] += int(w[3])
            for k in ("blocking", "cb_end", "sync_push"):
                tot[k] += st[k]
        else:
            k = int(res.split()[1])
            fails.append((c, res, lines[max(0, k - 10):k + 1]))
    summ = {"compose_cases": len(cases), "compose_disagreements": len(fails), "compose_oracle_failures": len(oracle_fails),
            "compose_verdicts": verdicts}
    summ.update({"compose_" + k: v for k, v in tot.items()})
    ctx.cov.setdefault("correspondence", {})["compose"] = summ
    ctx.cov["trusted_base"] += ["product tie: tools/props/compose.py (merge of the two projections of one trace; the moves carried by "
                                "synchronised steps are removed from the machine projection), ocaml/driver_Compose.ml, extraction of "
                                "coq/Compose/ComposeModel.v (ExtrOcamlBasic only), lib_interp machine snapshots (msnap)"]
    if oracle_fails:
        c, msg = oracle_fails[0]
        ctx.violation("compose-oracle", msg, {"case": c, "observed": msg, "compose": True,
                                              "expected": "blocked threads occupy no worker / run queue; C04 oracle; single place",
                                              "level": "library"}, found=True)
    elif fails:
        c, res, tail = fails[0]
        ctx.violation("compose-correspondence", "product (Sync x machine) and library disagree on %d of %d runs; first: %s" % (
                      len(fails), len(cases), res[:300]),
                      {"theorem_or_correspondence": "correspondence coq/Compose/ComposeModel.v <-> src/myth_sync_func.h block/wake helpers "
                       "+ scheduler", "case": c, "compose": True, "observed": res, "model_input_tail": tail}, found=False)
    if broken:
        ctx.violation("proof", "composition theorem(s) no longer check: " + ", ".join(broken),
                      {"theorem_or_correspondence": ", ".join(broken)}, found=False)
    return summ


def run(ctx):
    attach(ctx, 60 if not ctx.thorough else 600)
    ctx.cov["checker_cmd"] = "cd /verif/coq && make Properties_Compose.vo"
    return ctx.finish(assumptions=["one deque operation is one atomic machine move (C02)",
                                   "free TakeJoiner / PutBase / PushTop only for threads not suspended inside the Sync object"])


def replay(ctx, path):
    body = json.load(open(path))
    c = body["case"]
    exe = trace.build_interp()
    drv = build_driver()
    r = trace.run_case(exe, c["text"], os.path.join(ctx.dir, "replay"), "r")
    print("verdict:", r["verdict"])
    try:
        lines, st = compose_block(c["text"], r)
        print("product replay:", validate(drv, lines), st)
    except Exception as ex:                          # noqa
        print("projection failed:", ex)
    print("oracle:", c04.oracle(c, r) or oracle_blocked_parked(c["text"], r["trace_text"]) or "holds")
    return 0
