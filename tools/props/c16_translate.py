"""C16 translator: the pthread wrappers of the CURRENT tree -> Coq data (build/C16/gen/WrapTableGen.v).

Inputs (all from vlib.REPO, re-read on every run):
  src/myth_wrap_pthread.c   preprocessed with the library's own flags (`gcc -E -P`, MYTH_WRAP_LD), so that
                            #if HAVE_..., __wrap(x), assert, ENOSYS, MYTH_BARRIER_SERIAL_THREAD,
                            PTHREAD_BARRIER_SERIAL_THREAD are what the compiler sees;
  src/myth_real.c           preprocessed twice (MYTH_WRAP_LD, MYTH_WRAP_DL): what real_<f> calls;
  src/myth-ld.opts          the --wrap=<f> lines;
  a compiled probe          numeric values of the enum / macro constants and sizeof of the overlaid types.

The wrappers are rigidly regular; every top-level statement of a `__wrap_<f>` definition is classified
into the constructors of coq/Wrap/WrapSpec.v (`stmt`); whatever is not recognised becomes `SOther`, which
the verified checker rejects for every function of the supported subset.  Also extracted: the attribute
translators (pthread_attr_to_myth ...), the fields of struct myth_thread_attr, the fields written by
myth_thread_attr_init_body, the fields myth_create_ex_body reads, and the shape of
myth_handle_PTHREAD_MUTEX_INITIALIZER (constants and order of its stores).

This module is in the trusted base of C16 (named there).  It prints nothing; everything it extracted is
returned as JSON-able data for the evidence file."""
import os, re, subprocess
import sys
sys.path.insert(0, os.path.dirname(os.path.dirname(os.path.abspath(__file__))))
import vlib


# ---------------------------------------------------------------------------------------------
# preprocessing
# ---------------------------------------------------------------------------------------------

def preprocess(src, wrap):
    cmd = ["gcc"] + vlib.lib_cflags(wrap) + ["-E", "-P", os.path.join(vlib.REPO, "src", src)]
    p = subprocess.run(cmd, stdout=subprocess.PIPE, stderr=subprocess.PIPE, text=True, errors="replace")
    if p.returncode != 0:
        raise vlib.BuildError("translator: gcc -E failed on %s (%s):\n%s" % (src, wrap, p.stderr[-1500:]))
    return p.stdout


def strip_strings(s):
    """replace the contents of string / char literals by nothing (keeps the quotes) so that brackets
    and semicolons inside them do not confuse the splitter"""
    out, i, n = [], 0, len(s)
    while i < n:
        c = s[i]
        if c == '"' or c == "'":
            q = c
            out.append(q)
            i += 1
            while i < n and s[i] != q:
                if s[i] == "\\":
                    i += 1
                i += 1
            out.append(q)
            i += 1
        else:
            out.append(c)
            i += 1
    return "".join(out)


def match_close(s, i, o, c):
    """s[i] == o; index of the matching closer"""
    d = 0
    for j in range(i, len(s)):
        if s[j] == o:
            d += 1
        elif s[j] == c:
            d -= 1
            if d == 0:
                return j
    raise ValueError("unbalanced " + o)


def functions(text, name_re):
    """{name: (params_text, body_text)} of the function DEFINITIONS at brace depth 0 whose name matches"""
    res = {}
    order = []
    depth = 0
    i, n = 0, len(text)
    rx = re.compile(r"\b(" + name_re + r")\s*\(")
    while i < n:
        c = text[i]
        if c == "{":
            depth += 1
        elif c == "}":
            depth -= 1
        elif depth == 0 and (c.isalpha() or c == "_"):
            m = rx.match(text, i)
            j = i
            while j < n and (text[j].isalnum() or text[j] == "_"):
                j += 1
            if m and m.start() == i:
                pe = match_close(text, m.end() - 1, "(", ")")
                k = pe + 1
                while k < n and text[k].isspace():
                    k += 1
                if k < n and text[k] == "{":
                    be = match_close(text, k, "{", "}")
                    nm = m.group(1)
                    if nm in res:
                        res[nm] = None            # defined twice: ambiguous
                    else:
                        res[nm] = (text[m.end():pe], text[k + 1:be])
                        order.append(nm)
                    i = be + 1
                    continue
            i = j
            continue
        i += 1
    return res, order


def split_top(s, sep):
    parts, d, cur = [], 0, []
    for ch in s:
        if ch in "([{":
            d += 1
        elif ch in ")]}":
            d -= 1
        if ch == sep and d == 0:
            parts.append("".join(cur))
            cur = []
        else:
            cur.append(ch)
    parts.append("".join(cur))
    return parts


def statements(body):
    """[('simple', text) | ('if', cond, [then], [else]) | ('while', cond, [body])]"""
    res, i, n = [], 0, len(body)
    while i < n:
        while i < n and body[i].isspace():
            i += 1
        if i >= n:
            break
        m = re.match(r"(if|while)\s*\(", body[i:])
        if m:
            kw = m.group(1)
            po = i + m.end() - 1
            pe = match_close(body, po, "(", ")")
            cond = body[po + 1:pe].strip()
            k = pe + 1
            while k < n and body[k].isspace():
                k += 1
            if k < n and body[k] == "{":
                be = match_close(body, k, "{", "}")
                blk = statements(body[k + 1:be])
                i = be + 1
            else:
                e = k
                d = 0
                while e < n and not (body[e] == ";" and d == 0):
                    d += body[e] in "([{"
                    d -= body[e] in ")]}"
                    e += 1
                blk = statements(body[k:e + 1])
                i = e + 1
            els = None
            if kw == "if":
                m2 = re.match(r"\s*else\b", body[i:])
                if m2:
                    k = i + m2.end()
                    while k < n and body[k].isspace():
                        k += 1
                    if k < n and body[k] == "{":
                        be = match_close(body, k, "{", "}")
                        els = statements(body[k + 1:be])
                        i = be + 1
                    else:
                        e, d = k, 0
                        while e < n and not (body[e] == ";" and d == 0):
                            d += body[e] in "([{"
                            d -= body[e] in ")]}"
                            e += 1
                        els = statements(body[k:e + 1])
                        i = e + 1
                res.append(("if", cond, blk, els))
            else:
                res.append(("while", cond, blk))
            continue
        if body[i] == "{":
            be = match_close(body, i, "{", "}")
            res.append(("block", statements(body[i + 1:be])))
            i = be + 1
            continue
        e, d = i, 0
        while e < n and not (body[e] == ";" and d == 0):
            d += body[e] in "([{"
            d -= body[e] in ")]}"
            e += 1
        t = " ".join(body[i:e].split())
        if t:
            res.append(("simple", t))
        i = e + 1
    return res


def param_names(params):
    params = params.strip()
    if params in ("", "void"):
        return []
    names = []
    for p in split_top(params, ","):
        p = p.strip()
        m = re.search(r"\(\s*\*\s*(\w+)\s*\)", p)          # function pointer
        if m:
            names.append(m.group(1))
            continue
        m = re.search(r"(\w+)\s*(\[\s*\d*\s*\])?\s*$", p)
        names.append(m.group(1) if m else "?")
    return names


CAST = re.compile(r"^\(\s*(?:const\s+|volatile\s+|struct\s+|unsigned\s+)*\w+(?:\s*\*+)?\s*\)\s*")


def strip_casts(e):
    e = e.strip()
    while True:
        m = CAST.match(e)
        if m and m.end() < len(e):
            e = e[m.end():].strip()
            continue
        if e.startswith("(") and match_close(e, 0, "(", ")") == len(e) - 1:
            e = e[1:-1].strip()
            continue
        return e


def int_lit(e):
    e = strip_casts(e)
    m = re.match(r"^-?\s*\d+$", e)
    return int(e.replace(" ", "")) if m else None


def parse_call(e):
    """'f(a, b)' -> (f, [a, b]) or None (a cast in front is removed)"""
    e = strip_casts(e)
    m = re.match(r"^([\w.]+)\s*\(", e)
    if not m:
        return None
    pe = match_close(e, m.end() - 1, "(", ")")
    if pe != len(e) - 1:
        return None
    inner = e[m.end():pe].strip()
    args = [a.strip() for a in split_top(inner, ",")] if inner else []
    return m.group(1), args


def assert_expr(t):
    m = re.search(r'__assert_fail\s*\(\s*"', t)
    return bool(m)


# ---------------------------------------------------------------------------------------------
# one wrapper -> entry
# ---------------------------------------------------------------------------------------------

NOISE = [re.compile(r"^(int _ = )?enter_wrapped_func_\("), re.compile(r"^leave_wrapped_func_\("),
         re.compile(r"^\(void\)\s*_$"), re.compile(r"^(int|pthread_t|void \*|void\*|unsigned int|unsigned) ret$")]


def aexp(e, params, binds):
    v = strip_casts(e)
    if v in binds:
        return binds[v]
    if v in params:
        return ("AParam", params.index(v))
    return ("AOther", v[:40])


def branch_stmts(sts, params):
    """classify the statements of one branch"""
    out, binds, bufs = [], {}, set()
    for st in sts:
        if st[0] == "if":
            _, cond, th, el = st
            m = re.match(r"^ret\s*==\s*(-?\d+)$", cond.strip())
            ok = False
            if m and len(th) == 1 and th[0][0] == "simple" and el is not None and len(el) == 1 and el[0][0] == "simple":
                m2 = re.match(r"^ret\s*=\s*(-?\s*\d+)$", th[0][1])
                m3 = re.search(r'__assert_fail\s*\(\s*"ret == (-?\d+)"', el[0][1])
                if m2 and m3:
                    out.append(("SRetMap", int(m.group(1)), int(m2.group(1).replace(" ", "")), int(m3.group(1))))
                    ok = True
            if not ok:
                out.append(("SOther", "if " + cond[:30]))
            continue
        if st[0] != "simple":
            out.append(("SOther", st[0]))
            continue
        t = st[1]
        if any(r.match(t) for r in NOISE):
            continue
        m = re.match(r"^(\w+) (\w+)\[1\]$", t)                     # T buf[1]
        if m:
            bufs.add(m.group(2))
            continue
        m = re.match(r"^(\w+) \* ?(\w+) = (pthread_\w+_to_myth)\((\w+), (\w+)\)$", t)
        if m and m.group(5) in bufs and m.group(4) in params:
            binds[m.group(2)] = ("AXlate", m.group(3), params.index(m.group(4)))
            continue
        if assert_expr(t):
            m = re.search(r'__assert_fail\s*\(\s*"sizeof\((\w+)\) <= sizeof\((\w+)\)"', t)
            if m:
                continue                                            # size assertion: checked through the probe
            out.append(("SOther", "assert"))
            continue
        m = re.match(r"^myth_handle_PTHREAD_MUTEX_INITIALIZER\((.*)\)$", t)
        if m:
            out.append(("SInit", aexp(m.group(1), params, binds)))
            continue
        if re.match(r"^myth_wrap_pthread_warn_non_conforming_\(__func__\)$", t):
            out.append(("SWarn",))
            continue
        m = re.match(r"^(?:int |unsigned int |void \* ?|pthread_t )?ret = (.*)$", t)
        rhs = m.group(1) if m else t
        v = int_lit(rhs) if m else None
        if v is not None:
            out.append(("SConst", v))
            continue
        c = parse_call(rhs)
        if c:
            out.append(("SCall" if m else "SCallV", c[0], [aexp(a, params, binds) for a in c[1]]))
            continue
        if m:                                                       # ret = (f(args) ? A : B)
            r2 = strip_casts(rhs)
            m4 = re.match(r"^(.*\))\s*\?\s*(-?\s*\d+)\s*:\s*(-?\s*\d+)$", r2)
            c = parse_call(m4.group(1)) if m4 else None
            if c:
                out.append(("SCallTern", c[0], [aexp(a, params, binds) for a in c[1]],
                            int(m4.group(2).replace(" ", "")), int(m4.group(3).replace(" ", ""))))
                continue
        out.append(("SOther", t[:40]))
    return out


def wrapper_entry(name, params_text, body):
    params = param_names(params_text)
    sts = statements(strip_strings_keep_assert(body))
    ent = {"name": name, "arity": len(params), "params": params, "guarded": False, "wrapped": [], "real": [],
           "returns_ret": False, "noreturn_assert": False, "extra": []}
    plain = []
    for st in sts:
        if st[0] == "if" and st[1].strip() == "myth_should_wrap_pthread()" and st[3] is not None and not ent["guarded"]:
            ent["guarded"] = True
            ent["wrapped"] = plain_to_other(plain) + branch_stmts(st[2], params)
            ent["real"] = branch_stmts(st[3], params)
            plain = []
            continue
        if st[0] == "simple" and st[1] == "return ret":
            ent["returns_ret"] = True
            continue
        if st[0] == "simple" and re.search(r'__assert_fail\s*\(\s*"0"', st[1]):
            ent["noreturn_assert"] = True
            continue
        plain.append(st)
    rest = branch_stmts(plain, params)
    if ent["guarded"]:
        # anything (other than tracing noise) after the if/else changes the result: keep it visible
        ent["wrapped"] += rest
        ent["real"] += rest
    else:
        ent["wrapped"] = rest
    return ent


def plain_to_other(plain):
    out = []
    for st in plain:
        if st[0] == "simple" and any(r.match(st[1]) for r in NOISE):
            continue
        out.append(("SOther", "before-guard: " + (st[1][:30] if st[0] == "simple" else st[0])))
    return out


def strip_strings_keep_assert(body):
    """strings are emptied except the first argument of __assert_fail (the asserted expression)"""
    out, i, n = [], 0, len(body)
    while i < n:
        m = re.compile(r'__assert_fail\s*\(\s*"').match(body, i)
        if m:
            j = m.end()
            while j < n and body[j] != '"':
                j += 2 if body[j] == "\\" else 1
            expr = body[m.end():j]
            expr = re.sub(r"[^\w\s=<>()*\-]", "", expr)
            out.append(body[i:m.end()] + expr + '"')
            i = j + 1
            continue
        c = body[i]
        if c == '"' or c == "'":
            q = c
            i += 1
            while i < n and body[i] != q:
                i += 2 if body[i] == "\\" else 1
            out.append(q + q)
            i += 1
            continue
        out.append(c)
        i += 1
    return "".join(out)


# ---------------------------------------------------------------------------------------------
# real_<f>
# ---------------------------------------------------------------------------------------------

def real_entry(params_text, body):
    params = param_names(params_text)
    calls = []
    for st in statements(strip_strings_keep_assert(body)):
        if st[0] != "simple":
            if st[0] == "if" and re.match(r"^!real_function_table\.\w+$", st[1].strip()):
                continue                                     # lazy resolution of the table
            calls.append(("?", []))
            continue
        t = st[1]
        if assert_expr(t):
            continue
        m = re.match(r"^return (.*)$", t)
        c = parse_call(m.group(1) if m else t)
        if c:
            calls.append((c[0], [aexp(a, params, {}) for a in c[1]]))
        else:
            calls.append(("?", []))
    return {"arity": len(params), "calls": calls}


# ---------------------------------------------------------------------------------------------
# attributes, static initialiser, constants
# ---------------------------------------------------------------------------------------------

def struct_fields(text, tag):
    m = re.search(r"struct\s+" + tag + r"\s*\{", text)
    if not m:
        return None
    be = match_close(text, m.end() - 1, "{", "}")
    fields = []
    for d in split_top(text[m.end():be], ";"):
        d = " ".join(d.split())
        if not d:
            continue
        mm = re.search(r"(\w+)\s*(\[[^\]]*\])?$", d)
        if mm:
            fields.append(mm.group(1))
    return fields


def attr_facts(wtext):
    fs, _ = functions(wtext, r"myth_thread_attr_init_body|myth_create_ex_body|pthread_attr_to_myth|"
                             r"pthread_mutexattr_to_myth|pthread_condattr_to_myth|pthread_barrierattr_to_myth|"
                             r"myth_mutexattr_init_body")
    res = {"fields": struct_fields(wtext, "myth_thread_attr") or []}
    b = fs.get("myth_thread_attr_init_body")
    res["init_writes"] = sorted(set(re.findall(r"\battr\s*->\s*(\w+)\s*=[^=]", b[1]) +
                                    re.findall(r"&\s*attr\s*->\s*(\w+)", b[1]))) if b else []
    b = fs.get("myth_create_ex_body")
    res["create_reads"] = sorted(set(re.findall(r"\battr\s*->\s*(\w+)", b[1]))) if b else []
    xl = {}
    for f in ("pthread_attr_to_myth", "pthread_mutexattr_to_myth", "pthread_condattr_to_myth", "pthread_barrierattr_to_myth"):
        b = fs.get(f)
        if not b:
            continue
        pn = param_names(b[0])
        sts = statements(strip_strings_keep_assert(b[1]))
        steps, null_ok = [], False
        if len(sts) == 1 and sts[0][0] == "if" and sts[0][1].replace(" ", "") == "!" + pn[0] and sts[0][3] is not None:
            th = sts[0][2]
            null_ok = len(th) == 1 and th[0] == ("simple", "return 0")
            for st in sts[0][3]:
                if st[0] != "simple":
                    steps.append(("?", []))
                    continue
                t = st[1]
                if assert_expr(t) or re.match(r"^\(void\)\s*_$", t) or re.match(r"^int \w+$", t):
                    continue
                if t == "return " + pn[1]:
                    steps.append(("return", []))
                    continue
                m = re.match(r"^" + pn[1] + r"\s*->\s*(\w+) = ", t)
                if m:
                    steps.append(("assign", [m.group(1)]))
                    continue
                m = re.match(r"^(?:int \w+ = |\w+ = )?(\w+)\((.*)\)$", t)
                if m:
                    steps.append((m.group(1), re.findall(r"&\s*" + pn[1] + r"\s*->\s*(\w+)", m.group(2))))
                    continue
                steps.append(("?", []))
        else:
            steps.append(("?", []))
        xl[f] = {"null_to_null": null_ok, "steps": steps}
    res["xlate"] = xl
    return res


def static_init_shape(wtext):
    """the shape of myth_handle_PTHREAD_MUTEX_INITIALIZER: symbolic constants in the positions the
    protocol model is parametrised by, and the order of the three stores of the winner's branch"""
    fs, _ = functions(wtext, r"myth_handle_PTHREAD_MUTEX_INITIALIZER")
    b = fs.get("myth_handle_PTHREAD_MUTEX_INITIALIZER")
    sh = {"found": bool(b), "fast": "", "guard": "", "cas_new": "", "cas_old_is_read": False, "init_magic": "",
          "final": "", "spin": "", "order": [], "other": []}
    if not b:
        return sh
    sts = statements(strip_strings_keep_assert(b[1]))
    # expected: decls ; if (magic != FAST) { if (magic != GUARD && CAS(magic_p, magic, NEW)) { winner } else { spin } } ; return 0
    for st in sts:
        if st[0] == "simple":
            if re.match(r"^myth_mutex_t \* ?m = \(myth_mutex_t \*\)\w+$", st[1]) or \
               re.match(r"^volatile int \* ?magic_p = \(volatile int \*\)&m->magic$", st[1]) or \
               re.match(r"^int magic = \* ?magic_p$", st[1]) or st[1] == "return 0":
                continue
            sh["other"].append(st[1][:40])
        elif st[0] == "if":
            m = re.match(r"^magic != (\w+)$", st[1].strip())
            if not m or st[3] is not None or len(st[2]) != 1 or st[2][0][0] != "if":
                sh["other"].append("outer-if")
                continue
            sh["fast"] = m.group(1)
            inner = st[2][0]
            c = " ".join(inner[1].split())
            m = re.match(r"^magic != (\w+) && __sync_bool_compare_and_swap\(magic_p, (\w+), (\w+)\)$", c)
            if not m or inner[3] is None:
                sh["other"].append("inner-if")
                continue
            sh["guard"], sh["cas_old_is_read"], sh["cas_new"] = m.group(1), m.group(2) == "magic", m.group(3)
            for w in inner[2]:
                if w[0] != "simple":
                    sh["other"].append("winner:" + w[0])
                    continue
                t = w[1]
                if re.match(r"^myth_mutex_t mi = \{", t):
                    sh["order"].append("local_init")
                elif re.match(r"^mi\.magic = (\w+)$", t):
                    sh["init_magic"] = re.match(r"^mi\.magic = (\w+)$", t).group(1)
                    sh["order"].append("local_magic")
                elif t in ("*m = mi", "* m = mi"):
                    sh["order"].append("struct_store")
                elif t == "myth_rwbarrier()":
                    sh["order"].append("fence")
                elif re.match(r"^\* ?magic_p = (\w+)$", t):
                    sh["final"] = re.match(r"^\* ?magic_p = (\w+)$", t).group(1)
                    sh["order"].append("magic_store")
                else:
                    sh["other"].append("winner:" + t[:30])
            for w in inner[3]:
                if w[0] == "while":
                    m = re.match(r"^\* ?magic_p == (\w+)$", w[1].strip())
                    if m and not w[2]:
                        sh["spin"] = m.group(1)
                    else:
                        sh["other"].append("spin-loop")
                elif w[0] == "simple" and assert_expr(w[1]):
                    continue
                else:
                    sh["other"].append("loser:" + (w[1][:30] if w[0] == "simple" else w[0]))
        else:
            sh["other"].append(st[0])
    return sh


PROBE_C = r"""
#include <stdio.h>
#include <errno.h>
#include <pthread.h>
#include "myth/myth.h"
int main(void) {
  printf("myth_mutex_magic_no %ld\n", (long)myth_mutex_magic_no);
  printf("myth_mutex_magic_no_initializing %ld\n", (long)myth_mutex_magic_no_initializing);
  printf("MYTH_BARRIER_SERIAL_THREAD %ld\n", (long)MYTH_BARRIER_SERIAL_THREAD);
  printf("PTHREAD_BARRIER_SERIAL_THREAD %ld\n", (long)PTHREAD_BARRIER_SERIAL_THREAD);
  printf("EBUSY %ld\n", (long)EBUSY);
  printf("ENOSYS %ld\n", (long)ENOSYS);
  { pthread_mutex_t z = PTHREAD_MUTEX_INITIALIZER; int *p = (int *)&z; int i, nz = 0;
    for (i = 0; i < (int)(sizeof(z) / sizeof(int)); i++) if (p[i]) nz++;
    printf("static_mutex_first_word %ld\n", (long)p[0]);
    printf("static_mutex_nonzero_words %d\n", nz); }
  printf("size myth_mutex_t %ld %ld\n", (long)sizeof(myth_mutex_t), (long)sizeof(pthread_mutex_t));
  printf("size myth_cond_t %ld %ld\n", (long)sizeof(myth_cond_t), (long)sizeof(pthread_cond_t));
  printf("size myth_barrier_t %ld %ld\n", (long)sizeof(myth_barrier_t), (long)sizeof(pthread_barrier_t));
  printf("size myth_spinlock_t %ld %ld\n", (long)sizeof(myth_spinlock_t), (long)sizeof(pthread_spinlock_t));
  printf("size myth_once_t %ld %ld\n", (long)sizeof(myth_once_t), (long)sizeof(pthread_once_t));
  printf("size myth_key_t %ld %ld\n", (long)sizeof(myth_key_t), (long)sizeof(pthread_key_t));
  printf("size myth_thread_t %ld %ld\n", (long)sizeof(myth_thread_t), (long)sizeof(pthread_t));
  return 0;
}
"""


def probe(workdir):
    os.makedirs(workdir, exist_ok=True)
    src = os.path.join(workdir, "probe.c")
    open(src, "w").write(PROBE_C)
    exe = os.path.join(workdir, "probe")
    vlib.cc(exe, [src], flags=vlib.lib_cflags("LD") + ["-O0"], libs=[])
    rc, out = vlib.sh([exe], timeout=20)
    if rc != 0:
        raise vlib.BuildError("translator: constant probe failed: " + out[-500:])
    consts, sizes = {}, []
    for l in out.split("\n"):
        w = l.split()
        if len(w) == 2:
            consts[w[0]] = int(w[1])
        elif len(w) == 4 and w[0] == "size":
            sizes.append((w[1], int(w[2]), int(w[3])))
    return consts, sizes


# ---------------------------------------------------------------------------------------------
# everything
# ---------------------------------------------------------------------------------------------

def translate(workdir):
    wtext = preprocess("myth_wrap_pthread.c", "LD")
    rl = preprocess("myth_real.c", "LD")
    rd = preprocess("myth_real.c", "DL")
    opts_path = os.path.join(vlib.REPO, "src", "myth-ld.opts")
    opts = []
    if os.path.exists(opts_path):
        for l in open(opts_path, errors="replace"):
            m = re.match(r"^\s*-Wl,--wrap=(\w+)\s*$", l)
            if m:
                opts.append(m.group(1))
    wf, worder = functions(wtext, r"__wrap_\w+")
    rlf, _ = functions(rl, r"real_\w+")
    rdf, _ = functions(rd, r"real_\w+")
    entries = []
    for nm in worder:
        if wf[nm] is None:
            entries.append({"name": nm[len("__wrap_"):], "arity": 0, "params": [], "guarded": False,
                            "wrapped": [("SOther", "defined twice")], "real": [], "returns_ret": False,
                            "noreturn_assert": False})
            continue
        e = wrapper_entry(nm[len("__wrap_"):], wf[nm][0], wf[nm][1])
        entries.append(e)
    for e in entries:
        e["in_opts"] = e["name"] in opts
        for key, tab in (("real_ld", rlf), ("real_dl", rdf)):
            r = tab.get("real_" + e["name"])
            e[key] = real_entry(r[0], r[1]) if r else None
    consts, sizes = probe(workdir)
    return {"entries": entries, "opts": opts, "consts": consts, "sizes": sizes, "attr": attr_facts(wtext),
            "static_init": static_init_shape(wtext)}


# ---------------------------------------------------------------------------------------------
# Coq output
# ---------------------------------------------------------------------------------------------

def cstr(s):
    s = re.sub(r"[^\x20-\x7e]", "?", s)
    return '"' + s.replace('"', '""') + '"'


def cz(v):
    return "(%d)" % v if v < 0 else "%d" % v


def caexp(a):
    if a[0] == "AParam":
        return "AParam %d" % a[1]
    if a[0] == "AXlate":
        return "AXlate %s %d" % (cstr(a[1]), a[2])
    return "AOther %s" % cstr(a[1])


def cstmt(s):
    k = s[0]
    if k == "SInit":
        return "SInit (%s)" % caexp(s[1])
    if k == "SWarn":
        return "SWarn"
    if k in ("SCall", "SCallV"):
        return "%s %s [%s]" % (k, cstr(s[1]), "; ".join(caexp(a) for a in s[2]))
    if k == "SCallTern":
        return "SCallTern %s [%s] %s %s" % (cstr(s[1]), "; ".join(caexp(a) for a in s[2]), cz(s[3]), cz(s[4]))
    if k == "SConst":
        return "SConst %s" % cz(s[1])
    if k == "SRetMap":
        return "SRetMap %s %s %s" % (cz(s[1]), cz(s[2]), cz(s[3]))
    return "SOther %s" % cstr(s[1] if len(s) > 1 else "?")


def creal(r):
    if r is None or len(r["calls"]) != 1:
        return "None"
    f, args = r["calls"][0]
    return "Some (%s, [%s])" % (cstr(f), "; ".join(caexp(a) for a in args))


def coq_data(tr, header):
    L = [header, "From Coq Require Import List String ZArith.", "From MT Require Import Wrap.WrapSpec Wrap.AttrModel Wrap.StaticInitModel.",
         "Import ListNotations.", "Local Open Scope string_scope.", "Local Open Scope Z_scope.", ""]
    L.append("Definition table : list entry := [")
    rows = []
    for e in tr["entries"]:
        rows.append("  {| e_name := %s; e_arity := %d%%nat; e_guarded := %s;\n     e_wrapped := [%s];\n     e_real := [%s];\n"
                    "     e_returns_ret := %s; e_noreturn := %s; e_in_opts := %s;\n     e_real_ld := %s;\n     e_real_dl := %s |}" % (
                        cstr(e["name"]), e["arity"], "true" if e["guarded"] else "false",
                        "; ".join(cstmt(s) for s in e["wrapped"]), "; ".join(cstmt(s) for s in e["real"]),
                        "true" if e["returns_ret"] else "false", "true" if e["noreturn_assert"] else "false",
                        "true" if e["in_opts"] else "false", creal(e["real_ld"]), creal(e["real_dl"])))
    L.append(";\n".join(rows))
    L.append("].\n")
    c = tr["consts"]
    L.append("Definition consts : wconsts := {| k_myth_serial := %s; k_posix_serial := %s; k_ebusy := %s |}.\n" % (
        cz(c.get("MYTH_BARRIER_SERIAL_THREAD", 0)), cz(c.get("PTHREAD_BARRIER_SERIAL_THREAD", 0)), cz(c.get("EBUSY", 0))))
    L.append("Definition sizes : list (string * Z * Z) := [%s].\n" % "; ".join(
        "(%s, %d, %d)" % (cstr(n), a, b) for n, a, b in tr["sizes"]))
    a = tr["attr"]
    sl = lambda l: "[" + "; ".join(cstr(x) for x in l) + "]"
    L.append("Definition attr_fields : list string := %s." % sl(a["fields"]))
    L.append("Definition attr_init_writes : list string := %s." % sl(a["init_writes"]))
    L.append("Definition attr_create_reads : list string := %s." % sl(a["create_reads"]))
    x = a["xlate"].get("pthread_attr_to_myth", {"null_to_null": False, "steps": [("?", [])]})
    L.append("Definition attr_xlate_null : bool := %s." % ("true" if x["null_to_null"] else "false"))
    L.append("Definition attr_xlate_steps : list (string * list string) := [%s].\n" % "; ".join(
        "(%s, %s)" % (cstr(f), sl(fl)) for f, fl in x["steps"]))
    s = tr["static_init"]
    val = lambda nm: cz(c.get(nm, -1)) if nm in c else "(-1)"
    L.append("Definition si_shape : shape := {| sh_magic_no := %s; sh_initializing := %s; sh_static_word := %s;\n"
             "  sh_fast := %s; sh_guard := %s; sh_cas_old_is_read := %s; sh_cas_new := %s; sh_init_magic := %s;\n"
             "  sh_final := %s; sh_spin := %s; sh_order := %s; sh_unparsed := %d%%nat |}.\n" % (
                 val("myth_mutex_magic_no"), val("myth_mutex_magic_no_initializing"), cz(c.get("static_mutex_first_word", 0)),
                 val(s["fast"]), val(s["guard"]), "true" if s["cas_old_is_read"] else "false", val(s["cas_new"]),
                 val(s["init_magic"]), val(s["final"]), val(s["spin"]), sl(s["order"]),
                 len(s["other"]) + (0 if s["found"] else 1)))
    return "\n".join(L) + "\n"


if __name__ == "__main__":
    # python3 tools/props/c16_translate.py --pinned : regenerate coq/Wrap/WrapTablePinned.v (a committed snapshot of
    # the tree at hand; used only for the non-vacuity Examples of Properties_C16.v)
    import sys
    if "--pinned" in sys.argv:
        tr = translate(os.path.join(vlib.BUILD, "C16", "pin"))
        txt = coq_data(tr, "(** Snapshot of the wrapper table of the pinned tree, written by\n"
                           "    `python3 tools/props/c16_translate.py --pinned`.  Used only for the Examples of Properties_C16.v;\n"
                           "    the check regenerates the data from the current tree on every run\n"
                           "    (build/C16/gen/WrapTableGen.v). *)")
        open(os.path.join(vlib.COQ, "Wrap", "WrapTablePinned.v"), "w").write(txt)
        print("wrote coq/Wrap/WrapTablePinned.v with %d entries" % len(tr["entries"]))
