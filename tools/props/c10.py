"""C10 - thread-specific data is private to (thread, key) and follows the thread.

prove (Properties_C10.v) -> build unit harness / library harness / extracted driver from the current tree
-> cases from ctx.rng -> implementation vs model line by line -> independent oracles of the property on
the implementation's output (dict per thread, set of live keys, online distinctness of the keys held)
-> known findings (stale value after delete+create, ABA on the key free list) replayed and reported as
KNOWN-FINDING; everything else that breaks the property is a VIOLATION."""
import os, json, re, subprocess
import shutil
import vlib

VF = ["Tls/TlsTreeModel.v", "Tls/TlsKeysModel.v", "Tls/TlsSysModel.v"]
H = os.path.join(vlib.VERIF, "harness")
NK = 1024
EINVAL = 22
BOUNDARY = [0, 1, 15, 16, 17, 31, 32, 63, 64, 65, 255, 256, 257, 1023]
OOR = [-1, 1024, 1025, 4096, -1024, 65536, 2147483647, -2147483648]
ABA_CASE = "conc 3 1 c 7 3 c 8 c 9 x 0 1 c 10 S 19 0 0 0 1 1 1 1 1 1 1 1 1 1 1 1 0 2 2 2"
STALE_CASE = "sys 1 5 c 0 s 0 0 777 x 0 c 0 g 0 0"
POINT_IDS = ["key.alloc.readhead", "key.alloc.readnext", "key.alloc.cas",
             "key.dealloc.check", "key.dealloc.readhead", "key.dealloc.cas"]


VARIANT = {"gen": False, "lock": False}       # set by run()/replay() from the source text


def source_variant():
    """which variant of the source is this?  (gen: tree_get/_set take the key allocator, i.e. entries carry a
    generation; lock: key_allocator_alloc takes a spin lock).  Decides how the harness is compiled and which
    model variant the driver runs; whether the two FINDINGS are present is probed on the running code."""
    f = open(os.path.join(vlib.REPO, "src", "myth_tls_func.h"), errors="replace").read()
    gen = bool(re.search(r"myth_tls_tree_get\s*\([^)]*myth_tls_key_allocator_t", f))
    m = re.search(r"\nmyth_tls_key_allocator_alloc\s*\(.*?\n}\n", f, re.S)
    lock = bool(m and "myth_spin_lock_body" in m.group(0))
    return gen, lock


def unit_flags(gen=False, lock=False):
    return vlib.lib_cflags() + ["-O0", "-g", "-I" + H, "-Wl,--wrap=real_malloc", "-Wl,--wrap=real_free",
                                "-DC10_GEN=%d" % int(gen), "-DC10_LOCK=%d" % int(lock)]



def get_lib(ctx):
    """private copy of the library archive: the shared cache under build/lib is pruned by concurrent
    checks of other properties, which can remove the archive between build_lib() and the link"""
    last = None
    for _ in range(6):
        lib = vlib.build_lib()
        dst = os.path.join(ctx.dir, "libmyth.a")
        try:
            shutil.copyfile(lib, dst + ".tmp")
            os.replace(dst + ".tmp", dst)
            return dst
        except OSError as e:
            last = e
    raise vlib.BuildError("library archive vanished repeatedly: %s" % last)


def build(ctx, want_lib=True, gen=False, lock=False):
    lib = get_lib(ctx)
    libs = [lib, "-lpthread", "-ldl", "-lrt"]
    unit = vlib.cc(os.path.join(ctx.dir, "c10_tls_unit"), [os.path.join(H, "c10_tls_unit.c")], flags=unit_flags(gen, lock), libs=libs)
    libexe = None
    if want_lib:
        libexe = vlib.cc(os.path.join(ctx.dir, "c10_tls_lib"), [os.path.join(H, "c10_tls_lib.c")],
                         flags=vlib.lib_cflags() + ["-O0", "-g"], libs=libs)
    drv = vlib.build_driver("C10", "Extract_C10.v", "driver_C10.ml", VF)
    return unit, libexe, drv


# ------------------------------------------------------------------------------------------------
# generators
# ------------------------------------------------------------------------------------------------

def rnd_val(r):
    k = r.below(10)
    if k == 0:
        return 0
    if k == 1:
        return (1 << 64) - 1
    if k == 2:
        return r.rng(1, 255)
    return r.rng(1, (1 << 63))


def tree_case(ops):
    return "tree %d %s" % (len(ops), " ".join(ops))


def gen_tree(ctx, n_random, gen=False):
    """gen: the source has generation tags - then "b k" (one more incarnation of index k) is exercised:
    afterwards key k must read NULL until it is stored under again"""
    r = ctx.rng
    cases = []
    # every single key on its own path, with neighbours on every level, and a dump
    for k in range(NK):
        v = rnd_val(r) or 7
        nb = [k ^ 1, k ^ 15, k ^ 16, k ^ 48, k ^ 64, k ^ 192, k ^ 256, k ^ 768, (k + 1) % NK]
        ops = ["g %d" % k, "s %d %d" % (k, v), "g %d" % k] + ["g %d" % x for x in nb] + ["d"]
        if gen:
            ops += ["b %d" % k, "g %d" % k, "g %d" % (k ^ 1), "s %d %d" % (k ^ 1, v), "b %d" % k, "g %d" % (k ^ 1),
                    "s %d %d" % (k, v // 2 + 1), "g %d" % k, "d"]
        cases.append(tree_case(ops))
    # all 1024 keys in one tree, shuffled, then read back, overwritten, read back
    order = list(range(NK)); r.shuffle(order)
    ops = ["s %d %d" % (k, k * 7 + 1) for k in order] + ["g %d" % k for k in range(NK)]
    ops += ["g %d" % k for k in OOR] + ["s %d 5" % k for k in OOR]
    order2 = list(range(NK)); r.shuffle(order2)
    ops += ["s %d %d" % (k, 0 if k % 5 == 0 else (1 << 40) + k) for k in order2[:600]] + ["g %d" % k for k in range(NK)] + ["d"]
    cases.append(tree_case(ops))
    # structured subsets
    subsets = [[0, 16, 32, 48], [0, 64, 128, 192], [0, 256, 512, 768], list(range(16)), list(range(16, 32)),
               [15, 16], [63, 64], [255, 256], [1023], [1023, 0], [767, 768, 1023], BOUNDARY,
               [k for k in range(0, NK, 16)], [k for k in range(0, NK, 64)], [k for k in range(NK - 1, -1, -37)]]
    for a in BOUNDARY:
        for b in BOUNDARY:
            if a < b:
                subsets.append([a, b]); subsets.append([b, a])
    for ss in subsets:
        ops = []
        for k in ss:
            ops.append("s %d %d" % (k, 1000 + k))
        probe = sorted(set(ss + [x ^ 16 for x in ss] + [x ^ 256 for x in ss] + BOUNDARY))
        ops += ["g %d" % k for k in probe] + ["d"]
        cases.append(tree_case(ops))
    # random histories: sets (also NULL values, overwrites, out-of-range keys) and gets
    for _ in range(n_random):
        nops = r.choice([3, 8, 20, 60, 200])
        pool = [r.below(NK) for _ in range(r.rng(1, 12))] + [r.choice(BOUNDARY)]
        ops = []
        for _ in range(nops):
            c = r.below(10)
            if gen and r.chance(1, 8):
                ops.append("b %d" % (r.choice(pool) if r.chance(3, 4) else r.choice(OOR + [r.below(NK)])))
            elif c < 5:
                k = r.choice(pool) if r.chance(2, 3) else r.below(NK)
                ops.append("s %d %d" % (k, rnd_val(r)))
            elif c < 6:
                ops.append("s %d %d" % (r.choice(OOR), rnd_val(r)))
            elif c < 9:
                k = r.choice(pool) if r.chance(2, 3) else r.below(NK)
                ops.append("g %d" % k)
            else:
                ops.append("g %d" % r.choice(OOR))
        ops.append("d")
        cases.append(tree_case(ops))
    return cases


def gen_keys(ctx, n_random):
    r = ctx.rng
    cases = []
    # exhaustion: 1024 creates, the next ones fail, delete some, create again
    ops = ["c %d" % (i % 7) for i in range(1027)]
    dels = [r.below(NK) for _ in range(40)]
    ops += ["x %d" % k for k in dels] + ["x %d" % dels[0], "x -1", "x 1024"]
    ops += ["c 9" for _ in range(45)]
    cases.append("keys %d %s" % (len(ops), " ".join(ops)))
    # delete everything, recreate everything
    order = list(range(NK)); r.shuffle(order)
    ops = ["c 1" for _ in range(NK)] + ["x %d" % k for k in order] + ["c 2" for _ in range(NK + 1)]
    cases.append("keys %d %s" % (len(ops), " ".join(ops)))
    for _ in range(n_random):
        nops = r.choice([2, 5, 12, 40, 150])
        live, ops = [], []
        nxt = 0
        for _ in range(nops):
            c = r.below(10)
            if c < 5 or not live:
                ops.append("c %d" % r.below(50))
                live.append(-1)   # index unknown here; bias below uses small numbers
            elif c < 8:
                ops.append("x %d" % r.below(max(2, len(live) + 2)))
            elif c < 9:
                ops.append("x %d" % r.choice(OOR))
            else:
                ops.append("x %d" % r.below(NK))
        cases.append("keys %d %s" % (len(ops), " ".join(ops)))
    return cases


def gen_sys(ctx, n_random):
    """API-level histories on T trees.  Half of them respect the guard of C10_fresh_key_null_partial
    (values are reset to NULL in every thread before a key is deleted), half do not."""
    r = ctx.rng
    cases = [STALE_CASE]
    for i in range(n_random):
        T = r.rng(1, 4)
        guarded = (i % 2 == 0)
        nops = r.choice([6, 15, 40, 120])
        live = []
        freel = list(range(NK))            # mirror of the LIFO free list, to know which index a create returns
        holds = {}                         # (t, k) -> last value stored
        ops = []
        for _ in range(nops):
            c = r.below(20)
            if c < 4 or not live:
                if freel:
                    k = freel.pop(0); live.append(k)
                ops.append("c %d" % r.below(9))
            elif c < 11:
                t, k = r.below(T), r.choice(live)
                v = rnd_val(r)
                ops.append("s %d %d %d" % (t, k, v)); holds[(t, k)] = v
            elif c < 12:
                ops.append("s %d %d %d" % (r.below(T), r.choice(OOR), rnd_val(r)))
            elif c < 16:
                k = r.choice(live) if r.chance(3, 4) else r.choice([r.below(NK)] + OOR)
                ops.append("g %d %d" % (r.below(T), k))
            elif c < 18:
                k = r.choice(live)
                if guarded:
                    for t in range(T):
                        if holds.get((t, k), 0) != 0:
                            ops.append("s %d %d 0" % (t, k)); holds[(t, k)] = 0
                ops.append("x %d" % k); live.remove(k); freel.insert(0, k)
                # the next create hands the same index out again: look at it from every thread
                if r.chance(2, 3):
                    k2 = freel.pop(0); live.append(k2)
                    ops.append("c 3")
                    for t in range(T):
                        ops.append("g %d %d" % (t, k2))
            elif c < 19:
                ops.append("x %d" % r.choice([r.below(NK)] + OOR + ([] if not freel else [freel[-1]])))
                # (deleting a dead / out-of-range index: must be EINVAL and change nothing)
                kk = int(ops[-1].split()[1])
                if kk in live:
                    live.remove(kk); freel.insert(0, kk)
            else:
                t = r.below(T)
                ops.append("n %d" % t)
                for key in [x for x in holds if x[0] == t]:
                    del holds[key]
        cases.append("sys %d %d %s" % (T, len(ops), " ".join(ops)))
    return cases


LONG_N = [65536 + d for d in (-3, -2, -1, 0, 1, 2, 3)] + [2 * 65536 + d for d in (-3, -2, -1, 0, 1, 2, 3)]


def gen_long(ctx):
    """long histories: tens of thousands of create/delete cycles of ONE key index between a store and the
    reads (the generation stamp must not wrap before 2^32): through the real allocator functions ("r N d" in
    sys / keys cases) and directly on the generation column ("r k N" in tree cases)"""
    r = ctx.rng
    cases = []
    for idx in (0, 17, 1023):
        for n in LONG_N:
            P, Q = r.rng(1, 1 << 40), r.rng(1, 1 << 40)
            ops = ["c 1"] * (idx + 1)
            ops += ["s 0 %d %d" % (idx, P), "s 1 %d %d" % (idx, P + 1), "g 0 %d" % idx, "x %d" % idx,
                    "r %d 3" % n,                      # n incarnations of the index come and go
                    "c 5", "g 0 %d" % idx, "g 1 %d" % idx,          # nobody stored under this incarnation: NULL
                    "s 0 %d %d" % (idx, Q), "g 0 %d" % idx, "g 1 %d" % idx,
                    "x %d" % idx, "r 1 0", "c 2", "g 0 %d" % idx, "s 1 %d %d" % (idx, P), "g 1 %d" % idx]
            cases.append("sys 2 %d %s" % (len(ops), " ".join(ops)))
    for n in LONG_N:
        k = r.choice([0, 3, 9])
        ops = ["c %d" % (i + 1) for i in range(10)] + ["x %d" % k, "r %d 7" % n, "c 4", "x 2", "r 5 1", "c 9"]
        cases.append("keys %d %s" % (len(ops), " ".join(ops)))
    for k in (0, 16, 700, 1023):
        for n in LONG_N:
            P = r.rng(1, 1 << 40)
            ops = ["s %d %d" % (k, P), "s %d %d" % (k ^ 1, P), "r %d %d" % (k, n), "g %d" % k, "g %d" % (k ^ 1),
                   "s %d %d" % (k, P), "g %d" % k, "r %d %d" % (k ^ 1, 65536), "g %d" % (k ^ 1), "d"]
            cases.append(tree_case(ops))
    return cases


def gen_conc(ctx, n_random):
    r = ctx.rng
    cases = [ABA_CASE]
    # the two-thread variant of the witness: T0's create is suspended, T1 does create, create, delete(0), create
    cases.append("conc 2 1 c 7 4 c 8 c 9 x 0 c 10 S 16 0 0 0 1 1 1 1 1 1 1 1 1 1 1 1 0")
    for _ in range(n_random):
        T = r.rng(2, 3)
        progs = []
        for t in range(T):
            n = r.rng(1, 5)
            p = []
            for _ in range(n):
                c = r.below(10)
                if c < 5:
                    p.append("c %d" % (10 * t + r.below(9)))
                elif c < 9:
                    # thread t only ever deletes indices congruent to t (usage contract: no two threads
                    # inside key_delete of the same key at once)
                    p.append("x %d" % (t + T * r.below(3)))
                else:
                    p.append("x %d" % r.choice(OOR))
            progs.append(p)
        m = r.choice([4, 10, 20, 40])
        style = r.below(3)
        sched = []
        cur = r.below(T)
        for _ in range(m):
            if style == 0:
                cur = r.below(T)
            elif r.chance(1, 4):
                cur = r.below(T)
            sched.append(cur)
        cases.append("conc %d %s S %d %s" % (T, " ".join("%d %s" % (len(p), " ".join(p)) for p in progs), m,
                                            " ".join(map(str, sched))))
    return cases


# ------------------------------------------------------------------------------------------------
# oracles: the property itself, stated on an output line of the case language
# ------------------------------------------------------------------------------------------------

def POOL():
    return 384 if VARIANT["gen"] else 256


def parse_dump(tok):
    """origins of the nodes in a dump token: list of (kind, 'P'|'H', number)"""
    return [(m.group(1), m.group(2), int(m.group(3))) for m in re.finditer(r"([IL])([PH])(\d+)", tok)]


def oracle_tree(case, out):
    w = case.split()
    o = out.split()
    if not o or o[0] != "tree":
        return "no result: " + out[:80]
    d = {}
    i, j = 2, 1
    try:
        while i < len(w):
            if w[i] == "s":
                k, v = int(w[i + 1]), int(w[i + 2]); i += 3
                rc = o[j]; j += 1
                if 0 <= k < NK:
                    if rc != "r0":
                        return "store under valid key %d returned %s" % (k, rc)
                    d[k] = v
                elif rc != "r%d" % EINVAL:
                    return "store under out-of-range key %d was not rejected (%s)" % (k, rc)
            elif w[i] == "g":
                k = int(w[i + 1]); i += 2
                got = o[j]; j += 1
                exp = d.get(k, 0) if 0 <= k < NK else 0
                if got != "v%d" % exp:
                    return "load under key %d returned %s, the thread's last store there was %d" % (k, got, exp)
            elif w[i] in ("b", "r"):
                k = int(w[i + 1]); j += 1
                n = int(w[i + 2]) if w[i] == "r" else 1
                i += 3 if w[i] == "r" else 2
                if VARIANT["gen"] and n > 0:
                    d.pop(k, None)          # new incarnation(s) of the index: nothing stored under it yet
            elif w[i] == "d":
                i += 1
                nodes = parse_dump(o[j]); j += 1
                seen = set()
                spans = []
                for kind, org, num in nodes:
                    if (org, num) in seen:
                        return "two nodes share the memory origin %s%d" % (org, num)
                    seen.add((org, num))
                    if org == "P":
                        sz = 40 if kind == "I" else (264 if VARIANT["gen"] else 136)
                        if num < 0 or num + sz > POOL():
                            return "pool node at offset %d size %d overruns the %d-byte pool" % (num, sz, POOL())
                        spans.append((num, num + sz))
                spans.sort()
                for a, b in zip(spans, spans[1:]):
                    if a[1] > b[0]:
                        return "pool nodes overlap: %s %s" % (a, b)
            else:
                return "bad case"
        pp = int(o[j].split("=")[1])
        if not (0 <= pp <= POOL()):
            return "pool pointer %d outside the pool" % pp
    except (IndexError, ValueError) as e:
        return "unparsable output (%s): %s" % (e, out[:120])
    return None


def expand_runs(s):
    res = []
    for part in s.split(","):
        if not part:
            continue
        if ".." in part:
            a, b = part.split(".."); res += list(range(int(a), int(b) + 1))
        else:
            res.append(int(part))
    return res


def oracle_keys(case, out):
    w = case.split(); o = out.split()
    if not o or o[0] != "keys":
        return "no result: " + out[:80]
    live = {}
    try:
        n = int(w[1])
        i = 2
        for q in range(n):
            op, a = w[i], int(w[i + 1])
            res = o[1 + q]
            if op == "r":
                i += 3
                if res == "r-1":
                    if len(live) != NK:
                        return "creation failed with only %d live keys" % len(live)
                elif res == "r!":
                    return "a create/delete cycle handed out another index or gave back another destructor"
                else:
                    k = int(res[1:].split("x")[0])
                    if k in live or not (0 <= k < NK):
                        return "create/delete cycles ran on index %d, which is live or out of range" % k
                continue
            i += 2
            r = int(res)
            if op == "c":
                if r == -1:
                    if len(live) != NK:
                        return "creation failed with only %d live keys" % len(live)
                else:
                    if not (0 <= r < NK):
                        return "creation returned index %d outside the range" % r
                    if r in live:
                        return "creation returned index %d which is still live" % r
                    if len(live) == NK:
                        return "creation succeeded with 1024 live keys"
                    live[r] = a
            else:
                if a in live:
                    if r == -1:
                        return "deletion of live key %d failed" % a
                    if r != live[a]:
                        return "deletion of key %d returned destructor %d, registered was %d" % (a, r, live[a])
                    del live[a]
                elif r != -1:
                    return "deletion of dead / out-of-range key %d did not fail (%d)" % (a, r)
        fr = o[1 + n]; lv = o[2 + n]
        if "!" in fr:
            return "free list does not end in NULL: " + fr[-20:]
        chain = expand_runs(fr[len("free="):])
        marked = expand_runs(lv[len("live="):])
        if sorted(marked) != sorted(live):
            return "cells marked live %s.. differ from the keys handed out" % marked[:5]
        if len(set(chain)) != len(chain) or set(chain) & set(marked) or len(chain) + len(marked) != NK:
            return "free list and live keys do not partition the 1024 indices (%d free, %d live)" % (len(chain), len(marked))
        # the destructor column: a registered destructor belongs to a LIVE key (a deleted key has none)
        for tok in o[3 + n:]:
            if tok.startswith("dt="):
                for ent in tok[3:].split(","):
                    if ent:
                        k, tag = map(int, ent.split(":"))
                        if k not in live:
                            return "key %d is not live but its key-table cell still holds destructor %d" % (k, tag)
                        if live[k] != tag:
                            return "key %d was created with destructor %d, its cell holds %d" % (k, live[k], tag)
    except (IndexError, ValueError) as e:
        return "unparsable output (%s): %s" % (e, out[:120])
    return None


def oracle_sys(case, out):
    """returns (message, is_stale) - is_stale: the failure is exactly the known stale-value pattern"""
    w = case.split(); o = out.split()
    if not o or o[0] != "sys":
        return "no result: " + out[:80], False
    T = int(w[1])
    live = set()
    val = [dict() for _ in range(T)]          # values stored under the CURRENT incarnation of a key
    old = [dict() for _ in range(T)]          # values left behind under deleted incarnations
    i, j = 3, 1
    try:
        while i < len(w):
            op = w[i]
            if op == "r":
                res = o[j]; j += 1; i += 3
                if res == "r!":
                    return "a create/delete cycle handed out another index or gave back another destructor", False
                if res == "r-1":
                    if len(live) != NK:
                        return "creation failed with %d live keys" % len(live), False
                    continue
                k = int(res[1:].split("x")[0])
                if k in live or not (0 <= k < NK):
                    return "create/delete cycles ran on index %d, which is live or out of range" % k, False
                continue          # the index is dead before and after; whatever threads stored there stays stale
            r = int(o[j]); j += 1
            if op == "c":
                i += 2
                if r == -1:
                    if len(live) != NK:
                        return "creation failed with %d live keys" % len(live), False
                else:
                    if r in live or not (0 <= r < NK):
                        return "creation returned %d (live or out of range)" % r, False
                    live.add(r)
            elif op == "x":
                k = int(w[i + 1]); i += 2
                if k in live:
                    if r != 0:
                        return "deletion of live key %d returned %d" % (k, r), False
                    live.remove(k)
                    for t in range(T):
                        if k in val[t]:
                            old[t][k] = val[t].pop(k)
                elif r != EINVAL:
                    return "deletion of dead / out-of-range key %d returned %d" % (k, r), False
            elif op == "s":
                t, k, v = int(w[i + 1]), int(w[i + 2]), int(w[i + 3]); i += 4
                if 0 <= k < NK:
                    if r != 0:
                        return "store under valid key %d returned %d" % (k, r), False
                    val[t][k] = v; old[t].pop(k, None)
                elif r != EINVAL:
                    return "store under out-of-range key %d returned %d" % (k, r), False
            elif op == "g":
                t, k = int(w[i + 1]), int(w[i + 2]); i += 3
                exp = val[t].get(k, 0) if 0 <= k < NK else 0
                if 0 <= k < NK and k not in live and r in (0, old[t].get(k, 0)):
                    continue     # a deleted, not re-created index: the property says nothing (NULL or the old value)
                if r != exp:
                    stale = (k in old[t] and r == old[t][k] and k not in val[t])
                    return ("thread %d reads %d under key %d; under this key it stored %s" %
                            (t, r, k, exp if k in val[t] else "nothing (expected NULL)")), stale
            elif op == "n":
                t = int(w[i + 1]); i += 2
                val[t].clear(); old[t].clear()
            else:
                return "bad case", False
    except (IndexError, ValueError) as e:
        return "unparsable output (%s): %s" % (e, out[:120]), False
    return None, False


def oracle_conc(case, out):
    """online distinctness of the keys handed out.  Returns (message, in_aba_window, stats)."""
    toks = out.split()
    if not toks or toks[0] != "conc":
        return "no result: " + out[:80], False, {}
    w = case.split()
    T = int(w[1])
    progs, i = [], 2
    for t in range(T):
        n = int(w[i]); i += 1
        progs.append([(w[i + 2 * q], int(w[i + 2 * q + 1])) for q in range(n)]); i += 2 * n
    at = [None] * T          # (label, val) the thread waits at
    nxt = [0] * T            # next op of each program
    cur = [None] * T         # op in progress
    held = []
    window = False
    msg = None
    stats = {"cas_fail": 0, "entries": 0, "corrupt": 0, "spin_wait": 0, "preempted_in_lock": 0}
    for tok in toks[1:]:
        if tok == ";":
            continue
        if tok == "|":
            break
        if tok == "CORRUPT":
            stats["corrupt"] = 1
            if msg is None:
                msg = "the head of the key free list is neither NULL nor a cell (live mark installed as head)"
            break
        m = re.match(r"^(\d+):([^/]+)/f(.+)$", tok)
        if not m:
            return "unparsable token %r" % tok, window, stats
        t, what = int(m.group(1)), m.group(2)
        stats["entries"] += 1
        prev = at[t]
        if prev is None and what != "-":
            if nxt[t] < len(progs[t]):
                cur[t] = progs[t][nxt[t]]; nxt[t] += 1
        if what.startswith("R"):
            r = int(what[1:])
            if cur[t] and cur[t][0] == "c":
                if r >= 0:
                    if r in held and msg is None:
                        msg = "key %d handed out by a create while another creator still holds it" % r
                    held.append(r)
                    if not (0 <= r < NK) and msg is None:
                        msg = "create returned %d" % r
            elif cur[t] and cur[t][0] == "x":
                if prev and prev[0] == "dc":
                    # a successful push of key prev[1]: was some create waiting at its CAS with this operand?
                    k = prev[1]
                    if any(a is not None and a[0] == "ac" and a[1] == k for u, a in enumerate(at) if u != t):
                        window = True
                if prev and prev[0] == "dk" and r != -1 and msg is None:
                    msg = "delete returned %d straight from its liveness check" % r
            at[t] = None; cur[t] = None
        elif what == "-":
            pass
        else:
            lab, _, v = what.partition(":")
            v = int(v) if v else 0
            if lab == "sw":
                stats["spin_wait"] += 1          # a trylock failed: some other thread is parked inside the locked region
                stats["preempted_in_lock"] += 1 if any(a is not None and a[0] in ("ah", "an", "ac", "dk", "dh", "dc", "su")
                                                       for u, a in enumerate(at) if u != t) else 0
            if prev and prev[0] == "ac" and lab == "ah":
                stats["cas_fail"] += 1
            if prev and prev[0] == "dc" and lab == "dh":
                stats["cas_fail"] += 1
            if prev and prev[0] == "dk" and lab == "dh":
                # the delete passed its liveness check: the key is no longer held
                if v in held:
                    held.remove(v)
            at[t] = (lab, v)
    # a run that came to its end: the free list and the cells marked live partition the 1024 indices, and the
    # marked cells are exactly the keys still held
    if msg is None and stats["corrupt"] == 0 and "|" in toks:
        try:
            tail = toks[len(toks) - 1 - toks[::-1].index("|") + 1:]
            fr = [x for x in tail if x.startswith("free=")][0]
            lv = [x for x in tail if x.startswith("live=")][0]
            busy = any(a is not None for a in at) or any(nxt[t] < len(progs[t]) for t in range(T))
            if not busy:
                if "!" in fr:
                    msg = "the key free list does not end in NULL: " + fr[-12:]
                else:
                    chain = expand_runs(fr[len("free="):]); marked = expand_runs(lv[len("live="):])
                    if len(set(chain)) != len(chain) or set(chain) & set(marked) or len(chain) + len(marked) != NK:
                        msg = "free list and live cells do not partition the 1024 indices (%d free, %d live)" % (len(chain), len(marked))
                    elif sorted(marked) != sorted(held):
                        msg = "cells marked live %s differ from the keys still held %s" % (sorted(marked)[:6], sorted(held)[:6])
        except (IndexError, ValueError):
            pass
    return msg, window, stats


def oracle_unit(case, out):
    k = case.split()[0]
    if k == "tree":
        return oracle_tree(case, out), False
    if k == "keys":
        return oracle_keys(case, out), False
    if k == "sys":
        return oracle_sys(case, out)
    if k == "conc":
        m, win, _ = oracle_conc(case, out)
        return m, win
    return None, False


# ------------------------------------------------------------------------------------------------
# whole library
# ------------------------------------------------------------------------------------------------

def oracle_lib_run(out):
    """dict-per-thread oracle on the log of harness/c10_tls_lib.c run; returns (message, stats)"""
    st = {"ops": 0, "sets": 0, "gets": 0, "threads": 0, "migrated_threads": 0, "keys": 0, "nonnull_gets": 0}
    live = []
    if "done" not in out.split("\n"):
        return "library run did not complete: " + out[-200:].strip(), st
    for line in out.split("\n"):
        w = line.split()
        if not w:
            continue
        if w[0] in ("A0", "A"):
            ks = [int(x) for x in (w[1:] if w[0] == "A0" else w[2:])]
            for k in ks:
                if k == -1:
                    continue
                if not (0 <= k < NK):
                    return "key creation returned %d" % k, st
                if k in live:
                    return "key %d handed out twice while live (%s)" % (k, line[:60]), st
                live.append(k); st["keys"] += 1
        elif re.match(r"^B\d$", w[0]):
            st["threads"] += 1
            d = {}
            workers = set()
            for tok in w[2:]:
                if tok == "y":
                    continue
                f = tok.split(":")
                st["ops"] += 1
                if f[0] == "s":
                    k, v, rc, wk = int(f[1]), int(f[2]), int(f[3]), int(f[4])
                    st["sets"] += 1; workers.add(wk)
                    if 0 <= k < NK:
                        if rc != 0:
                            return "setspecific under valid key %d returned %d" % (k, rc), st
                        d[k] = v
                    elif rc != EINVAL:
                        return "setspecific under out-of-range key %d returned %d" % (k, rc), st
                else:
                    k, v, wk = int(f[1]), int(f[2]), int(f[3])
                    st["gets"] += 1; workers.add(wk)
                    exp = d.get(k, 0) if 0 <= k < NK else 0
                    if v:
                        st["nonnull_gets"] += 1
                    if v != exp:
                        return "%s thread %s on worker %d reads %d under key %d, its own last store there was %d" % (
                            w[0], w[1], wk, v, k, exp), st
            if len(workers) > 1:
                st["migrated_threads"] += 1
        elif w[0] == "C":
            for tok in w[2:]:
                k, r1, r2 = map(int, tok.split(":"))
                if k < 0:
                    continue
                if r1 != 0:
                    return "deletion of live key %d returned %d" % (k, r1), st
                if r2 != EINVAL:
                    return "second deletion of key %d returned %d" % (k, r2), st
                if k in live:
                    live.remove(k)
        elif w[0] == "D":
            seen = set()
            for tok in w[1:]:
                k, rc = map(int, tok.rsplit(":", 1))
                exp = 0 if (k in live and k not in seen) else EINVAL
                if rc != exp:
                    return "deletion of key %d returned %d, expected %d" % (k, rc, exp), st
                seen.add(k)
    return None, st


def oracle_lib_full(out):
    lines = {l.split()[0]: l.split()[1:] for l in out.split("\n") if l.split()}
    if "done" not in lines:
        return "library run did not complete"
    cr = [int(x) for x in lines.get("full", [])]
    ok = [k for k in cr if k != -1]
    if len(ok) != NK or sorted(ok) != list(range(NK)):
        return "the first 1024 creations did not hand out 1024 distinct indices (%d ok)" % len(ok)
    if cr[:NK].count(-1) or any(k != -1 for k in cr[NK:]):
        return "creation did not fail exactly when 1024 keys were live"
    dele = [tuple(map(int, x.split(":"))) for x in lines.get("full_del", [])]
    if any(rc != 0 for _, rc in dele):
        return "deletion of a live key failed"
    again = [int(x) for x in lines.get("full_again", [])]
    freed = set(k for k, _ in dele)
    got = [k for k in again if k != -1]
    if len(got) != len(freed) or set(got) != freed or any(k != -1 for k in again[len(freed):]):
        return "after deleting %d keys the next creations returned %d indices (expected exactly the freed ones, then failure)" % (len(freed), len(got))
    return None


SAN_FLAGS = ["-fsanitize=address,undefined", "-fno-sanitize-recover=all", "-fno-omit-frame-pointer"]
SAN_ENV = {"ASAN_OPTIONS": "detect_leaks=0:halt_on_error=1", "UBSAN_OPTIONS": "print_stacktrace=1:halt_on_error=1"}


def build_san(ctx):
    """thorough tier: library sources + harness/c10_tls_lib.c under AddressSanitizer + UndefinedBehaviorSanitizer"""
    lib = None
    for _ in range(6):
        try:
            src = vlib.build_lib(extra=SAN_FLAGS)
            lib = os.path.join(ctx.dir, "libmyth_san.a")
            shutil.copyfile(src, lib + ".tmp"); os.replace(lib + ".tmp", lib)
            break
        except OSError:
            lib = None
    if lib is None:
        raise vlib.BuildError("sanitizer build of the library vanished repeatedly")
    return vlib.cc(os.path.join(ctx.dir, "c10_tls_lib_san"), [os.path.join(H, "c10_tls_lib.c")],
                   flags=vlib.lib_cflags() + ["-O0", "-g"] + SAN_FLAGS, libs=[lib, "-lpthread", "-ldl", "-lrt"])


def san_report(rc, out):
    m = re.search(r"(ERROR: AddressSanitizer[^\n]*|[^\n]*runtime error:[^\n]*|ERROR: UndefinedBehaviorSanitizer[^\n]*)", out)
    if m:
        return m.group(1).strip()[:300]
    if rc != 0 or "done" not in out.split("\n"):
        return "the sanitizer build did not complete the run (exit code %d): %s" % (rc, out[-200:].strip())
    return None


def oracle_lib_mixed(rc, out):
    """free-running mixed create / delete / set / get: the harness judges every operation that ran entirely
    inside one incarnation of its index (see harness/c10_tls_lib.c "mixed"); returns (message, stats)"""
    st = {}
    viol = [l[2:] for l in out.split("\n") if l.startswith("V ")]
    m = re.search(r"^mixed (.*)$", out, re.M)
    if m:
        st = {k: int(v) for k, v in (x.split("=") for x in m.group(1).split())}
    if viol:
        return viol[0] + (" (+%d more)" % (len(viol) - 1) if len(viol) > 1 else ""), st
    if "done" not in out.split("\n") or not m:
        return "the run did not complete (exit code %d): %s" % (rc, out[-150:].strip()), st
    if st.get("violations", 0):
        return "%d violations counted" % st["violations"], st
    return None, st


def oracle_lib_memo(out):
    """the property on the log of `c10_tls_lib memo`: getspecific returns the last value THIS thread stored under
    THIS key, else NULL.  Returns (message, stats)."""
    st = {"S1": 0, "S2": 0, "S3": 0, "S1_same_worker": 0, "S2_delete_on_other_worker": 0, "S3_migrated_and_back": 0}
    if "done" not in out.split("\n"):
        return "library run did not complete: " + out[-200:].strip(), st
    msgs = {}
    msg = None
    for l in out.split("\n"):
        w = l.split()
        if not w or w[0] not in ("S1", "S2", "S3"):
            continue
        if msg is not None:
            msgs.setdefault(msg.split()[0], msg); msg = None
        st[w[0]] += 1
        if w[0] == "S1":
            it, key, wa, wb, r1, r2 = map(int, w[1:7])
            st["S1_same_worker"] += 1 if wa == wb else 0
            if (r1 or r2) and msg is None:
                msg = ("S1 iteration %d: thread A (worker %d): setspecific(key %d, v); returns, is joined; thread B (worker %d, "
                       "recycled descriptor), which never stored anything, reads getspecific = %d / %d under keys %d / %d "
                       "(expected NULL)" % (it, wa, key, wb, r1, r2, key, key + 1))
        elif w[0] == "S2":
            it, ko, kn, wh, wm, r1 = map(int, w[1:7])
            st["S2_delete_on_other_worker"] += 1 if wh != wm else 0
            if r1 and msg is None:
                msg = ("S2 iteration %d: thread H (worker %d): setspecific(key %d, v), getspecific; main (worker %d): "
                       "key_delete(%d), key_create -> %d; H, which never stored under the new key, reads %d (expected NULL)"
                       % (it, wh, ko, wm, ko, kn, r1))
        else:
            it, key, w1, w2, w3, v2, r1 = map(int, w[1:8])
            st["S3_migrated_and_back"] += 1 if (w1 != w2 and w3 == w1) else 0
            if r1 != v2 and msg is None:
                msg = ("S3 iteration %d: thread T: setspecific(key %d, %d) on worker %d; creates a child, continues on worker "
                       "%d: setspecific(key %d, %d); joins the child, resumes on worker %d: getspecific = %d (expected %d)"
                       % (it, key, v2 - 1, w1, w2, key, v2, w3, r1, v2))
    if msg is not None:
        msgs.setdefault(msg.split()[0], msg)
    return (" ;; ".join(msgs[k] for k in sorted(msgs)) if msgs else None), st


def run_lib(ctx, libexe, args, timeout=60):
    rc, out = vlib.sh([libexe] + [str(a) for a in args], timeout=timeout,
                      env=dict(os.environ, MYTH_NUM_WORKERS="4"))
    return rc, out


# ------------------------------------------------------------------------------------------------
# label translator: the POINT ids of the current source must be the model's labels
# ------------------------------------------------------------------------------------------------

def check_labels(ctx, lock=False):
    src = open(os.path.join(vlib.REPO, "src", "myth_tls_func.h"), errors="replace").read()
    ids = re.findall(r'MYTH_VERIF_POINT\(\s*"(key\.[^"]+)"', src)
    d = os.path.join(ctx.dir, "labels")
    os.makedirs(d, exist_ok=True)
    if lock:
        spin = open(os.path.join(vlib.REPO, "src", "myth_spinlock_func.h"), errors="replace").read()
        sids = re.findall(r'MYTH_VERIF_(?:POINT|SPIN)\(\s*"(spin\.[^"]+)"', spin)
        ids = ids + sorted(set(sids))
        v = ("From Coq Require Import List String ZArith.\nFrom MT Require Import Tls.TlsKeysModel Tls.TlsKeysLockModel.\n"
             "Import ListNotations.\nOpen Scope string_scope.\n"
             "Example labels_match : map llabel_of [LAHead 0%%Z; LANext 0%%Z 0%%Z; LAStore 0%%Z 0%%Z 0%%Z; LDCheck 0%%Z; "
             "LDHead 0%%Z 0%%Z; LDStore 0%%Z 0%%Z; LTry (Create 0%%Z); LUnlock 0%%Z; LWait (Create 0%%Z)] = [%s].\n"
             "Proof. reflexivity. Qed.\n" % "; ".join('"%s"' % i for i in ids))
    else:
        v = ("From Coq Require Import List String ZArith.\nFrom MT Require Import Tls.TlsKeysModel.\n"
             "Import ListNotations.\nOpen Scope string_scope.\n"
             "Example labels_match : map label_of [AHead 0%%Z; ANext 0%%Z 0%%Z; ACas 0%%Z 0%%Z 0%%Z; DCheck 0%%Z; "
             "DHead 0%%Z 0%%Z; DCas 0%%Z 0%%Z 0%%Z] = [%s].\nProof. reflexivity. Qed.\n" %
             "; ".join('"%s"' % i for i in ids))
    open(os.path.join(d, "Labels.v"), "w").write(v)
    rc, out = vlib.sh(["coqc", "-Q", vlib.COQ, "MT", "Labels.v"], cwd=d, timeout=300)
    return rc == 0, ids, out[-800:]


# ------------------------------------------------------------------------------------------------
# the check
# ------------------------------------------------------------------------------------------------

def corpus_cases():
    p = os.path.join(vlib.VERIF, "corpus", "C10", "cases.txt")
    if not os.path.exists(p):
        return []
    return [l.strip() for l in open(p) if l.strip() and not l.startswith("#")]


def probe(unit):
    """run the witnesses of the two findings on the code under test; returns
    (aba_present, stale_present, variant_line, aba_out, stale_out)"""
    impl, rc, raw = vlib.run_lines([unit], ["variant 0 0", ABA_CASE, STALE_CASE], timeout=120)
    impl += ["<no output>"] * (3 - len(impl))
    am, _, _ = oracle_conc(ABA_CASE, impl[1])
    sm, sflag = oracle_sys(STALE_CASE, impl[2])
    # the ABA finding = a key handed out twice / the live mark installed as list head on this very schedule;
    # any other failure of the witness schedule is an ordinary failing case (it is among the cases)
    aba = am is not None and ("handed out by a create" in am or "live mark installed" in am)
    return aba, (sm is not None and sflag), impl[0], impl[1], impl[2]


THEOREMS = {
    (False, "aba"): "C10_aba_refuted + C10_distinct_concurrent_partial (lock-free free list; guarded)",
    (True, "aba"): "C10_distinct_concurrent (free list under the spin lock; full strength)",
    (False, "stale"): "C10_stale_refuted + C10_fresh_key_null_partial (no generation tags; guarded)",
    (True, "stale"): "C10_fresh_key_null (generation tags; full strength)"}


def run(ctx):
    broken, log = ctx.prove("Properties_C10.v", "Properties_C10")
    gen, lock = source_variant()
    VARIANT["gen"], VARIANT["lock"] = gen, lock
    unit, libexe, drv = build(ctx, gen=gen, lock=lock)
    listed = {f["id"] for f in vlib.known_findings("C10")}
    # test hook for the mutation experiments: behave as if these ids had been removed from known_findings.json
    listed -= set(x for x in os.environ.get("C10_TEST_UNLISTED", "").split(",") if x)
    aba_present, stale_present, vline, aba_out, stale_out = probe(unit)
    q = not ctx.thorough
    cases = ["variant %d %d" % (int(gen), int(lock)), "consts", "widths"] + corpus_cases()
    n_long0 = len(cases)
    cases += gen_long(ctx)
    n_long = len(cases) - n_long0
    cases += gen_tree(ctx, 300 if q else 4000, gen)
    cases += gen_keys(ctx, 150 if q else 2500)
    cases += gen_sys(ctx, 200 if q else 3000)
    cases += gen_conc(ctx, 400 if q else 6000)
    impl, rc1, raw1 = vlib.run_lines([unit], cases, timeout=240 if q else 900)
    model, rc2, raw2 = vlib.run_lines([drv], cases, timeout=900)
    diffs = vlib.diff_lines(cases, impl, model)
    # width obligation from the current tree: both generation fields 4 bytes (the model's GEN_MOD = 2^32)
    wi = cases.index("widths")
    width_msg, widths = None, None
    try:
        widths = tuple(int(x) for x in impl[wi].split()[1:3])
        if gen and (widths[0] != widths[1] or widths[0] < 4):
            width_msg = ("the generation fields are %d bytes in the key table and %d bytes in the tree slot; the model's "
                         "assumption `fewer than 2^32 - 1 operations` (C10_fresh_key_null, GEN_MOD = 2^32) needs both to "
                         "be (at least) 4-byte counters of the same width" % widths)
    except (IndexError, ValueError):
        width_msg = "the harness did not report the widths of the generation fields: " + (impl[wi] if wi < len(impl) else "")
    diffs = [d for d in diffs if d[1] != "widths"]

    kinds, failing, known_stale, known_aba, repaired = {}, [], [], [], []
    windows = 0
    cstats = {"cas_fail": 0, "entries": 0, "corrupt": 0, "spin_wait": 0, "preempted_in_lock": 0}
    for i, c in enumerate(cases):
        k = c.split()[0]
        kinds[k] = kinds.get(k, 0) + 1
        if i >= len(impl) or (i == len(impl) - 1 and rc1 != 0 and len(impl) < len(cases)):
            failing.append((c, (impl[i] if i < len(impl) else "")[-300:],
                            "the implementation did not get past this case: harness exit code %d (crash, deadlock or "
                            "timeout) after %d of %d cases" % (rc1, min(i, len(impl)), len(cases))))
            break
        out = impl[i]
        if k in ("consts", "variant", "widths"):
            continue
        msg, flag = oracle_unit(c, out)
        if k == "conc":
            _, _, st_ = oracle_conc(c, out)
            for kk in cstats:
                cstats[kk] += st_.get(kk, 0)
            windows += 1 if flag else 0
        if msg:
            # a failure is attributed to a finding only if the finding's own witness fails on this code
            # (probe) and the failure has the finding's pattern; otherwise it is a violation
            if k == "sys" and flag and stale_present:
                known_stale.append((c, out, msg))
            elif k == "conc" and flag and aba_present:
                known_aba.append((c, out, msg))
            else:
                failing.append((c, out, msg))
        elif i < len(model) and model[i] != out:
            # the implementation satisfies the property where the model exhibits a known defect?
            mm, mflag = oracle_unit(c, model[i])
            if mm and mflag:
                repaired.append(c)
    diffs = [d for d in diffs if d[1] not in repaired]
    stale_i = cases.index(STALE_CASE)
    aba_i = cases.index(ABA_CASE)

    # whole library
    lib_fail, lib_stats, lib_runs = [], [], 0
    rc, out = run_lib(ctx, libexe, ["stale"])
    m = re.search(r"stale create=(-?\d+) k=(-?\d+) before=(\d+) delete=(-?\d+) create2=(-?\d+) k2=(-?\d+) got=(\d+)", out)
    stale_lib = None
    if not m or "done" not in out.split("\n"):
        lib_fail.append(("stale", out[-300:], "create/set/delete/create/get through the public API did not complete (exit code %d): %s" % (rc, out[-150:].strip())))
    else:
        c1, k1, before, d1, c2, k2, got = map(int, m.groups())
        if c1 != 0 or c2 != 0 or not (0 <= k1 < NK) or not (0 <= k2 < NK):
            lib_fail.append(("stale", out[-300:], "myth_key_create on an almost empty key table returned %d / %d (keys %d, %d)" % (c1, c2, k1, k2)))
        elif before != 777:
            lib_fail.append(("stale", out[-300:], "getspecific right after setspecific(k, 777) returned %d" % before))
        elif d1 != 0:
            lib_fail.append(("stale", out[-300:], "myth_key_delete of a live key returned %d" % d1))
        else:
            stale_lib = (k1 == k2 and got == 777)
            if got != 0 and not (stale_lib and stale_present):
                lib_fail.append(("stale", out[-300:], "getspecific under a freshly created key returned %d (public API: "
                                 "create, setspecific 777, delete, create, getspecific)" % got))
        g = re.search(r"guarded k3=(-?\d+) delete=0 k4=(-?\d+) got=(\d+)", out)
        if not g or int(g.group(3)) != 0:
            lib_fail.append(("stale", out[-300:], "a key deleted after its value was reset to NULL reads non-NULL after re-creation"))
        o = re.search(r"other k4=(-?\d+) other_read=999 main_read=(\d+)", out)
        o2 = re.search(r"other_recreate k5=(-?\d+) main_read=(\d+)", out)
        if not o or int(o.group(2)) != 0 or not o2 or int(o2.group(2)) != 0:
            lib_fail.append(("stale", out[-300:], "a value stored by another thread is visible to the main thread"))
    rc, out = run_lib(ctx, libexe, ["full"])
    mf = oracle_lib_full(out)
    if mf:
        lib_fail.append(("full", out[-300:], mf))
    nruns = 5 if q else 30
    for i in range(nruns):
        W = ctx.rng.choice([1, 2, 3, 4, 8])
        T = ctx.rng.choice([2, 4, 8, 16, 32])
        K0 = ctx.rng.choice([0, 1, 5, 40, 300])
        CA = ctx.rng.choice([0, 1, 3, 10, 30])
        if K0 == 0 and CA == 0:
            K0 = 3
        if i == 0:
            W, T, K0, CA = 4, 16, 600, 30          # 600 + 16*30 > 1024: creation runs dry under concurrency
        R = ctx.rng.choice([50, 200, 600]) if q else ctx.rng.choice([200, 1000, 3000])
        seed = ctx.rng.next() % 1000000007
        args = ["run", W, T, K0, CA, R, seed]
        rc, out = run_lib(ctx, libexe, args)
        lib_runs += 1
        ml, st = oracle_lib_run(out)
        st["args"] = " ".join(map(str, args))
        lib_stats.append(st)
        if ml:
            lib_fail.append((" ".join(map(str, args)), out[-300:], ml))
        elif i == 0:
            res = []
            for l in out.split("\n"):
                w = l.split()
                if w and w[0] == "A0":
                    res += w[1:]
                elif w and w[0] == "A":
                    res += w[2:]
            nok = sum(1 for x in res if x != "-1")
            if nok != min(NK, len(res)):
                lib_fail.append((" ".join(map(str, args)), out[-200:],
                                 "with %d creation requests %d succeeded (expected exactly %d)" % (len(res), nok, min(NK, len(res)))))

    # concurrent create / delete / set / get, free running on 2-8 workers of the real runtime
    mixed_stats = []
    for W, T in ((2, 8), (4, 16), (8, 32), (3, 12)) if q else [(W, T) for W in (2, 3, 4, 6, 8) for T in (2 * W, 4 * W, 8 * W)]:
        args = ["mixed", W, T, 20000 if q else 60000, ctx.rng.next() % 1000000007]
        rc, out = run_lib(ctx, libexe, args)
        lib_runs += 1
        mm, st = oracle_lib_mixed(rc, out)
        st["args"] = " ".join(map(str, args)); mixed_stats.append(st)
        if mm:
            # not deterministic: how often does the same configuration and seed fail again?
            again = 0
            for _ in range(5):
                rc2, out2 = run_lib(ctx, libexe, args)
                again += 1 if oracle_lib_mixed(rc2, out2)[0] else 0
            lib_fail.append((" ".join(map(str, args)), out[-600:], mm + " [free-running schedule; the same configuration and "
                             "seed failed again in %d of 5 repetitions]" % again))
            break

    # reads by threads that never stored (recycled descriptors), delete + re-create on another worker,
    # store / migrate / store / migrate back / read - through the library's exported functions
    memo_stats = []
    for W in (1, 2, 3, 4):
        args = ["memo", W, 12 if q else 60, ctx.rng.next() % 1000000007]
        rc, out = run_lib(ctx, libexe, args)
        lib_runs += 1
        mm, st = oracle_lib_memo(out)
        st["args"] = " ".join(map(str, args)); memo_stats.append(st)
        if mm:
            lib_fail.append((" ".join(map(str, args)), out[-600:], mm))

    # thorough tier: the same library families under ASan + UBSan (no read outside the key table / a leaf / the pool)
    san_runs, san_reports = 0, 0
    if ctx.thorough:
        san_exe = build_san(ctx)
        sargs = [["stale"], ["full"], ["memo", 2, 20, 5], ["memo", 4, 20, 6], ["mixed", 2, 8, 20000, 7], ["mixed", 4, 16, 20000, 8],
                 ["mixed", 8, 32, 10000, 9]] + [["run", W, T, K0, CA, 300, 11 + W] for W, T, K0, CA in
                                                ((1, 4, 3, 0), (2, 8, 300, 3), (4, 16, 600, 30), (8, 32, 5, 3))]
        for a in sargs:
            rc_s, out_s = vlib.sh([san_exe] + [str(x) for x in a], timeout=300, env=dict(os.environ, **SAN_ENV))
            san_runs += 1
            sm = san_report(rc_s, out_s)
            if sm:
                san_reports += 1
                lib_fail.append((" ".join(map(str, a)), out_s[-1500:], "sanitizer report (library + harness built with %s): %s"
                                 % (" ".join(SAN_FLAGS[:2]), sm)))
    ctx.cov["sanitizer"] = ({"build": "library sources + harness/c10_tls_lib.c with " + " ".join(SAN_FLAGS) +
                             " (gcc; full ASan works with the library's context switches, leak detection off)",
                             "library_processes_run": san_runs, "reports": san_reports} if ctx.thorough else "thorough tier only")

    labels_ok, ids, lablog = check_labels(ctx, lock)

    # ---- evidence ----
    outs = {}
    for l in impl:
        kk = l.split()[0] if l.split() else "<empty>"
        outs[kk] = outs.get(kk, 0) + 1
    ctx.cov["variant"] = {
        "source_has_generation_tags": gen, "source_locks_the_key_free_list": lock, "harness_echo": vline,
        "witness_C10-key-freelist-aba": "fails (finding present)" if aba_present else "does not fail",
        "witness_C10-stale-after-recreate": "fails (finding present)" if stale_present else "does not fail",
        "theorems_that_describe_this_code": [THEOREMS[(lock, "aba")], THEOREMS[(gen, "stale")]],
        "oracle_strength": {"distinct keys under every controlled schedule": "guarded (ABA window attributed to the listed finding)"
                            if aba_present else "full",
                            "fresh key reads NULL in every history": "guarded (stale pattern attributed to the listed finding)"
                            if stale_present else "full"}}
    ctx.cov["correspondence"] = {
        "cases": len(cases), "disagreements": len(diffs), "input_distribution": kinds,
        "impl_result_distribution": outs, "oracle_failures": len(failing) + len(lib_fail),
        "impl_exit": rc1, "model_exit": rc2,
        "tree": {"single_key_cases": NK, "all_keys_case": 1, "keys_covered": NK},
        "concurrent_allocator": {"what_the_lock_step_exercises": (
                                     "locked free list: the controller parks a thread at any of the six key.* points INSIDE the "
                                     "locked region (or at spin.unlock) and runs the other threads against it: their trylock fails "
                                     "(spin.wait), nobody else touches the list, and after the release the next thread sees a "
                                     "consistent list; every schedule entry is compared with Tls/TlsKeysLockModel.v" if lock else
                                     "lock-free CAS loops: the controller preempts between head read, next read and CAS; failed CAS "
                                     "retries and the ABA window are reached; compared with Tls/TlsKeysModel.v"),
                                 "schedule_entries": cstats["entries"], "failed_cas_retries": cstats["cas_fail"],
                                 "failed_trylocks_spin_wait": cstats["spin_wait"],
                                 "of_which_with_a_thread_parked_inside_the_locked_region": cstats["preempted_in_lock"],
                                 "cases_entering_aba_window": windows, "cases_with_duplicate_or_corrupt_head": len(known_aba)},
        "stale_pattern_cases": len(known_stale),
        "long_histories": {"cases": n_long, "cycles_per_case": LONG_N, "generation_field_bytes": widths},
        "library_runs": lib_runs + 2, "library_stats": lib_stats[:8], "library_memo_runs": memo_stats,
        "library_mixed_runs": mixed_stats,
        "point_ids_in_source": ids, "labels_match_model": labels_ok}
    ctx.cov["evaluations"] = len(cases) + lib_runs + 2
    ctx.cov["distinct_nontrivial"] = len(set(cases)) - 2
    for i in (2, len(cases) // 3, 2 * len(cases) // 3, len(cases) - 1, aba_i, stale_i):
        ctx.cov["samples"].append({"case": cases[i][:300], "impl": (impl[i] if i < len(impl) else "")[:300],
                                   "model": (model[i] if i < len(model) else "")[:300]})
    ctx.cov["trusted_base"] += [
        "extraction: ExtrOcamlBasic only; ocaml/driver_C10.ml, ocaml/zio.ml",
        "harness/c10_tls_unit.c (includes the library's own headers; harness-owned trees and allocator; "
        "real_malloc/real_free wrapped at link time; token-passing controller in g_myth_verif_cb for the lock-step runs)",
        "harness/c10_tls_lib.c (public API on the real runtime); Python oracles in tools/props/c10.py",
        "variant selection: tools/props/c10.py greps src/myth_tls_func.h (signature of myth_tls_tree_get, spin lock in "
        "key_allocator_alloc) to pick harness compile flags and model variant; the presence of each finding is decided "
        "by running its witness on the code, not by the grep",
        "translator: hook ids grepped from src/myth_tls_func.h (and src/myth_spinlock_func.h), compared with the model's "
        "labels by a generated Coq example",
        "modelled, not verified: malloc never fails and returns memory disjoint from the thread descriptor; sequentially "
        "consistent memory for the free-list head / the lock word; " +
        ("everything between the lock's CAS and its release is executed by the lock owner only (proved: C10_distinct_concurrent), "
         "the memory barriers of myth_spin_lock/unlock are what makes this true on real hardware"
         if lock else
         "the two stores after a successful CAS in key_alloc are one step with the CAS (no POINT between them)") +
        ("; the generation is an unsigned int: fewer than 2^32 - 1 operations (C10_fresh_key_null)" if gen else "")]

    # ---- verdicts ----
    if stale_present:
        if "C10-stale-after-recreate" in listed:
            ctx.known("stale value after key delete + re-create: getspecific under the re-created key returns the value stored "
                      "under the old incarnation (unit witness fails; %d generated histories show the pattern; public API: %s)" %
                      (len(known_stale), "reproduced" if stale_lib else "not reproduced"))
        else:
            ctx.violation("oracle", "a freshly created key does not read NULL: " + (oracle_sys(STALE_CASE, stale_out)[0] or ""),
                          {"case": STALE_CASE, "observed": stale_out, "expected": "last value 0 (a thread that never stored under "
                           "this key reads NULL)", "level": "unit", "finding": "C10-stale-after-recreate (not listed in known_findings.json)",
                           "histories_with_the_pattern": len(known_stale)}, found=True)
    else:
        ctx.notes.append("witness of C10-stale-after-recreate does not fail on this tree: full-strength oracle (a fresh key reads "
                         "NULL in every generated history) and theorem C10_fresh_key_null")
    if aba_present:
        if "C10-key-freelist-aba" in listed:
            ctx.known("key free-list ABA: a create preempted between key.alloc.readnext and key.alloc.cas lets the same key be "
                      "handed out twice / installs the live mark as list head (3-thread witness fails under the controller; "
                      "%d generated schedules entered the window and broke distinctness)" % len(known_aba))
        else:
            ctx.violation("oracle", "keys handed out are not pairwise distinct: " + (oracle_conc(ABA_CASE, aba_out)[0] or ""),
                          {"case": ABA_CASE, "observed": aba_out, "expected": "every create returns a key nobody holds",
                           "level": "unit (lock step under the hook controller)",
                           "finding": "C10-key-freelist-aba (not listed in known_findings.json)",
                           "schedules_with_the_pattern": len(known_aba)}, found=True)
    else:
        ctx.notes.append("witness of C10-key-freelist-aba does not fail on this tree: full-strength oracle (distinct live keys under "
                         "every controlled schedule) and theorem " + ("C10_distinct_concurrent" if lock else
                         "C10_distinct_concurrent_partial (the source does not take a lock: the model is still the lock-free one)"))
    if repaired:
        ctx.notes.append("%d case(s) where the model shows a finding and the implementation does not: the source variant was "
                         "not recognised (model describes the unrepaired code)" % len(repaired))

    if failing:
        c, o, msg = failing[0]
        ctx.violation("oracle", msg, {"case": c, "observed": o[:2000], "expected": "property C10 (see oracle_%s)" % c.split()[0],
                                      "level": "unit", "all_failing": [(x[0][:300], x[2]) for x in failing[:20]]}, found=True)
    if lib_fail:
        a, o, msg = lib_fail[0]
        ctx.violation("oracle", msg, {"lib_args": a, "observed": o, "expected": "property C10 through the public API",
                                      "level": "library", "all_failing": [(x[0], x[2]) for x in lib_fail[:20]]}, found=True)
    if diffs and not failing and not lib_fail:
        i, c, a, b = diffs[0]
        ctx.violation("correspondence", "model and implementation disagree on %d case(s); first: %s" % (len(diffs), c[:200]),
                      {"theorem_or_correspondence": "correspondence Tls/Tls{Tree,Keys,KeysLock,Sys}Model.v <-> src/myth_tls_func.h",
                       "case": c, "observed": a[:2000], "expected": b[:2000],
                       "all": [(x[1][:200], x[2][:200], x[3][:200]) for x in diffs[:20]]}, found=False)
    if width_msg and not failing and not lib_fail:
        ctx.violation("assumption", width_msg, {"theorem_or_correspondence": "assumption of C10_fresh_key_null / "
                      "C10_cycles_closed_form: 32-bit generation counter (Tls/TlsKeysModel.v GEN_MOD)",
                      "observed": "sizeof(gen) = %s" % (widths,), "expected": "(4, 4)"}, found=False)
    if not labels_ok:
        ctx.violation("generated-data", "the MYTH_VERIF hook ids of the source (%s) are not the model's step labels" % ids,
                      {"theorem_or_correspondence": "labels_match (generated)", "log": lablog}, found=False)
    if broken:
        ctx.violation("proof", "theorem(s) no longer check: " + ", ".join(broken),
                      {"theorem_or_correspondence": ", ".join(broken), "log": getattr(ctx, "proof_log", log[-3000:])}, found=False)
    assume = ["a tree is accessed only by its owning thread (it is a field of the thread descriptor)"]
    if lock:
        assume.append("C10_distinct_concurrent: no usage contract; sequentially consistent lock word")
    else:
        assume += ["usage contract of the lock-free model: two threads are not inside key_delete of the same key at once",
                   "C10_distinct_concurrent_partial: schedules without a successful key.dealloc.cas of key k while a create "
                   "waits at key.alloc.cas with operand k"]
    if gen:
        assume.append("C10_fresh_key_null: fewer than 2^32 - 1 operations (32-bit generation counter)")
    else:
        assume.append("C10_fresh_key_null_partial: keys are deleted only when no thread holds a non-NULL value under them; "
                      "stores only under live keys")
    return ctx.finish(assumptions=assume)


def replay(ctx, path):
    body = json.load(open(path))
    gen, lock = source_variant()
    VARIANT["gen"], VARIANT["lock"] = gen, lock
    unit, libexe, drv = build(ctx, gen=gen, lock=lock)
    v = "variant %d %d" % (int(gen), int(lock))
    if "case" in body:
        c = body["case"]
        impl, _, _ = vlib.run_lines([unit], [v, c])
        model, _, _ = vlib.run_lines([drv], [v, c])
        print("variant:", impl[0] if impl else None, "(generation tags, locked free list)")
        print("case:  ", c[:2000])
        print("impl:  ", (impl[1] if len(impl) > 1 else None))
        print("model: ", (model[1] if len(model) > 1 else None))
        print("oracle:", oracle_unit(c, impl[1] if len(impl) > 1 else "<no output>")[0] if c.split()[0] not in ("consts", "variant") else None)
    elif "lib_args" in body:
        rc, out = run_lib(ctx, libexe, body["lib_args"].split())
        print("library run:", body["lib_args"])
        print(out[-3000:])
        a = body["lib_args"].split()[0]
        print("oracle:", oracle_lib_run(out)[0] if a == "run" else (oracle_lib_full(out) if a == "full" else
              (oracle_lib_memo(out)[0] if a == "memo" else (oracle_lib_mixed(rc, out)[0] if a == "mixed" else "see output"))))
    else:
        print(json.dumps(body, indent=1)[:3000])
    return 0
