"""Shared by the checks whose model is coq/Sync/SyncModel.v (C04 mutex, C05 condition variables,
C09 full/empty lock): run generated programs on the real library under the schedule controller,
replay every trace through the extracted model (per object group), return everything the
property-specific oracle needs."""
import os
import vlib, trace

SYNC_VFILES = ["Sync/SyncModel.v"]


def build(ctx):
    exe = trace.build_interp()
    drv = vlib.build_driver("Sync", "Extract_Sync.v", "driver_Sync.ml", SYNC_VFILES)
    return exe, drv


def run_cases(ctx, exe, drv, cases, timeout=60):
    """cases: list of case texts.  Returns a list of dicts:
       {case, rc, verdict, events, groups, model: ['ok N' | 'FAIL k reason'], fail_context: [...]}"""
    out = []
    wd = os.path.join(ctx.dir, "runs")
    for i, c in enumerate(cases):
        r = trace.run_case(exe, c, wd, "c%04d" % i, timeout=timeout)
        groups, nt = trace.sync_groups(c)
        blocks = [trace.sync_block(g, nt, r["events"]) for g in groups]
        res = trace.validate_blocks(drv, blocks) if blocks else []
        fc = []
        for b, x in zip(blocks, res):
            if x.startswith("FAIL"):
                k = int(x.split()[1])
                fc.append({"verdict": x, "model_input_tail": b[0][max(0, k - 10):k + 1],
                           "trace_line": b[1][k].raw if k < len(b[1]) and b[1][k] is not None else None})
        out.append({"case": c, "rc": r["rc"], "verdict": r["verdict"], "events": r["events"], "groups": groups,
                    "model": res, "fail_context": fc, "stderr": r["out"][-500:], "trace_path": r["trace_path"]})
    return out


def point_histogram(results):
    h = {}
    for r in results:
        for e in r["events"]:
            if e.kind == "P":
                h[e.words[0]] = h.get(e.words[0], 0) + 1
    return h
