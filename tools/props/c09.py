"""C09 - full/empty lock: status hand-off between producers and consumers (DESIGN.md section 4, C09).

Proof side: coq/Sync/SyncModel.v (shared model), coq/Sync/FelockBase.v (the felock system, step relation),
FelockOwn.v / FelockInv.v (inductive invariants), FelockProofs.v (wait_and_lock / mark_and_signal),
FelockExchange.v (programs, ghost relation, token invariant = no lost wake-up), FelockMailbox.v (exchange
invariant), coq/Properties_C09.v.
Tie: mailbox programs - P producers x C consumers over ONE felock and a one-slot mailbox, mixed with
threads that only lock / unlock the felock - run on the real library under the schedule controller
(harness/lib_interp.c); every trace is
 (1) replayed through the extracted model (tools/props/sync_common.py: labels, CAS operands, status word,
     mutex word and the three sleep queues before every step), and
 (2) judged by an independent oracle of the property itself (analyse() below): verdict, status and occupancy
     witness at every wait_and_lock / lock return, every item consumed exactly once and only after it was
     produced, final counters, what mark_and_signal does to the queue of the status it publishes."""
import os, re, json, shutil
import vlib, trace
from props import sync_common

FE = "f0"
# POINT ids of the felock routines (and of the mutex / cond routines underneath); "@cb" = seen in callback
# context (the release inside wait_and_lock's cond_wait), "@cond" / "@mutex" = which queue the blocking
# thread enqueued on
POINTS = ["fe.status.read", "fe.status.write", "mutex.lock.read", "mutex.lock.cas1", "mutex.lock.cas2",
          "blockq.enq@cond", "blockq.enq@mutex", "mutex.unlock.read", "mutex.unlock.cas1", "mutex.unlock.cas2",
          "wake1.deq", "mutex.clearbit", "wake1.push", "wakeany.deq@empty", "wakeany.deq@nonempty", "wakeany.push",
          "mutex.unlock.read@cb", "mutex.clearbit@cb|mutex.unlock.cas1@cb"]
SITUATIONS = ["waiter_first", "rewait", "two_callbacks_in_flight", "woken_before_release_done", "plain_lock_blocked",
              "remark_same_status_wakes", "wrong_kind_waiters_both_asleep", "status_read_under_lock", "mixed_thread",
              "reinit_after_full", "reinit_with_attr", "reinit_without_attr", "incarnations"]


# --------------------------------------------------------------------------------------------------
# generators (everything from ctx.rng)
# --------------------------------------------------------------------------------------------------

def split(n, k):
    base, rem = divmod(n, k)
    return [base + (1 if i < rem else 0) for i in range(k)]


def _plain(rng):
    """a plain lock / unlock section of the felock that looks at the status under the lock"""
    return ["felock %s" % FE] + (["festatus %s" % FE] if rng.chance(2, 3) else []) + ["feunlock %s" % FE]


def gen_case(rng, P=None, C=None, k=None, lockers=None, workers=None, pswitch=None, consumers_first=None, mix=None):
    """mix: producers / consumers also run plain lock..unlock sections between their blocks (one thread mixes
    myth_felock_lock/unlock with wait_and_lock/mark_and_signal - every wait_and_lock is still closed by a
    mark_and_signal and every lock by an unlock) and everybody calls myth_felock_status under the lock"""
    mix = rng.chance(1, 2) if mix is None else mix
    P = P or rng.rng(1, 3)
    C = C or rng.rng(1, 3)
    k = k or rng.rng(1, 3)
    total = max(P, C) * k
    pq, cq = split(total, P), split(total, C)
    lockers = rng.rng(0, 2) if lockers is None else lockers
    workers = workers or rng.rng(1, 4)
    pswitch = pswitch or rng.choice([20, 35, 60, 85])
    seed = rng.rng(1, 1 << 30)
    threads, roles, items = {}, {}, []
    tag = 1
    for i, q in enumerate(pq):
        ops = []
        for j in range(q):
            v = 100 * (i + 1) + j
            items.append(v)
            if mix and rng.chance(1, 2):
                ops += _plain(rng)
            ops += ["fewl %s 0" % FE] + (["festatus %s" % FE] if mix and rng.chance(1, 2) else []) + \
                   ["set slot %d" % v, "add produced 1", "fems %s 1" % FE]
            if rng.chance(1, 5):
                ops.append("yield")
        threads[tag], roles[tag] = ops, "producer"
        tag += 1
    for q in cq:
        ops = []
        for j in range(q):
            ops += ["fewl %s 1" % FE, "get slot", "set slot -1", "add consumed 1"] + \
                   (["festatus %s" % FE] if mix and rng.chance(1, 2) else []) + ["fems %s 0" % FE]
            if mix and rng.chance(1, 2):
                ops += _plain(rng)
            if rng.chance(1, 5):
                ops.append("yield")
        threads[tag], roles[tag] = ops, "consumer"
        tag += 1
    for _ in range(lockers):
        ops = []
        for j in range(rng.rng(1, 3)):
            ops += _plain(rng) if mix else ["felock %s" % FE, "feunlock %s" % FE]
            if rng.chance(1, 3):
                ops.append("yield")
        threads[tag], roles[tag] = ops, "locker"
        tag += 1
    tags = sorted(threads)
    order = list(tags)
    rng.shuffle(order)
    if consumers_first is None:
        consumers_first = rng.chance(1, 3)
    if consumers_first:   # consumers are created (and, child first, started) before any producer: the cond-wait path
        order = [t for t in order if roles[t] == "consumer"] + [t for t in order if roles[t] != "consumer"]
    threads = dict(threads)
    threads[0] = ["create %d" % t for t in order] + ["join %d" % t for t in tags] + \
                 ["get produced", "get consumed", "get slot"]
    objs = ["%s felock" % FE, "slot var -1", "produced var 0", "consumed var 0"]
    text = trace.case_text(workers, seed, objs, threads, pswitch=pswitch)
    return {"text": text, "P": P, "C": C, "items": sorted(items), "total": total, "lockers": lockers,
            "workers": workers, "pswitch": pswitch, "roles": {str(t): r for t, r in roles.items()},
            "consumers_first": bool(consumers_first), "mix": bool(mix)}


def gen_hold(rng):
    """targeted preemption (lib_interp `hold <point> <moves> <percent>`): a participant arriving at wake1.push is
    parked until many real moves of the others have happened.  Inside a felock the only window in which a waiter
    can be signalled while its cond-wait callback is still running is the tail of that callback's unlock AFTER
    the lock bit was cleared (the signaller must hold the lock), i.e. between mutex.clearbit and wake1.push of the
    callback - reached when somebody sleeps on the mutex at that moment (plain lockers).  Holding the callback
    there lets a producer acquire, mark and push the waiter (woken_before_release_done), and the waiter run, find
    the lock taken and block again: a second callback of the same thread while the first is still in flight."""
    c = gen_case(rng, P=rng.rng(1, 2), C=rng.rng(2, 3), k=2, lockers=2, workers=rng.rng(2, 4),
                 pswitch=rng.choice([35, 60]), consumers_first=True)
    c["text"] += "hold wake1.push %d 100\n" % rng.choice([80, 120, 200])
    c["family"] = "hold"
    return c


def gen_lifecycle(rng, incs=None, workers=None, pswitch=None):
    """object lifecycle: ONE felock object lives through 2-3 incarnations: myth_felock_init (attr == NULL or an
    initialised myth_felockattr_t) - a mailbox program that ends with status 0 (as many takes as puts) or status 1
    (one more put: the last item stays in the slot) - all participants joined - myth_felock_destroy -
    myth_felock_init again on the same memory - the next mailbox program, consumers created first.  A freshly
    initialised felock has status 0 whatever the object held before (the model's init_state): every incarnation
    is replayed through the model from init_state."""
    incs = incs or rng.rng(2, 3)
    workers = workers or rng.rng(1, 4)
    pswitch = pswitch or rng.choice([20, 35, 60, 85])
    seed = rng.rng(1, 1 << 30)
    threads, roles, incarnations = {}, {}, []
    main = []
    tag = 1
    first_attr = rng.chance(1, 2)
    if first_attr:      # the interpreter initialises its objects with attr == NULL: start over with an attribute object
        main += ["fedestroy %s" % FE, "feinit %s attr" % FE]
    tot_p = tot_c = 0
    for n in range(incs):
        P, C, k = rng.rng(1, 2), rng.rng(1, 2), rng.rng(1, 2)
        takes = max(P, C) * k
        full = rng.chance(1, 2) if n < incs - 1 else rng.chance(1, 3)
        puts = takes + (1 if full else 0)
        items, mine = [], []
        for i, q in enumerate(split(puts, P)):
            ops = []
            for j in range(q):
                v = 1000 * (n + 1) + 100 * (i + 1) + j
                items.append(v)
                ops += ["fewl %s 0" % FE, "set slot %d" % v, "add produced 1", "fems %s 1" % FE]
            threads[tag], roles[tag] = ops, "producer"
            mine.append(tag); tag += 1
        for q in split(takes, C):
            ops = []
            for j in range(q):
                ops += ["fewl %s 1" % FE, "get slot", "set slot -1", "add consumed 1", "fems %s 0" % FE]
            threads[tag], roles[tag] = ops, "consumer"
            mine.append(tag); tag += 1
        order = list(mine)
        rng.shuffle(order)
        if n > 0 or rng.chance(1, 2):     # consumers first: they must WAIT on a fresh (empty) felock
            order = [t for t in order if roles[t] == "consumer"] + [t for t in order if roles[t] != "consumer"]
        main += ["create %d" % t for t in order] + ["join %d" % t for t in mine]
        if full:
            main += ["set slot -1"]       # the leftover item is taken out by hand; the status word stays 1
        attr = rng.chance(1, 2)
        incarnations.append({"items": sorted(items), "ends_full": bool(full), "attr": bool(first_attr if n == 0 else prev_attr)})
        if n < incs - 1:
            main += ["fedestroy %s" % FE, "feinit %s%s" % (FE, " attr" if attr else "")]
        prev_attr = attr
        tot_p += puts
        tot_c += takes
    threads[0] = main + ["get produced", "get consumed", "get slot"]
    objs = ["%s felock" % FE, "slot var -1", "produced var 0", "consumed var 0"]
    text = trace.case_text(workers, seed, objs, threads, pswitch=pswitch)
    return {"text": text, "family": "lifecycle", "P": 0, "C": 0, "items": [], "total": tot_p, "lockers": 0,
            "workers": workers, "pswitch": pswitch, "roles": {str(t): r for t, r in roles.items()},
            "consumers_first": True, "incarnations": incarnations,
            "expect": {"produced": tot_p, "consumed": tot_c, "slot": -1}}


def gen_baton(rng, k=None, workers=None, pswitch=None, status=None):
    """baton passing (inside the class 'every wait_and_lock is closed by a mark_and_signal', outside the mailbox
    class): k peekers wait for the same status t and each RE-MARKS t, so every mark after the first one leaves
    the status unchanged and must still wake the next waiter.
      t = 1: a starter publishes an item (fewl 0; set slot v; fems 1), peekers do fewl 1; get slot; add seen 1; fems 1
      t = 0: a holder flips the status to 1 and, later, back to 0 (fewl 0; fems 1; yield*; fewl 1; fems 0),
             peekers do fewl 0; add seen 1; fems 0 (those that arrive while the status is 1 queue up on cond[0])"""
    k = k or rng.rng(2, 4)
    workers = workers or rng.rng(1, 4)
    pswitch = pswitch or rng.choice([20, 35, 60, 85])
    status = rng.below(2) if status is None else status
    seed = rng.rng(1, 1 << 30)
    threads, roles = {}, {}
    v = 100 + rng.rng(1, 50)
    if status == 1:
        threads[1] = ["yield"] * rng.rng(0, 2) + ["fewl %s 0" % FE, "set slot %d" % v, "add produced 1", "fems %s 1" % FE]
        roles[1] = "producer"
        for t in range(2, k + 2):
            threads[t], roles[t] = ["fewl %s 1" % FE, "get slot", "add seen 1", "fems %s 1" % FE], "peeker"
        expect = {"produced": 1, "seen": k, "slot": v}
        items = [v]
    else:
        threads[1] = ["fewl %s 0" % FE, "fems %s 1" % FE] + ["yield"] * rng.rng(1, 3) + ["fewl %s 1" % FE, "fems %s 0" % FE]
        roles[1] = "holder"
        for t in range(2, k + 2):
            threads[t], roles[t] = ["fewl %s 0" % FE, "add seen 1", "fems %s 0" % FE], "peeker"
        expect = {"seen": k, "slot": -1}
        items = []
    tags = sorted(threads)
    order = list(tags)
    rng.shuffle(order)
    if rng.chance(2, 3):      # peekers first: they are asleep together when the status arrives
        order = [t for t in order if roles[t] == "peeker"] + [t for t in order if roles[t] != "peeker"]
        if status == 0:       # ... but the holder must flip the status before they look
            order = [1] + [t for t in order if t != 1]
    threads = dict(threads)
    threads[0] = ["create %d" % t for t in order] + ["join %d" % t for t in tags] + ["get %s" % x for x in sorted(expect)]
    objs = ["%s felock" % FE, "slot var -1", "produced var 0", "consumed var 0", "seen var 0"]
    text = trace.case_text(workers, seed, objs, threads, pswitch=pswitch)
    return {"text": text, "family": "baton", "P": 1, "C": k, "items": items, "total": len(items), "lockers": 0,
            "workers": workers, "pswitch": pswitch, "roles": {str(t): r for t, r in roles.items()},
            "consumers_first": False, "expect": expect}


# --------------------------------------------------------------------------------------------------
# independent oracle of the property on one trace (no model involved)
# --------------------------------------------------------------------------------------------------

_KV = re.compile(r"(\w+)=(-?\d+)")
_QS = re.compile(r"(\w*q)=\[([^\]]*)\]")


def _snap(e):
    d = {k: int(v) for k, v in _KV.findall(e.snap or "")}
    for name, body in _QS.findall(e.snap or ""):
        d[name] = [int(x[1:]) for x in body.split(",") if x and x[0] == "t" and x[1:].isdigit()]
    return d


def _tag(v):
    return int(v[1:]) if v and v[0] == "t" and v[1:].isdigit() else None


def analyse(case, r):
    """one pass over the trace: returns (message or None, statistics)"""
    st = {k: 0 for k in POINTS + SITUATIONS}
    st["fewl_returns"] = 0
    st["fems_calls"] = 0
    if r["verdict"] is None or r["rc"] != 0 or not r["verdict"].startswith("DONE"):
        v = r["verdict"] or "no verdict"
        what = "a participant sleeps forever (lost wake-up or lock never released): " if v.startswith("DEADLOCK") else ""
        return ("%srun did not complete (%s, rc=%s) %s" % (what, v[:160], r["rc"], (r.get("stderr") or "")[-160:].strip()), st)
    calls = {}            # thread -> open call dict(op, ev=[main-context POINT events], waits)
    last_main = {}        # thread -> id of its last main-context POINT
    open_cb = {}          # thread -> callbacks in flight
    releasing = {}        # thread -> number of its cond-wait callbacks that have not cleared the bit yet
    cb_kind = {}          # worker -> 'cond' | 'mutex' for the callback running there
    holder = None         # dict(thread, status (None for a plain lock), written): from the return of wait_and_lock / lock
                          # to the holder's own bit-clearing step
    produced, consumed = [], []
    slot_full = None
    gets = {}
    roles = case.get("roles", {})
    both_seen = False
    cur_status = 0        # the status word as the POINT snapshots and the status writes show it
    incs = case.get("incarnations") or [{"items": case["items"], "ends_full": False}]
    inc = [0]

    def close_incarnation():
        """postcondition of the mailbox program of the current incarnation"""
        want = incs[inc[0]] if inc[0] < len(incs) else {"items": [], "ends_full": False}
        if sorted(produced) != sorted(want["items"]):
            return "incarnation %d: produced items %s differ from the program's %s" % (inc[0], sorted(produced), want["items"])
        if case.get("family", "mailbox") in ("mailbox", "lifecycle"):
            left = sorted(produced)
            for v in consumed:
                if v in left:
                    left.remove(v)
            if want["ends_full"]:
                if len(left) != 1 or cur_status != 1:
                    return "incarnation %d should end full: unconsumed items %s, status %d" % (inc[0], left, cur_status)
            elif left or len(consumed) != len(produced):
                return "incarnation %d: consumed multiset %s differs from produced %s" % (inc[0], sorted(consumed), sorted(produced))
        return None

    sections = {}         # thread -> kinds of sections it ran ('fe', 'plain')
    for idx, e in enumerate(r["events"]):
        T = e.actor
        if e.kind == "E" and e.words and e.words[0] == "cb.enter":
            open_cb[T] = open_cb.get(T, 0) + 1
            if open_cb[T] >= 2:
                st["two_callbacks_in_flight"] += 1
            cb_kind[e.w] = None
        elif e.kind == "E" and e.words and e.words[0] == "cb.leave":
            open_cb[T] = open_cb.get(T, 1) - 1
            if cb_kind.pop(e.w, None) == "cond":
                releasing[T] = releasing.get(T, 1) - 1
        elif e.kind == "C":
            calls[T] = {"op": e.words, "ev": [], "waits": 0}
            op = e.words
            if op[0] == "fedestroy" and op[1] == FE:
                if holder is not None:
                    return ("t%d destroys the felock while t%d holds it (harness error)" % (T, holder["thread"]), st)
                if r["events"][:idx] and any(x.kind == "C" and x.words[0] in ("fewl", "felock") for x in r["events"][:idx]):
                    msg = close_incarnation()      # (not for the initial destroy / init-with-attr of an unused object)
                    if msg:
                        return (msg, st)
                    if cur_status == 1:
                        st["reinit_after_full"] += 1
                    inc[0] += 1
                    del produced[:], consumed[:]
                    slot_full = None
            if op[0] == "fems" and op[1] == FE:
                st["fems_calls"] += 1
            if op[0] in ("fems", "feunlock") and op[1] == FE and (holder is None or holder["thread"] != T):
                return ("t%d calls %s but the lock is held by %s" % (T, op[0], "t%d" % holder["thread"] if holder else "nobody"), st)
            if op[0] == "set" and op[1] == "slot" and int(op[2]) >= 0:
                # a put: the producer must be alone in its section, entered with status 0, and the slot empty
                if holder is None or holder["thread"] != T or holder["status"] != 0:
                    return ("t%d puts an item without being inside a section entered with status 0" % T, st)
                if slot_full is not None:
                    return ("t%d puts item %s while item %d is still in the slot (it is lost)" % (T, op[2], slot_full), st)
                slot_full = int(op[2])
                produced.append(slot_full)
        elif e.kind == "P":
            pid, obj, val = e.words[0], e.words[1], e.words[2]
            if obj != FE:
                continue
            s = _snap(e)
            if "status" in s:
                cur_status = s["status"]
            if pid == "fe.status.write" and e.ctx != "c":
                cur_status = int(val)
            if not both_seen and s.get("c0q") and s.get("c1q"):
                both_seen = True
                st["wrong_kind_waiters_both_asleep"] += 1
            if holder is not None and holder["status"] is not None and not holder["written"] and \
                    s.get("status") != holder["status"]:
                return ("status became %s while t%d is inside its section entered with status %d (%s)" %
                        (s.get("status"), holder["thread"], holder["status"], e.raw[:70]), st)
            clearing = pid == "mutex.clearbit" or (pid == "mutex.unlock.cas1" and s.get("state") == 1)
            if e.ctx == "c":
                if pid == "blockq.enq":
                    kind = "cond" if last_main.get(T) == "fe.status.read" else "mutex"
                    cb_kind[e.w] = kind
                    st["blockq.enq@" + kind] += 1
                    if kind == "cond":
                        releasing[T] = releasing.get(T, 0) + 1
                        if calls.get(T):
                            calls[T]["waits"] += 1
                    elif calls.get(T, {}).get("op", [""])[0] == "felock":
                        st["plain_lock_blocked"] += 1
                elif pid == "mutex.unlock.read":
                    st["mutex.unlock.read@cb"] += 1
                elif clearing:
                    st["mutex.clearbit@cb|mutex.unlock.cas1@cb"] += 1
            else:
                last_main[T] = pid
                if T in calls:
                    calls[T]["ev"].append((idx, pid, val, s))
                if pid in st:
                    st[pid] += 1
                if pid == "fe.status.write":
                    if holder is None or holder["thread"] != T:
                        return ("t%d writes the status without holding the lock" % T, st)
                    holder["written"] = True
                    if T in calls:
                        calls[T]["remark"] = (str(s.get("status")) == val)
                elif pid == "wakeany.deq":
                    op = calls.get(T, {}).get("op", ["", "", "0"])
                    q = s.get("c%sq" % op[2], [])
                    st["wakeany.deq@" + ("nonempty" if q else "empty")] += 1
                    if q and calls.get(T, {}).get("remark"):
                        st["remark_same_status_wakes"] += 1
                elif pid == "wakeany.push":
                    x = _tag(val)
                    if x is not None and releasing.get(x, 0) > 0:
                        st["woken_before_release_done"] += 1
                elif clearing:
                    if holder is None or holder["thread"] != T:
                        return ("t%d clears the lock bit but the lock is held by %s" %
                                (T, "t%d" % holder["thread"] if holder else "nobody"), st)
                    holder = None
        elif e.kind == "R":
            c = calls.pop(T, None)
            if c is None:
                continue
            op = c["op"]
            ret = int(e.words[1]) if len(e.words) > 1 and re.match(r"-?\d+$", e.words[1]) else None
            kv = dict(x.split("=", 1) for x in e.words[2:] if "=" in x)
            if op[0] in ("fewl", "felock") and op[1] == FE:
                if ret != 0:
                    return ("%s of t%d returned %s" % (op[0], T, ret), st)
                if kv.get("occ") != "1":
                    return ("%s of t%d returned without holding the lock exclusively (occ=%s)" % (op[0], T, kv.get("occ")), st)
                if holder is not None:
                    return ("%s of t%d returned while t%d holds the lock" % (op[0], T, holder["thread"]), st)
                holder = {"thread": T, "status": None, "written": False}
                sections.setdefault(T, set()).add("fe" if op[0] == "fewl" else "plain")
            if op[0] == "feinit" and op[1] == FE:
                st["reinit_with_attr" if len(op) > 2 and op[2] == "attr" else "reinit_without_attr"] += 1
                if ret != 0:
                    return ("myth_felock_init returned %s" % ret, st)
                if kv.get("status") != "0":
                    return ("a freshly initialised felock (%s) has status %s - it must be 0 whatever the object held before "
                            "(it was %d when it was destroyed)" % ("with attr" if len(op) > 2 else "attr == NULL", kv.get("status"), cur_status), st)
                cur_status = 0
            if op[0] == "fedestroy" and op[1] == FE and ret != 0:
                return ("myth_felock_destroy returned %s" % ret, st)
            if op[0] == "festatus" and op[1] == FE:
                # myth_felock_status under the lock: the status word itself (no POINT of its own): it must be what
                # the last snapshot / status write shows (the model's status word, compared at every POINT by the
                # replay) and, inside a section entered by wait_and_lock(s) and not yet marked, s
                if holder is None or holder["thread"] != T:
                    return ("t%d reads the status without holding the lock (harness error)" % T, st)
                st["status_read_under_lock"] += 1
                if ret != cur_status:
                    return ("myth_felock_status of t%d returned %s under the lock, the status word is %d" % (T, ret, cur_status), st)
                if holder["status"] is not None and not holder["written"] and ret != holder["status"]:
                    return ("myth_felock_status of t%d returned %s inside a section entered with status %d" % (T, ret, holder["status"]), st)
            if op[0] == "fewl" and op[1] == FE:
                st["fewl_returns"] += 1
                want = int(op[2])
                if kv.get("status") != str(want):
                    return ("wait_and_lock(%d) of t%d returned with status %s" % (want, T, kv.get("status")), st)
                reads = [x for x in c["ev"] if x[1] == "fe.status.read"]
                if not reads or reads[-1][3].get("status") != want:
                    return ("wait_and_lock(%d) of t%d returned without a final status test that saw %d" % (want, T, want), st)
                if c["waits"] >= 1:
                    st["waiter_first"] += 1
                if c["waits"] >= 2:
                    st["rewait"] += 1
                holder["status"] = want
            elif op[0] == "fems" and op[1] == FE:
                msg = check_mark(T, int(op[2]), c["ev"])
                if msg:
                    return (msg, st)
                if ret != 0:
                    return ("mark_and_signal of t%d returned %s" % (T, ret), st)
                if holder is not None and holder["thread"] == T:
                    return ("mark_and_signal of t%d returned without releasing the lock" % T, st)
            elif op[0] == "feunlock" and op[1] == FE:
                if ret != 0:
                    return ("unlock of t%d returned %s" % (T, ret), st)
            elif op[0] == "get" and op[1] == "slot" and T != 0 and roles.get(str(T)) == "peeker":
                # a peek: inside a section entered with status 1, the item in the slot, which stays there
                if holder is None or holder["thread"] != T or holder["status"] != 1:
                    return ("t%d looks at the item without being inside a section entered with status 1" % T, st)
                if ret is None or ret != slot_full:
                    return ("t%d saw %s in the slot, which holds %s" % (T, ret, slot_full), st)
            elif op[0] == "get" and op[1] == "slot" and T != 0:
                # a take: inside a section entered with status 1; the value must have been produced and not consumed before
                if holder is None or holder["thread"] != T or holder["status"] != 1:
                    return ("t%d takes an item without being inside a section entered with status 1" % T, st)
                if ret is None or produced.count(ret) <= consumed.count(ret):
                    why = "the slot was empty" if ret == -1 else \
                          ("it was never produced" if ret not in produced else "it was consumed before")
                    return ("t%d consumed %s: %s" % (T, ret, why), st)
                if slot_full != ret:
                    return ("t%d consumed %s but the slot holds %s" % (T, ret, slot_full), st)
                consumed.append(ret)
            elif op[0] == "set" and op[1] == "slot" and int(op[2]) < 0:
                slot_full = None
            elif op[0] == "get" and T == 0:
                gets[op[1]] = ret
    st["mixed_thread"] += sum(1 for k in sections.values() if len(k) == 2)
    msg = close_incarnation()
    if msg:
        return (msg, st)
    st["incarnations"] += inc[0] + 1 if case.get("family") == "lifecycle" else 0
    exp = case.get("expect") or {"produced": case["total"], "consumed": case["total"], "slot": -1}
    for var, x in exp.items():
        if gets.get(var) != x:
            return ("final %s = %s, expected %d (a section was not exclusive, an item was lost or a waiter was skipped)" % (var, gets.get(var), x), st)
    return (None, st)


def check_mark(T, t, ev):
    """ev: main-context POINT events of one mark_and_signal(t) call: (idx, id, val, snapshot)"""
    ids = [x[1] for x in ev]
    if "fe.status.write" not in ids:
        return "mark_and_signal(%d) of t%d did not write the status" % (t, T)
    deqs = [i for i, x in enumerate(ev) if x[1] == "wakeany.deq"]
    if len(deqs) != 1:
        return "mark_and_signal(%d) of t%d inspected the condition queue %d times" % (t, T, len(deqs))
    i = deqs[0]
    q = ev[i][3].get("c%dq" % t, [])
    other = ev[i][3].get("c%dq" % (1 - t), [])
    nxt = ev[i + 1] if i + 1 < len(ev) else None
    if q:
        if nxt is None or nxt[1] != "wakeany.push":
            return "mark_and_signal(%d) of t%d found t%d waiting for %d and did not wake it" % (t, T, q[0], t)
        if _tag(nxt[2]) != q[0]:
            return "mark_and_signal(%d) of t%d: head of cond[%d] is t%d but %s was woken" % (t, T, t, q[0], nxt[2])
    else:
        if nxt is not None and nxt[1] == "wakeany.push":
            who = _tag(nxt[2])
            return "mark_and_signal(%d) of t%d woke t%s although nobody waits for %d%s" % (
                t, T, who, t, " (it is in cond[%d])" % (1 - t) if who in other else "")
    # the release: a bit-clearing step somewhere in the call
    cleared = [x for x in ev if x[1] == "mutex.clearbit" or (x[1] == "mutex.unlock.cas1" and x[3].get("state") == 1)]
    if not cleared:
        return "mark_and_signal(%d) of t%d returned without releasing the lock" % (t, T)
    return None


def oracle(case, r):
    return analyse(case, r)[0]


# --------------------------------------------------------------------------------------------------

def load_corpus():
    d = os.path.join(vlib.VERIF, "corpus", "C09")
    res = []
    if os.path.isdir(d):
        for f in sorted(os.listdir(d)):
            if f.endswith(".json"):
                c = json.load(open(os.path.join(d, f)))
                c["corpus"] = f
                res.append(c)
    return res


def build(ctx):
    """shared build, then a private copy of the interpreter (the shared cache is pruned by concurrent checks)"""
    exe, drv = sync_common.build(ctx)
    mine = os.path.join(ctx.dir, "lib_interp")
    shutil.copyfile(exe, mine + ".tmp")
    os.chmod(mine + ".tmp", 0o755)
    os.replace(mine + ".tmp", mine)
    return mine, drv


def run_cases_robust(ctx, exe, drv, texts):
    out = []
    for t in texts:
        try:
            r = sync_common.run_cases(ctx, exe, drv, [t])[0]
        except Exception as ex:                     # a crashed run leaves an unparsable trace: no verdict
            if not os.path.exists(exe) or not os.path.exists(drv):
                raise vlib.BuildError("interpreter or driver disappeared during the run: %s" % ex)
            tp = os.path.join(ctx.dir, "runs", "c0000.trace")
            r = {"case": t, "rc": -1, "verdict": None, "events": [], "groups": [], "model": [], "fail_context": [],
                 "stderr": "trace unusable (%s: %s)" % (type(ex).__name__, str(ex)[:120]), "trace_path": tp}
        out.append(r)
    return out


def run_lifecycle(ctx, exe, drv, text):
    """a run with destroy / re-init: the trace is cut at every fedestroy and EVERY incarnation is replayed through the
    model from init_state (one driver block each) - the model of myth_felock_init is init_state"""
    wd = os.path.join(ctx.dir, "runs")
    r = trace.run_case(exe, text, wd, "life", timeout=60)
    groups, nt = trace.sync_groups(text)
    g = [x for x in groups if x["felock"]][0]
    cuts = [i for i, e in enumerate(r["events"]) if e.kind == "C" and e.words[0] == "fedestroy"]
    parts, lo = [], 0
    for c_ in cuts + [len(r["events"])]:
        parts.append(r["events"][lo:c_])
        lo = c_
    blocks = [trace.sync_block(g, nt, p_) for p_ in parts if any(e.kind == "P" for e in p_)]
    res = trace.validate_blocks(drv, blocks) if blocks else []
    fc = []
    for b, x in zip(blocks, res):
        if x.startswith("FAIL"):
            k = int(x.split()[1])
            fc.append({"verdict": x, "model_input_tail": b[0][max(0, k - 10):k + 1],
                       "trace_line": b[1][k].raw if k < len(b[1]) and b[1][k] is not None else None})
    return {"case": text, "rc": r["rc"], "verdict": r["verdict"], "events": r["events"], "groups": groups,
            "model": res, "fail_context": fc, "stderr": r["out"][-500:], "trace_path": r["trace_path"]}


def judge(ctx, cases, exe, drv):
    results = []
    for c in cases:
        if c.get("family") == "lifecycle":
            try:
                results.append(run_lifecycle(ctx, exe, drv, c["text"]))
                continue
            except vlib.BuildError:
                raise
            except Exception as ex:          # noqa: a crashed run leaves an unparsable trace
                results.append({"case": c["text"], "rc": -1, "verdict": None, "events": [], "groups": [], "model": [],
                                "fail_context": [], "stderr": "trace unusable (%s: %s)" % (type(ex).__name__, str(ex)[:120]),
                                "trace_path": os.path.join(ctx.dir, "runs", "life.trace")})
                continue
        results += run_cases_robust(ctx, exe, drv, [c["text"]])
    fails, mism, stats = [], [], {}
    for c, r in zip(cases, results):
        msg, st = analyse(c, r)
        for k, v in st.items():
            stats[k] = stats.get(k, 0) + v
        if msg:
            fails.append((c, r, msg))
        bad = [m for m in r["model"] if not m.startswith("ok")]
        if bad:
            mism.append((c, r, bad))
    return results, fails, mism, stats


def reseed(ctx, c):
    t = re.sub(r"^seed \d+", "seed %d" % ctx.rng.rng(1, 1 << 30), c["text"], flags=re.M)
    t = re.sub(r"^pswitch \d+", "pswitch %d" % ctx.rng.choice([35, 60, 75, 90]), t, flags=re.M)
    t = re.sub(r"^workers \d+", "workers %d" % ctx.rng.rng(2, 4), t, flags=re.M)
    return dict(c, text=t)


# --------------------------------------------------------------------------------------------------
# composition with the scheduler-level machine, felock instance (the attached tools/props/compose.py replays
# mutex / cond programs only: its projection and ocaml/driver_Compose.ml refuse felock groups)
# --------------------------------------------------------------------------------------------------

_FE_OPS = '    | ["fewl"; s] -> FeWL (zs s) | ["fems"; s] -> FeMS (zs s)\n'
_FE_OBS = """    | "F" :: fs :: stt :: k :: rest ->
        let (q, rest) = getq (int_of_string k) rest in
        let (c0, rest) = (match rest with k0 :: r -> getq (int_of_string k0) r | [] -> failwith "short F") in
        let (c1, _) = (match rest with k1 :: r -> getq (int_of_string k1) r | [] -> failwith "short F") in
        let m = Printf.sprintf "status=%s state=%s q=%s c0=%s c1=%s" (sz (festat s)) (sz (mword s)) (qstr (mq s)) (qstr (nthq s 0)) (qstr (nthq s 1)) in
        let i = Printf.sprintf "status=%s state=%s q=%s c0=%s c1=%s" fs stt q c0 c1 in
        if i = m then None else Some ("felock words differ: impl " ^ i ^ " model " ^ m)
"""
_A_OPS = '    | l -> failwith ("bad op " ^ Stdlib.String.concat " " l) in\n'
_A_OBS = '    | "-" :: _ | [] -> None\n'


def build_compose_driver(ctx):
    """the product driver (ocaml/driver_Compose.ml, owned by the composition) with the two felock operations and
    the felock observation added to its Sync instance - patched into a private copy at build time; no patch if
    the driver already knows them"""
    from props import compose
    src = open(os.path.join(vlib.VERIF, "ocaml", "driver_Compose.ml")).read()
    if '"fewl"' not in src:
        if src.count(_A_OPS) != 1 or src.count(_A_OBS) != 1:
            raise vlib.BuildError("ocaml/driver_Compose.ml changed: cannot add the felock operations to its Sync instance "
                                  "(anchors not found); see notes/C09.md for the 2 insertions")
        src = src.replace(_A_OPS, _FE_OPS + _A_OPS).replace(_A_OBS, _FE_OBS + _A_OBS)
    mine = os.path.join(ctx.dir, "driver_Compose_felock.ml")
    if not os.path.exists(mine) or open(mine).read() != src:
        open(mine, "w").write(src)
    return vlib.build_driver("C09compose", "Extract_Compose.v", os.path.relpath(mine, os.path.join(vlib.VERIF, "ocaml")),
                             compose.VFILES)


def felock_block(case_text, r):
    """Sync instance of the product for ONE felock group (status + mutex word + 3 queues = one SyncModel state)"""
    from props import compose
    groups, nt = trace.sync_groups(case_text)
    groups = [g for g in groups if g["felock"]]
    if len(groups) != 1:
        raise ValueError("exactly one felock expected")
    g = groups[0]
    nw, _ = compose._nw_nt(case_text)
    slines, ssrc = trace.sync_block(g, nt, r["events"])
    return compose.merge(case_text, r, slines, ssrc, "begin sync %d %d 2" % (nw, nt), compose.SYNC_PUSH, {g["felock"]})


def oracle_sleepers_parked(trace_text):
    """independent statement of 'a blocked thread frees its worker' on the library: a thread listed in one of the
    felock's three sleep queues in the snapshot of a POINT line is the current thread of no worker and in no run
    queue (machine snapshot written for the same line)"""
    lines = trace_text.split("\n")
    for n, line in enumerate(lines):
        if line[:1] != "P" or n + 1 >= len(lines) or not lines[n + 1].startswith("M "):
            continue
        head, _, snap = line.partition(" | ")
        w = head.split()
        if len(w) <= 5 or w[5] != FE:
            continue
        mem = set()
        for _, body in _QS.findall(snap):
            mem |= set(x.strip() for x in body.split(",") if x.strip().startswith("t"))
        mm = re.match(r"M cur=\[(.*?)\] dq=\[(.*)\]$", lines[n + 1])
        if not mm:
            continue
        cur = set(c for c in mm.group(1).split(",") if c.startswith("t"))
        qs = set(t for q in re.findall(r"\[([^\[\]]*)\]", mm.group(2)) for t in q.split())
        bad = mem & (cur | qs)
        if bad:
            return "thread(s) %s sleep on %s and are at the same time current / in a run queue: %s | %s" % (
                sorted(bad), FE, line[:120], lines[n + 1][:120])
    return None


def compose_felock(ctx, exe, n):
    """mailbox / baton / hold programs under `msnap 1`: both projections of one trace merged and replayed through
    the extracted product SyncModel x machine (coq/Compose): a felock step is accepted only on the worker the
    machine component says runs that thread / callback; blocking steps carry the pop + context save, pushes the
    run-queue insertion; the machine component must equal the library's cur / run queues at every line"""
    from props import compose
    import machine_common as mc
    drv = build_compose_driver(ctx)
    cases = []
    for i in range(n):
        c = gen_hold(ctx.rng) if i % 4 == 3 else (gen_baton(ctx.rng) if i % 4 == 2 else gen_case(ctx.rng))
        c = dict(c, text=compose._msnap(c["text"]))
        cases.append(c)
    wd = os.path.join(ctx.dir, "compose_runs")
    tot = {"runs": 0, "protocol_steps": 0, "free_moves": 0, "snapshots": 0, "blocking": 0, "cb_end": 0, "sync_push": 0}
    fails, ofails, by_workers = [], [], {}
    for i, c in enumerate(cases):
        r = trace.run_case(exe, c["text"], wd, "f%04d" % i, timeout=60)
        r["model"], r["fail_context"], r["stderr"] = [], [], r["out"][-300:]
        msg = analyse(c, r)[0] or oracle_sleepers_parked(r["trace_text"]) or mc.oracle_single_place(r["trace_text"])
        if msg:
            ofails.append((c, r, msg))
            continue
        try:
            lines, stt = felock_block(c["text"], r)
        except Exception as ex:              # noqa: projection of a damaged trace
            fails.append((c, "FAIL 0 projection failed: %s" % ex, []))
            continue
        res = compose.validate(drv, lines)
        if res.startswith("ok"):
            w = res.split()
            tot["runs"] += 1
            tot["protocol_steps"] += int(w[1]); tot["free_moves"] += int(w[2]); tot["snapshots"] += int(w[3])
            for k in ("blocking", "cb_end", "sync_push"):
                tot[k] += stt[k]
            by_workers[c["workers"]] = by_workers.get(c["workers"], 0) + 1
        else:
            k = int(res.split()[1])
            fails.append((c, res, lines[max(0, k - 10):k + 1]))
    summ = dict(tot, cases=len(cases), disagreements=len(fails), oracle_failures=len(ofails),
                runs_by_workers={str(k): v for k, v in sorted(by_workers.items())})
    ctx.cov.setdefault("correspondence", {})["compose_felock"] = summ
    if ofails:
        c, r, msg = ofails[0]
        ctx.violation("compose-oracle", msg, {"case": c, "observed": {"verdict": r["verdict"], "trace": r["trace_path"]},
                                              "expected": "property C09; sleepers of the felock occupy no worker / run queue",
                                              "level": "library", "compose": True}, found=True)
    elif fails:
        c, res, tail = fails[0]
        ctx.violation("compose-correspondence",
                      "product (felock instance of SyncModel x machine) and library disagree on %d of %d runs; first: %s" % (
                          len(fails), len(cases), res[:300]),
                      {"theorem_or_correspondence": "correspondence coq/Compose (Sync instance, felock group) <-> src/myth_sync_func.h "
                                                    "felock routines + block/wake helpers + scheduler",
                       "case": c, "compose": True, "observed": res, "model_input_tail": tail}, found=False)
    elif not (tot["blocking"] and tot["sync_push"] and tot["cb_end"]):
        ctx.violation("coverage", "felock composition runs exercised no blocking step / push / callback end",
                      {"theorem_or_correspondence": "coverage of the product tie for the felock", "histogram": tot}, found=False)
    return summ


NEED = [p for p in POINTS] + ["waiter_first", "rewait", "plain_lock_blocked", "fewl_returns", "fems_calls",
                                "remark_same_status_wakes", "wrong_kind_waiters_both_asleep", "status_read_under_lock",
                                "mixed_thread", "two_callbacks_in_flight", "woken_before_release_done",
                                "reinit_after_full", "reinit_with_attr", "reinit_without_attr", "incarnations"]


def run(ctx):
    broken, log = ctx.prove("Properties_C09.v", "Properties_C09")
    exe, drv = build(ctx)
    n = 160 if not ctx.thorough else 2000
    corpus = load_corpus()
    cases = list(corpus)
    cases += [gen_case(ctx.rng) for _ in range(n)]
    # consumers first + several consumers + preemption: the cond-wait path, re-waits, hand-off chains
    cases += [gen_case(ctx.rng, C=ctx.rng.rng(2, 3), workers=ctx.rng.rng(2, 4), pswitch=ctx.rng.choice([60, 85]),
                       consumers_first=True) for _ in range(n // 4)]
    cases += [gen_case(ctx.rng, P=ctx.rng.rng(2, 3), C=ctx.rng.rng(2, 3), lockers=2, workers=ctx.rng.rng(2, 4), pswitch=85)
              for _ in range(n // 8)]
    # baton passing: >= 2 waiters for the same status, every mark after the first re-marks the unchanged status
    cases += [gen_baton(ctx.rng) for _ in range(n // 5)]
    # >= 2 producers with >= 2 consumers, consumers first: waiters of both kinds asleep at the same time
    cases += [gen_case(ctx.rng, P=ctx.rng.rng(2, 3), C=ctx.rng.rng(2, 3), k=2, lockers=0, workers=ctx.rng.rng(2, 4),
                       pswitch=ctx.rng.choice([60, 85]), consumers_first=True) for _ in range(n // 10)]
    cases += [gen_hold(ctx.rng) for _ in range(n // 4)]
    # object lifecycle: destroy + re-init (with / without attr) of a used felock, 2-3 incarnations
    cases += [gen_lifecycle(ctx.rng) for _ in range(n // 5)]
    results, fails, mism, stats = judge(ctx, cases, exe, drv)
    for _ in range(3):    # the two overlap situations are probabilistic per run (~1/4 each): top up rather than be flaky
        if fails or mism or (stats.get("two_callbacks_in_flight") and stats.get("woken_before_release_done")):
            break
        more = [gen_hold(ctx.rng) for _ in range(n // 4)]
        r2, f2, m2, s2 = judge(ctx, more, exe, drv)
        cases, results, fails, mism = cases + more, results + r2, fails + f2, mism + m2
        for k_, v_ in s2.items():
            stats[k_] = stats.get(k_, 0) + v_
    missing = [p for p in NEED if not stats.get(p)]
    dist = {}
    for c in cases:
        for k in ("family:%s" % c.get("family", "mailbox"), "PxC:%dx%d" % (c["P"], c["C"]), "workers:%d" % c["workers"], "pswitch:%d" % c["pswitch"],
                  "lockers:%d" % c["lockers"], "items:%d" % c["total"], "consumers_first:%s" % c.get("consumers_first")):
            dist[k] = dist.get(k, 0) + 1
    verd = {}
    for r in results:
        v = (r["verdict"] or "none").split()[0]
        verd[v] = verd.get(v, 0) + 1
    ctx.cov["correspondence"] = {
        "cases": len(cases), "corpus_cases": len(corpus),
        "model_steps_replayed": sum(int(m.split()[1]) for r in results for m in r["model"] if m.startswith("ok")),
        "disagreements": len(mism), "oracle_failures": len(fails), "input_distribution": dist, "verdicts": verd,
        "points_and_situations": stats, "point_histogram": sync_common.point_histogram(results)}
    ctx.cov["evaluations"] = sum(len(r["events"]) for r in results)
    ctx.cov["samples"] += [{"case": cases[i]["text"], "verdict": results[i]["verdict"], "model": results[i]["model"]}
                           for i in (0, len(cases) // 2, len(cases) - 1)]
    ctx.cov["trusted_base"] += [
        "extraction: ExtrOcamlBasic only; ocaml/driver_Sync.ml, ocaml/zio.ml (shared Sync driver)",
        "harness/lib_interp.c (schedule controller: one participant runs at a time, decisions at MYTH_VERIF_POINTs; "
        "occupancy and status witness on the R lines of fewl / felock)",
        "felock instance of the product tie: tools/props/compose.py merge + ocaml/driver_Compose.ml with the felock operations / "
        "observation added to its Sync instance in a private copy (tools/props/c09.py build_compose_driver), lib_interp machine snapshots",
        "harness/lib_interp.c ops `fedestroy F`, `feinit F [attr]` (myth_felock_destroy / myth_felock_init on the same memory; "
        "the model of init is SyncModel.init_state: each incarnation is a separate model block)",
        "harness/lib_interp.c op `festatus F` (myth_felock_status under the lock; no POINT, not a model step: compared with the "
        "status word of the snapshots, which the replay compares with the model's)",
        "tools/trace.py projection of traces onto the Sync model (a felock is one object group: status, mutex word, 3 queues); "
        "MYTH_VERIF hooks in src/myth_sync_func.h (guarded by -DMYTH_VERIF)",
        "modelled, not verified: sleep-queue enqueue/dequeue as one step each (they run under the queue's spinlock), the run "
        "queues (a pushed thread is simply runnable), context save/restore (C03), sequential consistency of the mutex word, "
        "the ghost mailbox (slot / produced / consumed) of FelockExchange.v stands for the program's variables"]
    if fails:
        cats = {}
        for _, _, m in fails:
            k = m.split("(")[0][:60]
            cats[k] = cats.get(k, 0) + 1
        dead = [f for f in fails if "sleeps forever" in f[2]]      # prefer a run that actually hangs as the witness
        c, r, msg = (dead or fails)[0]
        ctx.violation("oracle", msg, {"case": c, "observed": {"verdict": r["verdict"], "model": r["model"], "trace": r["trace_path"]},
                                      "expected": "property C09 (see analyse() in tools/props/c09.py)", "level": "library",
                                      "failing_runs": len(fails), "failure_categories": cats,
                                      "others": [m for _, _, m in fails[:8]]}, found=True)
    elif mism or broken or missing:
        # something broke without a failing input so far: search harder for one
        base = [c for c, _, _ in mism[:8]] or cases[:8]
        extra = [reseed(ctx, c) for c in base for _ in range(12)]
        extra += [gen_case(ctx.rng, C=ctx.rng.rng(2, 3), pswitch=ctx.rng.choice([60, 85, 90]), workers=ctx.rng.rng(2, 4),
                           consumers_first=ctx.rng.chance(1, 2)) for _ in range(200)]
        extra += [gen_baton(ctx.rng) for _ in range(50)]
        extra += [gen_lifecycle(ctx.rng) for _ in range(50)]
        _, f2, _, _ = judge(ctx, extra, exe, drv)
        ctx.cov["correspondence"]["search_runs"] = len(extra)
        if f2:
            c, r, msg = f2[0]
            ctx.violation("oracle", msg, {"case": c, "observed": {"verdict": r["verdict"], "model": r["model"]},
                                          "expected": "property C09", "level": "library",
                                          "found_by": "search after a broken obligation"}, found=True)
        else:
            if mism:
                c, r, bad = mism[0]
                ctx.violation("correspondence",
                              "model (Sync/SyncModel.v) and library disagree on %d of %d runs; first: %s" % (len(mism), len(cases), bad[0][:200]),
                              {"theorem_or_correspondence": "correspondence Sync/SyncModel.v <-> src/myth_sync_func.h (felock routines, "
                                                            "mutex / cond routines underneath, block/wake helpers)",
                               "case": c, "observed": r["fail_context"][:2], "expected": "every trace replays through SyncModel.step",
                               "search": "no oracle failure in %d further runs" % len(extra)}, found=False)
            if missing:
                ctx.violation("coverage", "POINT ids / situations never reached in this run: " + ", ".join(missing),
                              {"theorem_or_correspondence": "coverage of the felock routines by the correspondence run",
                               "histogram": stats}, found=False)
    if not (fails or mism or missing):
        compose_felock(ctx, exe, 32 if not ctx.thorough else 320)
    if broken:
        ctx.violation("proof", "theorem(s) no longer check: " + ", ".join(broken),
                      {"theorem_or_correspondence": ", ".join(broken), "log": getattr(ctx, "proof_log", log[-3000:])}, found=False)
    return ctx.finish(assumptions=[
        "operations on a felock are exactly myth_felock_{lock,unlock,wait_and_lock,mark_and_signal} with status values 0/1; "
        "usage contract encoded as enabledness of ECall: unlock / mark_and_signal only by the holder",
        "program classes are part of the theorem statements: discs (every wait_and_lock closed by a mark_and_signal) for "
        "no-lost-wake-up, mboxes (producers 0->1, consumers 1->0, plain lock/unlock pairs) for the exchange",
        "sequentially consistent accesses to mutex->state (the code uses __sync builtins = full barriers); the status word is "
        "accessed under the mutex only",
        "sleep-queue enqueue / dequeue are atomic (they run under the queue's internal spinlock)",
        "liveness ('no participant sleeps forever') is not claimed; C09_no_lost_wakeup / C09_done_queues_empty are its safety form, "
        "progress of a responsible thread needs C04 (mutex no-lost-wake-up) and scheduler fairness"])


def replay(ctx, path):
    body = json.load(open(path))
    c = body.get("case") or (body if "text" in body else None)      # a replay file or a bare corpus case
    if not c or not isinstance(c, dict):
        print("replay file carries no case (broken obligation: %s)" % body.get("what"))
        return 0
    exe, drv = build(ctx)
    results, fails, mism, stats = judge(ctx, [c], exe, drv)
    r = results[0]
    print("case:\n" + c["text"])
    print("impl verdict:", r["verdict"], "rc", r["rc"])
    print("model:", r["model"])
    for fc in r["fail_context"]:
        print("  model mismatch:", fc["verdict"], "| trace line:", fc["trace_line"])
    print("oracle:", fails[0][2] if fails else "property holds on this run")
    print("trace:", r["trace_path"])
    return 1 if fails else 0
