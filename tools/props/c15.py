"""C15 — initialisation, worker count, finalisation, configuration parsing (DESIGN.md section 4, C15).

prove -> build (unit harness, process harness, extracted model) -> unit cases (parser, default
functions, CPU table) on implementation and model, diffed byte for byte -> independent oracle of the
property on every implementation result -> process-level runs under generated environments and
init/fini histories, judged by the oracle and compared with the protocol model."""
import os, re, json, subprocess, signal, time
import vlib

VF = ["Init/EnvModel.v", "Init/CpuListModel.v", "Init/InitProtoModel.v"]
I31, I32, I63, I64 = 1 << 31, 1 << 32, 1 << 63, 1 << 64
WS = b" \t\n\v\f\r"


def hx(b):
    return "U" if b is None else "h:" + bytes(b).hex()


def unhx(tok):
    return None if tok == "U" else bytes.fromhex(tok[2:])


def cstr(b):
    """the C string held by these bytes (ends at the first NUL)"""
    i = b.find(b"\0")
    return b if i < 0 else b[:i]


# ------------------------------------------------------------------------------------------------
# build
# ------------------------------------------------------------------------------------------------

def build(ctx):
    lib = vlib.build_lib()
    fl = vlib.lib_cflags() + ["-O0", "-g"]
    libs = [lib, "-lpthread", "-ldl", "-lrt"]
    key = vlib.sha(vlib.repo_src_hash("src"), vlib.repo_src_hash("include"),
                   vlib.file_sha(os.path.join(vlib.VERIF, "harness", "c15_unit.c")),
                   vlib.file_sha(os.path.join(vlib.VERIF, "harness", "c15_proc.c")))[:12]
    d = os.path.join(ctx.dir, "bin-" + key)
    unit, proc = os.path.join(d, "c15_unit"), os.path.join(d, "c15_proc")
    if not (os.path.exists(unit) and os.path.exists(proc)):
        vlib.cc(unit + ".tmp", [os.path.join(vlib.VERIF, "harness", "c15_unit.c")], flags=fl, libs=libs)
        vlib.cc(proc + ".tmp", [os.path.join(vlib.VERIF, "harness", "c15_proc.c")], flags=fl, libs=libs)
        os.rename(unit + ".tmp", unit)
        os.rename(proc + ".tmp", proc)
        vlib.prune_cache(ctx.dir, keep=12)
    drv = vlib.build_driver("C15", "Extract_C15.v", "driver_C15.ml", VF)
    return unit, proc, drv


def get_info(unit):
    lines, rc, raw = vlib.run_lines([unit], ["info"], timeout=60)
    m = re.match(r"info ncpu=(-?\d+) dstack=(\d+) dguard=(\d+) dbind=(-?\d+) dcf=(-?\d+) cap=(\d+) aff=([\d,]*)", lines[0] if lines else "")
    if not m:
        raise vlib.BuildError("unit harness gives no info line: " + raw[:300])
    return {"ncpu": int(m.group(1)), "dstack": int(m.group(2)), "dguard": int(m.group(3)), "dbind": int(m.group(4)),
            "dcf": int(m.group(5)), "cap": int(m.group(6)), "aff": [int(x) for x in m.group(7).split(",") if x]}


# ------------------------------------------------------------------------------------------------
# independent reference notions used by the oracle (NOT the Coq model)
# ------------------------------------------------------------------------------------------------

def py_atoi(b):
    b = cstr(b)
    m = re.match(rb"[ \t\n\v\f\r]*([+-]?)([0-9]+)", b)
    if not m:
        return 0
    v = int(m.group(2))
    v = max(-I63, -v) if m.group(1) == b"-" else min(I63 - 1, v)
    return (v + I31) % I32 - I31


RANGE_RE = re.compile(rb"([0-9]+)(?:-([0-9]+)(?::([0-9]+))?)?")
LIST_RE = re.compile(rb"[0-9]+(?:-[0-9]+(?::[0-9]+)?)?(?:,[0-9]+(?:-[0-9]+(?::[0-9]+)?)?)*\Z")


def py_cpulist(b, cap):
    """('ok', list) | ('toomany',) | ('err',) | ('unspecified',)  for the C string in b.
    a = one cpu; a-b = a, a+1, .. below b; a-b:c = a, a+c, .. below b; commas concatenate."""
    b = cstr(b)
    if not LIST_RE.match(b):
        return ("err",)
    out = []
    for part in b.split(b","):
        m = RANGE_RE.fullmatch(part)
        a = int(m.group(1))
        hi = int(m.group(2)) if m.group(2) is not None else a + 1
        c = int(m.group(3)) if m.group(3) is not None else 1
        if a >= I31 - 1 or hi >= I31 or c >= I31 or hi + c >= I31:
            return ("unspecified",)          # int overflow in the C code: excluded (caller's problem)
        if a < hi:
            if c == 0 or (hi - a + c - 1) // c > cap - len(out):
                return ("toomany",)
            out.extend(range(a, hi, c))
    return ("ok", out)


def py_table(envval, ncpu, mask, cap):
    """expected worker->cpu table: the listed cpus (or 0..ncpu-1 when the list is unset, empty of
    cpus or malformed) that are in the affinity mask, in order"""
    spec = []
    if envval is not None:
        r = py_cpulist(envval, cap)
        if r[0] == "ok":
            spec = r[1]
        elif r[0] == "unspecified":
            return None
    if not spec:
        spec = list(range(max(ncpu, 0)))
    return [c for c in spec if c in mask]


# ------------------------------------------------------------------------------------------------
# generators (all randomness from ctx.rng)
# ------------------------------------------------------------------------------------------------

def gen_numeric(r):
    """(kind, bytes) for the numeric environment variables"""
    k = r.below(16)
    if k == 0:
        return "empty", b""
    if k == 1:
        return "small-positive", str(r.rng(1, 64)).encode()
    if k == 2:
        return "zero", r.choice([b"0", b"00", b"-0", b"+0"])
    if k == 3:
        return "negative", ("-%d" % r.choice([1, 2, 7, 4096, 65536, I31 - 1, I31, r.rng(1, 10 ** 6)])).encode()
    if k == 4:
        return "plus-sign", ("+%d" % r.rng(0, 100000)).encode()
    if k == 5:
        ws = bytes(r.choice(list(WS)) for _ in range(r.rng(1, 4)))
        return "space-prefix", ws + r.choice([b"", b"-", b"+"]) + str(r.rng(0, 300000)).encode()
    if k == 6:
        return "number-then-junk", str(r.rng(0, 300000)).encode() + r.choice([b"x", b" ", b"k", b".5", b"e3", b",2", b"\n", b"-1"])
    if k == 7:
        return "non-numeric", r.choice([b"abc", b"x1", b"-", b"+", b"--1", b"+-1", b"-+1", b" ", b"\n", b"0x10", b"auto", b"- 1", b"\xff\xfe", b".", b"1e"][:15])
    if k == 8:
        return "int-boundary", str(r.choice([I31 - 2, I31 - 1, I31, I31 + 1, I32 - 1, I32, I32 + 1, I32 + r.rng(2, 64),
                                             -I31, -I31 - 1, -I32, -I32 + 1, -I32 - 1])).encode()
    if k == 9:
        return "long-boundary", str(r.choice([I63 - 1, I63, I63 + 1, -I63, -I63 - 1, -I63 + 1, I64 - 1, I64, I64 + 1, -I64,
                                              10 ** 19, 10 ** 30, -10 ** 30, I63 - 1 - I32 * 3 + 5])).encode()
    if k == 10:
        return "raw-bytes", bytes(r.rng(1, 255) for _ in range(r.rng(1, 12)))
    if k == 11:
        return "leading-zeros", b"0" * r.rng(1, 25) + str(r.rng(0, 99999)).encode()
    if k == 12:
        return "usable-stack", str(r.choice([16384, 32768, 65536, 131072, 262144, 1 << 20])).encode()
    if k == 13:
        return "embedded-nul", str(r.rng(0, 99)).encode() + b"\0" + str(r.rng(0, 99)).encode()
    if k == 14:
        return "long-digits", bytes(r.rng(48, 57) for _ in range(r.rng(20, 60)))
    return "sign-then-space", r.choice([b"- 5", b"+ 5", b"-\t5", b" -5", b"\t+5", b"\v\f\r 12", b"5 -", b"  "])


def gen_range(r, small=True):
    hi = 40 if small else r.choice([40, 1000, 5000, I31 - 1])
    a = r.rng(0, hi)
    k = r.below(6)
    if k <= 1:
        return "%d" % a
    b = a + r.rng(0, 12) if r.chance(5, 6) else r.rng(0, hi)
    if k <= 3:
        return "%d-%d" % (a, b)
    c = r.choice([1, 1, 2, 3, 5, 7, r.rng(1, 20)])
    return "%d-%d:%d" % (a, b, c)


def gen_cpulist(r):
    """(kind, bytes)"""
    k = r.below(20)
    if k <= 5:
        return "grammar", ",".join(gen_range(r) for _ in range(r.rng(1, 6))).encode()
    if k == 6:
        return "grammar-large-numbers", ",".join(gen_range(r, small=False) for _ in range(r.rng(1, 3))).encode()
    if k == 7:
        return "leading-zeros", ",".join("0" * r.rng(1, 12) + gen_range(r) for _ in range(r.rng(1, 3))).encode()
    if k == 8:
        a = r.rng(0, 50)
        return "stride-zero", ("%d-%d:0" % (a, a + r.rng(0, 3))).encode()
    if k == 9:
        a = r.rng(0, 50)
        return "capacity-boundary", r.choice(["%d-%d" % (a, a + n) for n in (1023, 1024, 1025, 2048)] +
                                             ["0-1023,%d" % a, "0-1024:1", "0-2048:2", "0-2049:2", "0-100000", "0-2147483647"]).encode()
    if k == 10:
        return "int-overflow", r.choice([b"2147483647", b"2147483648", b"4294967295", b"4294967296", b"4294967297", b"0-4294967295",
                                         b"0-4294967297", b"0-5:4294967295", b"0-5:4294967297", b"99999999999999999999",
                                         b"2147483646-2147483647", b"0-2147483647:2000000000", b"2147483647-2147483648",
                                         b"0-3:4294967296", b"4294967295-3", b"1-4294967295:1"])
    if k in (11, 12, 13):
        base = bytearray(",".join(gen_range(r) for _ in range(r.rng(1, 4))).encode())
        alpha = b"0123456789,-:: \n\tx-,"
        for _ in range(r.rng(1, 3)):
            op = r.below(3)
            pos = r.rng(0, len(base))
            if op == 0:
                base.insert(pos, r.choice(list(alpha)))
            elif op == 1 and base:
                del base[min(pos, len(base) - 1)]
            elif base:
                base[min(pos, len(base) - 1)] = r.choice(list(alpha))
        return "mutated", bytes(base)
    if k == 14:
        g = ",".join(gen_range(r) for _ in range(r.rng(1, 3))).encode()
        return "trailing-junk", g + r.choice([b"\n", b" ", b",", b"-", b":", b"\r\n", b"x", b",\n", b"\n0", b"\t"])
    if k == 15:
        return "separators-only", r.choice([b"", b",", b"-", b":", b",,", b"-1", b":1", b"1,,2", b"1--2", b"1-2:", b"1-2::3", b"1:2", b"1-2:3:4",
                                            b"1-2-3", b" 1", b"1 ", b"\n", b"+1", b"1,", b",1"])
    if k == 16:
        return "raw-bytes", bytes(r.rng(1, 255) for _ in range(r.rng(1, 16)))
    if k == 17:
        return "embedded-nul", gen_range(r).encode() + b"\0" + r.choice([b"x", b",1", b"\n"])
    if k == 18:
        return "long-list", ",".join(str(r.rng(0, 99)) for _ in range(r.rng(100, 600))).encode()
    return "empty-ranges", ",".join("%d-%d" % (a, a - r.rng(0, 5)) for a in [r.rng(5, 40) for _ in range(r.rng(1, 4))]).encode()


def gen_unit_cases(ctx, info, n):
    r = ctx.rng
    cases, kinds = [], {}

    def add(case, fam, kind):
        cases.append(case)
        kinds.setdefault(fam, {})
        kinds[fam][kind] = kinds[fam].get(kind, 0) + 1

    for _ in range(n):
        kind, b = gen_numeric(r)
        add("atoi " + hx(b), "atoi", kind)
    for _ in range(n):
        kind, b = gen_numeric(r)
        v = None if r.chance(1, 12) else b
        if v is None:
            kind = "unset"
        which = r.choice(["stk", "stk", "guard", "bind", "cf", "nw", "nw"])
        if which == "nw":
            k2, b2 = gen_numeric(r)
            wn = b2 if r.chance(1, 3) else None
            add("dflt nw %d %s %s" % (info["ncpu"], hx(v), hx(wn)), "dflt-nw", kind + ("+WORKER_NUM" if wn is not None else ""))
        else:
            d = {"stk": info["dstack"], "guard": info["dguard"], "bind": info["dbind"], "cf": info["dcf"]}[which]
            add("dflt %s %d %s" % (which, d, hx(v)), "dflt-" + which, kind)
    for _ in range(n // 4):
        vs = []
        for j in range(6):
            kind, b = gen_numeric(r)
            vs.append(None if r.chance(1, 3) else b)
        add("gattr %d %d %d %d %d %s" % (info["ncpu"], info["dstack"], info["dguard"], info["dbind"], info["dcf"],
                                          " ".join(hx(v) for v in vs)), "gattr", "mixed")
    for _ in range(2 * n):
        kind, b = gen_cpulist(r)
        cap = info["cap"] if r.chance(3, 4) else r.choice([0, 1, 2, 3, 5, 8, 16, 100])
        if kind == "grammar" and r.chance(1, 6):
            pr = py_cpulist(b, 1 << 30)
            if pr[0] == "ok":
                cap = max(0, len(pr[1]) + r.choice([-1, 0, 0, 1]))   # exactly at / around the capacity
                kind = "grammar-at-capacity"
        add("cpul %d %s" % (cap, hx(b)), "cpul", kind)
    aff = info["aff"]
    for _ in range(n // 3):
        kind, b = gen_cpulist(r)
        v = None if r.chance(1, 8) else b
        sub = [c for c in aff if r.chance(1, 2)] or [r.choice(aff)]
        add("avail %d %d %s %s 12" % (info["ncpu"], len(sub), " ".join(map(str, sub)), hx(v)), "avail", "unset" if v is None else kind)
    return cases, kinds


# ------------------------------------------------------------------------------------------------
# oracle for the unit cases: the property, stated directly
# ------------------------------------------------------------------------------------------------

def unit_oracle(case, out, info):
    w = case.split()
    o = out.split()
    if not o:
        return "no output (the harness died)"
    if o[0] in ("assertfail", "signal", "exit") or "overflow" in o:
        return "the call did not return normally: " + out
    try:
        if w[0] == "atoi":
            exp = py_atoi(unhx(w[1]))
            return None if int(o[1]) == exp else "libc atoi differs from the assumed conversion (%d)" % exp
        if w[0] == "dflt":
            val = int(o[1])
            which = w[1]
            if which == "nw":
                ncpu = int(w[2])
                e1, e2 = unhx(w[3]), unhx(w[4])
                x = py_atoi(e1) if e1 is not None else (py_atoi(e2) if e2 is not None else 0)
                exp = x if x > 0 else ncpu
                return None if val == exp else "worker count %d, expected %d (requested value if positive, else the CPU count)" % (val, exp)
            d, e = int(w[2]), unhx(w[3])
            x = py_atoi(e) if e is not None else None
            if which == "stk":
                exp = x if (x is not None and x > 0) else d
                return None if val == exp else "default stack size %d, expected %d (the value if positive, else the built-in default)" % (val, exp)
            if which == "guard":
                if x is not None and x < 0:
                    return None if val > 0 else "guard size 0"     # negative guard size: see notes (value never used by the library)
                exp = x if (x is not None and x > 0) else d
                return None if val == exp else "default guard size %d, expected %d" % (val, exp)
            exp = (x if x is not None else d) % I64
            return None if val == exp else "flag value %d, expected %d" % (val, exp)
        if w[0] == "gattr":
            ncpu, ds, dg, db, dc = map(int, w[1:6])
            es = [unhx(t) for t in w[6:12]]
            st, gd, nw, bw, cf, ini = map(int, o[1:7])
            at = lambda e: py_atoi(e) if e is not None else None
            x = at(es[0])
            if st != (x if (x is not None and x > 0) else ds):
                return "attribute stacksize %d" % st
            x = at(es[1])
            if (x is None or x >= 0) and gd != (x if (x is not None and x > 0) else dg):
                return "attribute guardsize %d" % gd
            x = at(es[2]) if es[2] is not None else (at(es[3]) if es[3] is not None else 0)
            if nw != (x if x > 0 else ncpu):
                return "attribute n_workers %d" % nw
            if bw != (at(es[4]) if es[4] is not None else db) or cf != (at(es[5]) if es[5] is not None else dc) or ini != 1:
                return "attribute bind/child_first/initialized %d %d %d" % (bw, cf, ini)
            return None
        if w[0] == "cpul":
            cap, b = int(w[1]), unhx(w[2])
            exp = py_cpulist(b, max(cap, 0)) if b is not None else ("ok", [])
            if o[0] == "ok":
                k = int(o[1]); got = list(map(int, o[2:2 + k]))
                if k > max(cap, 0):
                    return "%d numbers stored in a list of capacity %d" % (k, cap)
                if exp[0] == "unspecified":
                    return None
                if exp[0] != "ok":
                    return "accepted, but the string %s" % ("is not a range list" if exp[0] == "err" else "lists more cpus than fit")
                return None if got == exp[1] else "parsed list %s differs from the expansion %s" % (got[:20], exp[1][:20])
            if o[0] == "err":
                if exp[0] == "unspecified":
                    return None
                if exp[0] == "ok":
                    return "well-formed list rejected (%s)" % out
                if exp[0] == "toomany" and o[1] != "too-many":
                    return "diagnostic %s for a list that is well-formed but too long" % o[1]
                return None
            return "unexpected output " + out
        if w[0] == "avail":
            ncpu, k = int(w[1]), int(w[2])
            mask = list(map(int, w[3:3 + k]))
            b = unhx(w[3 + k]); nr = int(w[4 + k])
            if o[0] != "avail":
                return "unexpected output " + out
            n = int(o[1]); tbl = list(map(int, o[2:2 + n])); ranks = list(map(int, o[3 + n:3 + n + nr]))
            if any(c not in mask for c in tbl):
                return "table contains a cpu outside the affinity mask"
            exp = py_table(b, ncpu, mask, info["cap"])
            if exp is not None and tbl != exp:
                return "worker cpu table %s, expected %s" % (tbl[:20], exp[:20])
            for rk, c in enumerate(ranks):
                if c != (tbl[rk % n] if n else -1):
                    return "worker %d gets cpu %d" % (rk, c)
            return None
    except (IndexError, ValueError) as e:
        return "unparsable output %r (%s)" % (out, e)
    return None


# ------------------------------------------------------------------------------------------------
# process level
# ------------------------------------------------------------------------------------------------

def run_proc(cmd, env, timeout):
    """returns (rc, stdout, stderr); rc = 'timeout' on a hang.  The library owns SIGALRM/ITIMER_REAL,
    so the limit is enforced here, on the whole process group."""
    p = subprocess.Popen(cmd, env=env, stdout=subprocess.PIPE, stderr=subprocess.PIPE, start_new_session=True)
    try:
        out, err = p.communicate(timeout=timeout)
        rc = p.returncode
    except subprocess.TimeoutExpired:
        try:
            os.killpg(p.pid, signal.SIGKILL)
        except OSError:
            pass
        out, err = p.communicate()
        rc = "timeout"
    return rc, out.decode("latin-1"), err.decode("latin-1")


NW_VALUES = [("unset", None), ("empty", b""), ("non-numeric", b"abc"), ("negative", b"-3"), ("zero", b"0"), ("positive", b"3"),
             ("space-prefix", b" 4"), ("plus-sign", b"+2"), ("number-then-junk", b"2x"), ("leading-zeros", b"007"),
             ("positive", b"1"), ("positive", b"8"), ("raw-bytes", b"\xff\x01"), ("newline", b"5\n"), ("sign-only", b"-"),
             ("long-negative", b"-99999999999999999999")]
STK_VALUES = [("unset", None), ("empty", b""), ("non-numeric", b"abc"), ("negative", b"-1"), ("zero", b"0"), ("usable", b"65536"),
              ("usable", b"262144"), ("negative", b"-65536"), ("number-then-junk", b"131072x"), ("negative", b"-2147483648"),
              ("space-prefix", b"\t98304")]
LIST_VALUES = [("unset", None), ("empty", b""), ("single", b"0"), ("range", b"0-4"), ("stride", b"0-8:2"), ("list", b"1,3"),
               ("trailing-newline", b"0\n"), ("non-numeric", b"x"), ("dangling-dash", b"0-"), ("empty-range", b"5-2"),
               ("stride-zero", b"0-4:0"), ("comma-only", b","), ("double-comma", b"0,,1"), ("outside-mask", b"1024"),
               ("outside-mask", b"99999"), ("too-many", b"0-100000"), ("minus-one-wrap", b"4294967295"), ("list", b"2,2,3"),
               ("newline-inside", b"0\n,1"), ("trailing-comma", b"0,1,"), ("range", b"1-3"), ("space", b"0, 1")]
BIND_VALUES = [("unset", None), ("empty", b""), ("zero", b"0"), ("one", b"1"), ("negative", b"-1"), ("non-numeric", b"abc"), ("two", b"2")]


def gen_scenario(ctx, maxcycles):
    r = ctx.rng
    sc = {"env": {}, "kinds": {}}
    for name, vals, p in (("MYTH_NUM_WORKERS", NW_VALUES, 3), ("MYTH_DEF_STKSIZE", STK_VALUES, 2),
                          ("MYTH_CPU_LIST", LIST_VALUES, 2), ("MYTH_BIND_WORKERS", BIND_VALUES, 2)):
        kind, v = r.choice(vals) if r.chance(p, 4) else ("unset", None)
        sc["kinds"][name] = kind
        if v is not None:
            sc["env"][name] = v.hex()
    if "MYTH_NUM_WORKERS" not in sc["env"] and r.chance(1, 6):
        sc["env"]["MYTH_WORKER_NUM"] = r.choice([b"2", b"x", b"-1", b"5"]).hex()
    ncyc = r.rng(1, maxcycles)
    cyc = []
    for k in range(ncyc):
        how = r.choice("aaggiu") if k > 0 else r.choice("aagiuu")
        n = r.rng(1, 8)
        fl = ("m" if r.chance(1, 3) else "")
        cyc.append("%s%d%s" % (how, n, fl))
    if r.chance(1, 8):
        cyc[-1] += "x"
    sc["spec"] = ",".join(cyc)
    return sc


def expected_hist(sc, info):
    """expected n_workers of every cycle (the property: attribute if given, else what is configured,
    else MYTH_NUM_WORKERS if positive, else the CPU count) and the expected stack size attribute"""
    env = {k: bytes.fromhex(v) for k, v in sc["env"].items()}
    e1, e2 = env.get("MYTH_NUM_WORKERS"), env.get("MYTH_WORKER_NUM")
    x = py_atoi(e1) if e1 is not None else (py_atoi(e2) if e2 is not None else 0)
    envnw = x if x > 0 else info["ncpu"]
    s = env.get("MYTH_DEF_STKSIZE")
    x = py_atoi(s) if s is not None else 0
    stk = x if x > 0 else info["dstack"]
    b = env.get("MYTH_BIND_WORKERS")
    bind = py_atoi(b) if b is not None else info["dbind"]
    cur, nws = None, []
    for c in sc["spec"].split(","):
        how, n = c[0], int(re.match(r"\d+", c[1:]).group(0))
        if how in "ag":
            cur = n
        elif cur is None:
            cur = envnw
        nws.append(cur)
    return nws, stk, bind


def proto_case(sc, info, nws_env):
    """the same history as a schedule of the protocol model (one caller)"""
    toks = []
    for c in sc["spec"].split(","):
        how, n = c[0], int(re.match(r"\d+", c[1:]).group(0))
        if how == "g":
            toks += ["0:S%d" % n, "0:R"]
        a = str(n) if how == "a" else "-"
        toks += ["0:I%s/%d" % (a, nws_env)] + ["0:T"] * 4 + ["0:R", "Q0"]
        if "m" in c:
            toks += ["0:M1", "0:R"]
        if "x" not in c:
            toks += ["0:F"] + ["0:T"] * 2 + ["0:G0"] + ["0:T"] * 4 + ["0:R", "Q0"]
    return "proto 1 " + " ".join(toks)


def hist_oracle(sc, info, rc, out, err):
    """None if the property holds on this run, else a message"""
    if rc == "timeout":
        return "the process hangs"
    if rc != 0:
        return "the process dies (exit status %s); stderr: %s" % (rc, err[-200:].replace("\n", " | "))
    nws, stk, bind = expected_hist(sc, info)
    env = {k: bytes.fromhex(v) for k, v in sc["env"].items()}
    cyc = sc["spec"].split(",")
    lines = out.strip().split("\n")
    li = 0
    for k, c in enumerate(cyc):
        if li >= len(lines):
            return "output ends before cycle %d" % k
        m = re.match(r"cycle (\d+) pre=([\d.]*) ret=(-?\d+) nw=(-?\d+) tasks=(-?\d+) main=(-?\d+) ranks=([-\d,]*) stk=(\d+) bind=(-?\d+) aff=(\S*) mig=(-?\d+)$", lines[li])
        if not m:
            return "unparsable line %r" % lines[li]
        li += 1
        pre = [int(x) for x in m.group(2).split(".") if x]
        nw, tasks, mainr = int(m.group(4)), int(m.group(5)), int(m.group(6))
        ranks = [int(x) for x in m.group(7).split(",")]
        if nw != nws[k]:
            return "cycle %d (%s): runs with %d workers, requested %d" % (k, c, nw, nws[k])
        if tasks != nw:
            return "cycle %d: %d OS threads for %d workers" % (k, tasks, nw)
        bad = [x for x in ranks + [mainr, int(m.group(11))] if not (0 <= x < nw)]
        if bad:
            return "cycle %d: worker index %d outside [0, %d)" % (k, bad[0], nw)
        if int(m.group(8)) != stk:
            return "cycle %d: default stack size %s, expected %d" % (k, m.group(8), stk)
        # binding: bound workers sit on the cpu the table gives them; unbound ones keep the caller's mask
        tbl = py_table(env.get("MYTH_CPU_LIST"), info["ncpu"], pre, info["cap"])
        for ent in [e for e in m.group(10).split(";") if e]:
            rk, cnt, first = map(int, ent.split(":"))
            if bind > 0 and tbl:
                if cnt != 1 or first != tbl[rk % len(tbl)]:
                    return "cycle %d: worker %d bound to %d cpu(s) starting at %d, expected cpu %d" % (k, rk, cnt, first, tbl[rk % len(tbl)])
            elif tbl is not None and cnt != len(pre):
                return "cycle %d: worker %d has %d cpus although nothing is to be bound (caller had %d)" % (k, rk, cnt, len(pre))
        if "x" in c:
            continue
        if li >= len(lines):
            return "no output after finalisation %d" % k
        m = re.match(r"fini (\d+) state=(-?\d+) tasks=(-?\d+)$", lines[li])
        li += 1
        if not m:
            return "unparsable line %r" % lines[li - 1]
        if int(m.group(2)) != 0:
            return "cycle %d: state %s after finalisation" % (k, m.group(2))
        if int(m.group(3)) != 1:
            return "cycle %d: %s OS threads remain after finalisation" % (k, m.group(3))
    return None


def canon_hist(out):
    """canonical summary compared with the protocol model: state and worker count after every
    initialisation and finalisation"""
    res = []
    for l in out.strip().split("\n"):
        m = re.match(r"cycle \d+ pre=\S* ret=(-?\d+) nw=(-?\d+)", l)
        if m:
            res.append("i(%s)" % m.group(2))
        m = re.match(r"fini \d+ state=(-?\d+) tasks=(-?\d+)", l)
        if m:
            res.append("f(%s,%d)" % (m.group(1), int(m.group(2)) - 1))
    return " ".join(res)


def canon_model(line):
    res = []
    for st, nw, rk in re.findall(r"q\((-?\d+),(-?\d+),(-?\d+)\)", line):
        res.append("i(%s)" % nw if st == "2" else "f(%s,%s)" % (st, nw))
    return " ".join(res)


FIRST_CALLS = ["create", "yield", "self", "key_create", "cond_signal", "cond_broadcast", "barrier1", "jc_dec", "mutex",
               "num_workers", "worker_num"]
FIRST_NW = [("unset", None), ("positive", b"2"), ("non-numeric", b"abc"), ("zero", b"0"), ("positive", b"5"), ("negative", b"-2")]


def first_oracle(sc, info, rc, out, err):
    if rc == "timeout":
        return "the process hangs"
    if rc != 0:
        return "the process dies (exit status %s) instead of initialising the library implicitly; stderr: %s" % (
            rc, err[-200:].replace("\n", " | "))
    e = sc["env"].get("MYTH_NUM_WORKERS")
    x = py_atoi(bytes.fromhex(e)) if e is not None else 0
    nw = x if x > 0 else info["ncpu"]
    lines = out.strip().split("\n")
    m = re.match(r"first (\w+) before=(-?\d+) r=(-?\d+) nw=(-?\d+) tasks=(-?\d+) me=(-?\d+) state=(-?\d+)$", lines[0] if lines else "")
    if not m:
        return "unparsable line %r" % (lines[0] if lines else "")
    if int(m.group(2)) != 0:
        return "the library was already initialised before the first call (harness problem)"
    exp_r = {"create": 5, "self": 1}.get(sc["first"], 0)
    if int(m.group(3)) != exp_r:
        return "the first call %s returned %s" % (sc["first"], m.group(3))
    if int(m.group(4)) != nw or int(m.group(5)) != nw:
        return "after the first call (%s): %s workers, %s OS threads, configured %d" % (sc["first"], m.group(4), m.group(5), nw)
    if not (0 <= int(m.group(6)) < nw) or int(m.group(7)) != 2:
        return "after the first call: rank %s, state %s" % (m.group(6), m.group(7))
    if len(lines) < 2 or not re.match(r"fini 0 state=0 tasks=1$", lines[1]):
        return "finalisation after an implicit initialisation: %r" % (lines[1] if len(lines) > 1 else "")
    return None


def race_oracle(rc, out, err, K, C, nw):
    if rc == "timeout":
        return "the process hangs"
    lines = [l for l in out.strip().split("\n") if l]
    for l in lines:
        m = re.match(r"race (\d+) rets=([-\d,]*) winners=(\d+) nw=(-?\d+) tasks=(-?\d+)$", l)
        if m:
            if int(m.group(3)) != 1:
                return "epoch %s: %s of the %d concurrent first callers ended up as worker 0 (initialisation ran %s times)" % (
                    m.group(1), m.group(3), K, m.group(3))
            if any(x != "1" for x in m.group(2).split(",")):
                return "epoch %s: a caller got %s" % (m.group(1), m.group(2))
            if int(m.group(4)) != nw or int(m.group(5)) != K + nw - 1:
                return "epoch %s: %s workers, %s OS threads (expected %d, %d)" % (m.group(1), m.group(4), m.group(5), nw, K + nw - 1)
    if rc != 0:
        return "the process dies (exit status %s)" % rc
    if not lines or not re.match(r"race-done state=0 tasks=1$", lines[-1]):
        return "bad final line %r" % (lines[-1] if lines else "")
    n_init = err.count("malformed MYTH_CPU_LIST ignored")
    if n_init != C:
        return "the real initialisation ran %d times in %d epochs" % (n_init, C)
    return None


# ------------------------------------------------------------------------------------------------
# the check
# ------------------------------------------------------------------------------------------------

def neighbours(case, rng):
    """boundary inputs around a disagreeing unit case (for the search after a broken correspondence)"""
    w = case.split()
    res = []
    idx = {"atoi": 1, "cpul": 2}.get(w[0])
    if w[0] == "dflt":
        idx = 3
    if idx is None or w[idx] == "U":
        return res
    b = unhx(w[idx])
    vars_ = set()
    for i in range(len(b) + 1):
        vars_.add(b[:i])
        vars_.add(b[i:])
    for extra in (b"\n", b",", b"-", b":", b"0", b"1", b"-1", b" ", b"x"):
        vars_.add(b + extra)
        vars_.add(extra + b)
    for v in sorted(vars_):
        ww = list(w)
        ww[idx] = hx(v)
        res.append(" ".join(ww))
        if w[0] == "cpul":
            for cap in (0, 1, 2, 4):
                ww2 = list(ww); ww2[1] = str(cap)
                res.append(" ".join(ww2))
    return res[:600]


def run(ctx):
    broken, log = ctx.prove("Properties_C15.v", "Properties_C15")
    unit, proc, drv = build(ctx)
    info = get_info(unit)
    n = 500 if not ctx.thorough else 6000
    corpus = []
    cp = os.path.join(vlib.VERIF, "corpus", "C15", "cases.txt")
    if os.path.exists(cp):
        for l in open(cp):
            l = l.strip()
            if l and not l.startswith("#"):
                corpus.append(l.replace("@NCPU", str(info["ncpu"])).replace("@DSTACK", str(info["dstack"]))
                              .replace("@DGUARD", str(info["dguard"])).replace("@DBIND", str(info["dbind"]))
                              .replace("@DCF", str(info["dcf"])).replace("@CAP", str(info["cap"])))
    gen, kinds = gen_unit_cases(ctx, info, n)
    cases = corpus + gen
    kinds["corpus"] = {"cases": len(corpus)}
    failing, diffs, impl, model = judge_unit(ctx, cases, unit, drv, info)
    ctx.cov["correspondence"] = {"unit_cases": len(cases), "unit_disagreements": len(diffs), "unit_oracle_failures": len(failing),
                                 "unit_input_distribution": kinds, "unit_result_distribution": result_dist(impl),
                                 "platform": info}
    for i in (0, len(corpus), len(cases) // 2, len(cases) - 1):
        if i < len(cases):
            ctx.cov["samples"].append({"case": cases[i], "impl": impl[i] if i < len(impl) else None,
                                       "model": model[i] if i < len(model) else None})
    # ---- process level ----
    pfail, pdiff, pstat = process_level(ctx, proc, drv, info)
    ctx.cov["correspondence"].update(pstat)
    ctx.cov["trusted_base"] += [
        "extraction: ExtrOcamlBasic only; ocaml/driver_C15.ml, ocaml/zio.ml",
        "harness/c15_unit.c (#includes src/myth_bind_worker.c and src/myth_init_func.h of the current tree; one forked child per case; "
        "diagnostics captured from stderr and reduced to message id / ok_pos / i)",
        "harness/c15_proc.c (public API only; OS thread count from /proc/self/task; worker affinity by sched_getaffinity inside user threads)",
        "modelled, not verified: glibc atoi = (int)strtol (checked by the atoi cases), isdigit/isspace of the C locale, 32-bit wrap of signed "
        "overflow in the -O0 build, getenv/setenv, sysconf and sched_getaffinity (oracle arguments), the start-up barriers that make "
        "really-init atomic for the callers, pthread_create/join, the run queues used by the migration loop",
        "python reference notions in tools/props/c15.py (py_atoi, py_cpulist, py_table) are the oracle, independent of the Coq model"]
    # ---- verdicts ----
    if failing:
        c, o, msg = failing[0]
        ctx.violation("oracle", msg + " -- input " + describe(c),
                      {"level": "unit", "case": c, "observed": o, "expected": "see property C15: " + msg,
                       "all_failing": [(a, b, m) for a, b, m in failing[:20]]}, found=True)
    if pfail:
        sc, rc, out, err, msg = pfail[0]
        ctx.violation("oracle", msg + " -- " + describe_sc(sc),
                      {"level": "process", "scenario": sc, "exit": rc, "observed": out[-3000:], "stderr": err[-1500:],
                       "expected": "see property C15: " + msg, "failing_scenarios": len(pfail)}, found=True)
    if diffs and not failing:
        found = search_unit(ctx, [d[1] for d in diffs[:5]], unit, info)
        i, c, a, b = diffs[0]
        if found:
            c2, o2, msg = found
            ctx.violation("oracle", msg + " -- input " + describe(c2) + " (found by searching around a model/implementation disagreement)",
                          {"level": "unit", "case": c2, "observed": o2, "expected": "see property C15: " + msg,
                           "disagreement": {"case": c, "impl": a, "model": b}}, found=True)
        else:
            ctx.violation("correspondence", "model and implementation disagree on %d unit case(s); first: %s" % (len(diffs), describe(c)),
                          {"theorem_or_correspondence": "correspondence Init/EnvModel.v, Init/CpuListModel.v <-> src/myth_init_func.h, src/myth_bind_worker.c",
                           "level": "unit", "case": c, "observed": a, "expected": b, "all": diffs[:20]}, found=False)
    if pdiff and not pfail:
        sc, a, b = pdiff[0]
        ctx.violation("correspondence", "protocol model and library disagree on %d history(ies); first: %s" % (len(pdiff), describe_sc(sc)),
                      {"theorem_or_correspondence": "correspondence Init/InitProtoModel.v <-> src/myth_init.c", "level": "process",
                       "scenario": sc, "observed": a, "expected": b}, found=False)
    if broken:
        ctx.violation("proof", "theorem(s) no longer check: " + ", ".join(broken),
                      {"theorem_or_correspondence": ", ".join(broken), "log": getattr(ctx, "proof_log", log[-3000:])}, found=False)
    return ctx.finish(assumptions=[
        "glibc atoi (saturating strtol, then truncation to int); C-locale isspace/isdigit",
        "signed int overflow in the parser wraps (the -O0 build); the functional theorem carries the no-overflow guard",
        "CPU count (sysconf) positive and the affinity mask are oracle arguments; at most N_MAX_CPUS online CPUs",
        "usage contract of the protocol model: finalisation is called by the main thread while no other caller is inside the library; "
        "attribute setters on the library's own attribute only while uninitialised",
        "worker start-up (pthread_create, the start-up barriers) makes the real initialisation atomic for its callers"])


def result_dist(lines):
    d = {}
    for l in lines:
        w = l.split()
        k = " ".join(w[:2]) if w and w[0] == "err" else (w[0] if w else "<none>")
        d[k] = d.get(k, 0) + 1
    return d


def describe(case):
    w = case.split()
    for i, t in enumerate(w):
        if t.startswith("h:"):
            w[i] = repr(bytes.fromhex(t[2:]))[1:]
    return " ".join(w)[:300]


def describe_sc(sc):
    if sc.get("first"):
        return "first library call of the process is %s, under %s" % (
            sc["first"], " ".join("%s=%r" % (k, bytes.fromhex(v)) for k, v in sorted(sc["env"].items())) or "an empty environment")
    if sc.get("race"):
        return "race: %d native threads call myth_init() concurrently, %d epochs, MYTH_NUM_WORKERS=%d" % (sc["K"], sc["C"], sc["nw"])
    return "history %s under %s" % (sc["spec"], " ".join("%s=%r" % (k, bytes.fromhex(v)) for k, v in sorted(sc["env"].items())) or "an empty environment")


def judge_unit(ctx, cases, unit, drv, info):
    impl, rc1, raw1 = vlib.run_lines([unit], cases, timeout=900)
    model, rc2, raw2 = vlib.run_lines([drv], cases, timeout=900)
    diffs = vlib.diff_lines(cases, impl, model)
    failing = []
    for i, c in enumerate(cases):
        o = impl[i] if i < len(impl) else ""
        msg = unit_oracle(c, o, info)
        if msg:
            failing.append((c, o, msg))
    return failing, diffs, impl, model


def search_unit(ctx, seeds, unit, info):
    cand = []
    for c in seeds:
        cand += neighbours(c, ctx.rng)
    extra, _ = gen_unit_cases(ctx, info, 300)
    cand += extra
    if not cand:
        return None
    impl, rc, raw = vlib.run_lines([unit], cand, timeout=900)
    for i, c in enumerate(cand):
        msg = unit_oracle(c, impl[i] if i < len(impl) else "", info)
        if msg:
            return (c, impl[i] if i < len(impl) else "", msg)
    return None


def base_env(sc):
    env = {k: v for k, v in os.environ.items() if not k.startswith("MYTH_")}
    envb = {k.encode(): v.encode() for k, v in env.items()}
    for k, v in sc["env"].items():
        envb[k.encode()] = bytes.fromhex(v)
    return envb


def process_level(ctx, proc, drv, info):
    r = ctx.rng
    nsc = 70 if not ctx.thorough else 600
    maxc = 4 if not ctx.thorough else 8
    scs = []
    cp = os.path.join(vlib.VERIF, "corpus", "C15", "scenarios.json")
    if os.path.exists(cp):
        scs += json.load(open(cp))
    ncorpus = len(scs)
    for _ in range(nsc):
        scs.append(gen_scenario(ctx, maxc))
    # concurrent first use (binding off: the harness threads spin, and a pinned winner would share one cpu with them)
    rsc = []
    nr = 4 if not ctx.thorough else 16
    for i in range(nr):
        K, nw = r.choice([2, 3, 4, 6]), r.choice([1, 2, 2, 3])
        C = 100 if not ctx.thorough else 150
        rsc.append({"race": True, "K": K, "C": C, "nw": nw,
                    "env": {"MYTH_NUM_WORKERS": str(nw).encode().hex(), "MYTH_CPU_LIST": b"x".hex(), "MYTH_BIND_WORKERS": b"0".hex()}})
    # implicit initialisation by whatever call comes first
    fsc = []
    for w in FIRST_CALLS:
        for kind, v in (FIRST_NW if ctx.thorough else [r.choice(FIRST_NW)]):
            fsc.append({"first": w, "env": ({"MYTH_NUM_WORKERS": v.hex()} if v is not None else {}), "kinds": {"first-use": w}})
    t0 = time.time()

    def one(sc):
        if sc.get("first"):
            return run_proc([proc, "first", sc["first"]], base_env(sc), 40)
        if sc.get("race"):
            return run_proc([proc, "race", str(sc["K"]), str(sc["C"])], base_env(sc), 90)
        return run_proc([proc, "hist", sc["spec"]], base_env(sc), 40)
    from concurrent.futures import ThreadPoolExecutor
    with ThreadPoolExecutor(max_workers=4) as ex:
        runs = list(ex.map(one, scs + rsc + fsc))
    pfail, pdiff = [], []
    kinds, results = {}, {"ok": 0}
    migrated = cycles = 0
    protos, outs = [], []
    for sc, (rc, out, err) in zip(scs, runs):
        for name, k in sc.get("kinds", {}).items():
            kinds.setdefault(name, {})
            kinds[name][k] = kinds[name].get(k, 0) + 1
        msg = hist_oracle(sc, info, rc, out, err)
        cycles += len(sc["spec"].split(","))
        migrated += len([1 for l in out.split("\n") if re.search(r" mig=[1-9]", l)])
        if msg:
            pfail.append((sc, rc, out, err, msg))
            results["fail"] = results.get("fail", 0) + 1
        else:
            results["ok"] += 1
        env = {k: bytes.fromhex(v) for k, v in sc["env"].items()}
        e1, e2 = env.get("MYTH_NUM_WORKERS"), env.get("MYTH_WORKER_NUM")
        protos.append(proto_case(sc, info, impl_envnw(drv, info, e1, e2)))
        outs.append(canon_hist(out))
    mlines, _, _ = vlib.run_lines([drv], protos, timeout=300)
    for i, sc in enumerate(scs):
        b = canon_model(mlines[i]) if i < len(mlines) else "<no output>"
        if outs[i] != b:
            pdiff.append((sc, outs[i], b))
    races = []
    for sc, (rc, out, err) in zip(rsc, runs[len(scs):len(scs) + len(rsc)]):
        msg = race_oracle(rc, out, err, sc["K"], sc["C"], sc["nw"])
        races.append({"K": sc["K"], "C": sc["C"], "nw": sc["nw"], "ok": msg is None})
        if msg:
            pfail.append((sc, rc, out, err, msg))
    first_ok = 0
    for sc, (rc, out, err) in zip(fsc, runs[len(scs) + len(rsc):]):
        msg = first_oracle(sc, info, rc, out, err)
        if msg:
            pfail.append((sc, rc, out, err, msg))
        else:
            first_ok += 1
    stat = {"first_use_runs": len(fsc), "first_use_ok": first_ok, "first_use_calls": FIRST_CALLS, "process_scenarios": len(scs), "process_corpus": ncorpus, "process_cycles": cycles, "process_cycles_main_migrated": migrated,
            "process_env_distribution": kinds, "process_results": results, "process_model_disagreements": len(pdiff),
            "race_runs": races, "process_wall_s": round(time.time() - t0, 1)}
    if scs:
        ctx.cov["samples"].append({"scenario": scs[-1], "model": mlines[-1] if mlines else None, "impl": outs[-1]})
    return pfail, pdiff, stat


_envnw_cache = {}


def impl_envnw(drv, info, e1, e2):
    """n_workers that the MODEL's globalattr_init computes for this environment (argument d of OpInit)"""
    key = (e1, e2)
    if key not in _envnw_cache:
        l, _, _ = vlib.run_lines([drv], ["dflt nw %d %s %s" % (info["ncpu"], hx(e1), hx(e2))])
        v = int(l[0].split()[1])
        _envnw_cache[key] = (v + I31) % I32 - I31
    return _envnw_cache[key]


def replay(ctx, path):
    body = json.load(open(path))
    unit, proc, drv = build(ctx)
    info = get_info(unit)
    if body.get("level") == "process" or "scenario" in body:
        sc = body["scenario"]
        if sc.get("first"):
            rc, out, err = run_proc([proc, "first", sc["first"]], base_env(sc), 40)
            print("scenario:", describe_sc(sc))
            print("exit:", rc)
            print("impl:", out.strip(), "| stderr:", err.strip()[-300:])
            print("oracle:", first_oracle(sc, info, rc, out, err))
            return 0
        if sc.get("race"):
            rc, out, err = run_proc([proc, "race", str(sc["K"]), str(sc["C"])], base_env(sc), 60)
            print("scenario:", describe_sc(sc))
            print("exit:", rc)
            print("impl (last lines):", "\n".join(out.strip().split("\n")[-3:]))
            print("oracle:", race_oracle(rc, out, err, sc["K"], sc["C"], sc["nw"]))
            return 0
        rc, out, err = run_proc([proc, "hist", sc["spec"]], base_env(sc), 30)
        env = {k: bytes.fromhex(v) for k, v in sc["env"].items()}
        pc = proto_case(sc, info, impl_envnw(drv, info, env.get("MYTH_NUM_WORKERS"), env.get("MYTH_WORKER_NUM")))
        ml, _, _ = vlib.run_lines([drv], [pc])
        print("scenario:", describe_sc(sc))
        print("exit:", rc)
        print("impl:\n" + out)
        print("impl canonical: ", canon_hist(out))
        print("model canonical:", canon_model(ml[0]) if ml else None)
        print("oracle:", hist_oracle(sc, info, rc, out, err))
        return 0
    for c in [body["case"]] if "case" in body else []:
        impl, _, _ = vlib.run_lines([unit], [c])
        model, _, _ = vlib.run_lines([drv], [c])
        print("case:  ", c, "  =", describe(c))
        print("impl:  ", impl[0] if impl else None)
        print("model: ", model[0] if model else None)
        print("oracle:", unit_oracle(c, impl[0] if impl else "", info))
    return 0
