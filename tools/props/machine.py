"""Whole-machine lock-step (scheduler-level abstract machine, coq/Machine): proves Properties_Machine.v and
replays controlled runs of the real library through the extracted machine (cur / run queues compared at
every trace line, every move must be enabled).  Not a property of its own: `attach(ctx, n)` is called by the
checks of C01, C02, C04 and C12 whose whole-library halves rest on it; `./check MACHINE` runs it alone."""
import os
import vlib, trace
import machine_common as mc


def gen_program(r, max_threads=10):
    """random fork-join program: spawn tree, both creation orders, detached leaves, yields with every
    option, a mutex-protected counter, trylock; deadlock-free by construction; returns (threads, adds)"""
    threads = {0: []}
    adds = [0]
    next_tag = [1]

    def body(tag, depth):
        ops = []

        def filler(n):
            for _ in range(n):
                k = r.below(7)
                if k == 6:
                    # work-stealing API from a user thread: pop the own top and pass it to some worker
                    # ("passed to another worker" of C02); usually right after a parent-first creation
                    ops.append("poppass %d" % r.below(4))
                elif k == 0:
                    ops.append("yield")
                elif k == 1:
                    ops.append("yield %d" % r.below(5))
                elif k == 2:
                    ops.extend(["lock m0", "add x0 1", "unlock m0"])
                    adds[0] += 1
                elif k == 3:
                    ops.extend(["trylock m0", "yield", "unlockif m0"])
                elif k == 4:
                    ops.extend(["lock m0", "yield %d" % r.below(5), "add x0 1", "unlock m0"])
                    adds[0] += 1
                else:
                    ops.append("nop")
        filler(r.below(3))
        kids = []
        if depth < 3:
            for _ in range(r.below(4 if depth == 0 else 3)):
                if next_tag[0] >= max_threads:
                    break
                c = next_tag[0]
                next_tag[0] += 1
                det = depth >= 1 and r.chance(1, 5)
                flags = (" pf" if r.chance(1, 3) else "") + (" det" if det else "")
                if r.chance(1, 8):
                    flags += " ss=%d" % r.choice([16384, 65536, 131072])
                ops.append("create %d%s" % (c, flags))
                threads[c] = None
                if not det:
                    kids.append(c)
                filler(r.below(2))
        r.shuffle(kids)
        for c in kids:
            filler(r.below(2))
            ops.append(r.choice(["join %d" % c, "join %d" % c, "join %d" % c]))
        filler(r.below(2))
        if tag != 0 and r.chance(1, 6):
            ops.append("exit %d" % (500 + tag))
        threads[tag] = ops
        # children bodies (detached children have no children of their own so that main can finish safely)
        for c in [int(o.split()[1]) for o in ops if o.startswith("create ")]:
            body(c, depth + 1 if " det" not in [o for o in ops if o.startswith("create %d" % c)][0] else 3)
    body(0, 0)
    return threads, adds[0]


def gen_pass_program(r):
    """the situation of the repaired defect 946f4d6 and its neighbours: a thread handed to ANOTHER worker's run queue
    with the work-stealing API while threads on that worker are about to finish / yield / block / join, so that the
    passed thread is dispatched by every dispatch path of the target worker (thread exit, yield, block, scheduler)"""
    threads = {0: []}
    nlong = 1 + r.below(2)
    ops = []
    tag = 1
    longs = []
    for _ in range(nlong):                       # long-running children: they run first (child-first), main is stolen
        body = []
        for _ in range(2 + r.below(6)):
            body.append(r.choice(["nop", "nop", "yield", "lock m0 ; add x0 1 ; unlock m0"]))
        threads[tag] = [o for b in body for o in b.split(" ; ")]
        ops.append("create %d" % tag)
        longs.append(tag)
        tag += 1
    adds = sum(1 for t in longs for o in threads[t] if o.startswith("add"))
    short = []
    for _ in range(1 + r.below(3)):              # short children created parent-first, then popped and passed
        threads[tag] = [r.choice(["nop", "yield", "nop ; nop"])] if r.chance(2, 3) else []
        threads[tag] = [o for b in threads[tag] for o in b.split(" ; ")]
        ops.append("create %d pf" % tag)
        ops.append("poppass %d" % r.below(4))
        for _ in range(r.below(3)):
            ops.append("nop")
        short.append(tag)
        tag += 1
    js = longs + short
    r.shuffle(js)
    ops += ["join %d" % t for t in js]
    threads[0] = ops
    return threads, adds


def gen_cases(ctx, n):
    r = ctx.rng
    cases = []
    for i in range(n):
        if i % 3 == 2:
            threads, adds = gen_pass_program(r)
            cases.append((trace.case_text(r.choice([2, 2, 3, 4]), r.next() % 1000000 + 1, ["m0 mutex", "x0 var 0"], threads,
                                          pswitch=r.choice([20, 35, 60, 85]), extra={"msnap": "1"}), adds))
            continue
        threads, adds = gen_program(r)
        nw = r.choice([1, 2, 2, 3, 4])
        ps = r.choice([20, 35, 60, 85])
        cases.append((trace.case_text(nw, r.next() % 1000000 + 1, ["m0 mutex", "x0 var 0"], threads, pswitch=ps,
                                      extra={"msnap": "1"}), adds))
    return cases


def attach(ctx, n_cases=40, prove=True):
    """run the machine tie inside another property's check; returns summary dict"""
    broken = []
    if prove:
        ok, log = vlib.coq_make(["Properties_Machine.vo"])
        names = vlib.theorems_in("Properties_Machine.v")
        pa = vlib.print_assumptions("Properties_Machine", names, os.path.join(ctx.dir, "pa_machine")) if ok else {}
        stm = vlib.theorem_statements("Properties_Machine.v")
        for nme in names:
            a = pa.get(nme)
            ctx.cov["theorems"][nme] = {"statement": stm.get(nme, "")[:600], "status": "checked" if a is not None else "FAILED",
                                        "assumptions": a}
            ctx.cov["obligations"] += 1
            if a is not None:
                ctx.cov["discharged"] += 1
            else:
                broken.append(nme)
        bad = vlib.coq_hygiene(["Properties_Machine.v"])
        if bad:
            ctx.violation("hygiene", "forbidden tokens in the machine development: " + "; ".join(bad[:10]),
                          {"theorem_or_correspondence": "coq hygiene (machine)", "tokens": bad}, found=False)
    exe = trace.build_interp()
    drv = mc.build_driver()
    cases = gen_cases(ctx, n_cases)
    wd = os.path.join(ctx.dir, "machine_runs")
    moves = snaps = 0
    fails, oracle_fails = [], []
    verdicts = {}
    kinds = {}
    for i, (c, adds) in enumerate(cases):
        r = trace.run_case(exe, c, wd, "m%04d" % i, timeout=60)
        v = (r["verdict"] or "NONE rc=%s %s" % (r["rc"], r["out"][-200:])).split()[0]
        verdicts[v] = verdicts.get(v, 0) + 1
        b = mc.machine_block(c, r["trace_text"])
        for l in b[0]:
            w = l.split()
            if w and w[0] in ("move", "autopop", "stealfind", "passhand"):
                k = w[2] if w[0] == "move" else w[0] if not (w[0] == "passhand" and w[3] == "-") else "passhand(nothing popped)"
                kinds[k] = kinds.get(k, 0) + 1
        res = mc.validate(drv, [b])[0]
        o = mc.oracle_single_place(r["trace_text"])
        # final counter: the last `get`-free way is the var.read events; use lost-update detection
        if v != "DONE":
            oracle_fails.append((c, "run did not complete: %s" % (r["verdict"] or r["out"][-300:])))
        if o:
            oracle_fails.append((c, o))
        if res.startswith("ok"):
            w = res.split()
            moves += int(w[1])
            snaps += int(w[2])
        else:
            k = int(res.split()[1])
            fails.append((c, res, b[0][max(0, k - 8):k + 1]))
    # ---- steal-victim selection of the default steal function (the controlled runs above install the
    # harness' own steal function, so the library's victim choice is tied separately, at unit level)
    vfail, vdis, vlines = victim_tie(ctx, drv)
    summ = {"victim_draws_compared": vlines, "victim_disagreements": vdis, "victim_oracle_failures": len(vfail),
            "machine_cases": len(cases), "machine_moves_replayed": moves, "machine_snapshots_compared": snaps,
            "machine_disagreements": len(fails), "machine_oracle_failures": len(oracle_fails), "machine_verdicts": verdicts,
            "machine_directives_by_kind": kinds, "run_queue_capacity_in_force": queue_capacity()}
    ctx.cov.setdefault("correspondence", {})["machine"] = summ
    ctx.cov["trusted_base"] += ["whole-machine tie: harness/lib_interp.c machine snapshots (msnap), tools/machine_common.py (moves read off "
                                "the trace), ocaml/driver_Machine.ml, extraction of coq/Machine/MachineModel.v (ExtrOcamlBasic only)"]
    if vfail:
        ctx.violation("victim-oracle", vfail[0], {"case": "victim_unit", "observed": vfail[:5], "level": "unit",
                                                   "expected": "every victim is another valid worker and every other worker is chosen"}, found=True)
    elif vdis:
        ctx.violation("victim-correspondence", "steal-victim selection differs from the model on %d draw(s)" % vdis,
                      {"theorem_or_correspondence": "correspondence coq/Machine/VictimModel.v <-> myth_env_get_first_busy"}, found=False)
    if oracle_fails:
        c, msg = oracle_fails[0]
        ctx.violation("machine-oracle", msg, {"case": c, "observed": msg, "expected": "every thread in at most one place; run completes",
                                              "level": "library"}, found=True)
    elif fails:
        c, res, tail = fails[0]
        ctx.violation("machine-correspondence", "scheduler-level machine and library disagree: " + res,
                      {"theorem_or_correspondence": "correspondence coq/Machine/MachineModel.v <-> scheduler (src/myth_sched_func.h, "
                       "src/myth_worker_func.h, src/myth_sync_func.h block/wake helpers)", "case": c, "observed": res,
                       "model_input_tail": tail}, found=False)
    if broken:
        ctx.violation("proof", "machine theorem(s) no longer check: " + ", ".join(broken),
                      {"theorem_or_correspondence": ", ".join(broken)}, found=False)
    return summ


def queue_capacity():
    """INITIAL_QUEUE_SIZE of the tree under check (the fixed length of every run queue; no property promises a
    capacity, the evidence records the one in force)"""
    import re
    try:
        t = open(os.path.join(vlib.REPO, "src", "myth_config.h"), errors="replace").read()
        m = re.search(r"#define\s+INITIAL_QUEUE_SIZE\s+(\S+)", t)
        return m.group(1) if m else "?"
    except OSError:
        return "?"


def victim_tie(ctx, drv):
    """real myth_env_get_first_busy vs the extracted model, plus the property stated directly: the victim is a
    valid worker other than the thief, and with enough draws every other worker is chosen"""
    lib = vlib.build_lib()
    exe = vlib.cc(os.path.join(ctx.dir, "victim_unit"), [os.path.join(vlib.VERIF, "harness", "victim_unit.c")],
                  flags=vlib.lib_cflags() + ["-O0", "-g"], libs=[lib, "-lpthread", "-ldl", "-lrt"])
    fails, dis, total = [], 0, 0
    for n in (1, 2, 3, 4, 7):
        rc, out = vlib.sh([exe, str(n), str(60 * n)], timeout=60)
        lines = [l for l in out.split("\n") if l.startswith("v ")]
        if rc != 0 or not lines:
            fails.append("victim_unit %d did not run (rc=%s): %s" % (n, rc, out[-200:]))
            continue
        rc2, mout = vlib.sh([drv], input="\n".join(lines) + "\n", timeout=60)
        mlines = [l for l in mout.split("\n") if l.startswith("v ")]
        total += len(lines)
        dis += sum(1 for a, b in zip(lines, mlines) if a != b) + abs(len(lines) - len(mlines))
        seen = {}
        for l in lines:
            _, nn, rank, r, v = l.split()
            nn, rank, v = int(nn), int(rank), int(v)
            if nn <= 1:
                if v != -1:
                    fails.append("a single worker chose a victim: " + l)
                continue
            if not (0 <= v < nn) or v == rank:
                fails.append("victim is not another valid worker: " + l)
            seen.setdefault(rank, set()).add(v)
        if n >= 2:
            for rank in range(n):
                missing = set(range(n)) - {rank} - seen.get(rank, set())
                if missing:
                    fails.append("worker %d of %d never chooses worker(s) %s as steal victim in %d draws" % (rank, n, sorted(missing), 60 * n))
    return fails, dis, total


def run(ctx):
    attach(ctx, 60 if not ctx.thorough else 600)
    ctx.cov["checker_cmd"] = "cd /verif/coq && make Properties_Machine.vo"
    return ctx.finish(assumptions=["one deque operation is one atomic machine move (justified by C02)"])


def replay(ctx, path):
    import json
    body = json.load(open(path))
    exe = trace.build_interp()
    drv = mc.build_driver()
    r = trace.run_case(exe, body["case"], os.path.join(ctx.dir, "replay"), "r")
    b = mc.machine_block(body["case"], r["trace_text"])
    print(r["verdict"], mc.validate(drv, [b])[0], mc.oracle_single_place(r["trace_text"]))
    return 0
