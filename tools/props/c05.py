"""C05 - condition variables: atomic release-and-wait, signal and broadcast reach waiters
(DESIGN.md section 4, C05).

Proof side: coq/Sync/SyncModel.v (shared model), coq/Sync/CondBase.v, CondInv.v (inductive invariants),
CondTrace.v (runs as traces), CondProofs.v, coq/Properties_C05.v.
Tie: generated programs that are deadlock-free by construction and whose outcome is determinate iff no
wake-up is lost (bounded buffer, turnstile, gate opened by a broadcast, ping-pong, hand-off, each optionally
with spurious signallers that do not hold the mutex; gates whose ONE broadcast sees 8 / 33 / 130 / 300 waiters;
signal storms of k signals against m queued waiters followed by late waiters; object lifecycle: 2-3 incarnations
of one condition variable through myth_cond_destroy / myth_cond_init with NULL or an initialised attribute)
run on the real library under the schedule controller
(harness/lib_interp.c); every trace is
 (1) replayed through the extracted model (tools/props/sync_common.py), and
 (2) judged by an independent oracle of the property itself (oracle() below): verdict, occupancy at every
     cond_wait return, final counters, enqueue-before-release inside every cond-wait callback, signal /
     broadcast semantics on the queue snapshots, and the causality rule: every cond_wait return is caused by
     exactly one push naming that thread after that wait's enqueue; every push names the thread its signaller
     has just dequeued; the queue contents are exactly what the enqueue / dequeue steps imply (no banked
     signal, nobody vanishes from the queue)."""
import os, re, json, shutil
import vlib, trace
from props import sync_common

# POINT ids of the routines of this property; the pair (id, context) matters: the unlock micro-program must
# be seen in CALLBACK context (cond_wait's release), wakeany.* in main context
CB_POINTS = ["blockq.enq@cond", "mutex.unlock.read@cb", "mutex.unlock.cas1@cb", "mutex.unlock.cas2@cb",
             "wake1.deq@cb", "mutex.clearbit@cb", "wake1.push@cb"]
MAIN_POINTS = ["wakeany.deq", "wakeany.push", "wakeany.deq@empty", "wakeany.deq@nonempty"]
SITUATIONS = ["woken_while_callback_unlocking", "two_callbacks_in_flight", "bcast_multi", "rewait",
              "cwait_resumed_on_other_worker", "cwait_returns_multiworker", "signal_multi_wake",
              "storm_runs", "storm_exact", "banked_phase_waits",
              "reinit_attr", "reinit_noattr", "reinit_while_released_not_resumed", "incarnations_judged",
              "cdestroy_calls"]
MAXSTATS = ["max_bcast_waiters"]          # aggregated by max, not by sum


# --------------------------------------------------------------------------------------------------
# generators (everything from ctx.rng)
# --------------------------------------------------------------------------------------------------

def _spurious(rng, threads, conds, N, tag):
    """an extra thread that signals / broadcasts without holding the mutex: harmless for programs whose
    waiters re-check their predicate, and it produces the overlap 'woken while the callback is unlocking'"""
    ops = []
    for _ in range(rng.rng(2, 5)):
        ops.append("%s %s" % (rng.choice(["signal", "signal", "bcast"]), rng.choice(conds)))
        if rng.chance(1, 4):
            ops.append("yield")
    threads[tag] = ops


def gen_buffer(rng, N):
    """bounded buffer: producers and consumers, capacity K, conditions nf (not full) / ne (not empty)"""
    K = rng.rng(1, 2)
    nprod = rng.rng(1, max(1, (N - 1) // 2))
    ncons = rng.rng(1, max(1, N - 1 - nprod))
    # split `total` items among producers and among consumers
    total = max(nprod, ncons) * rng.rng(1, 2)
    def split(n, k):
        base, rem = divmod(n, k)
        return [base + (1 if i < rem else 0) for i in range(k)]
    pq, cq = split(total, nprod), split(total, ncons)
    objs = ["m mutex", "nf cond", "ne cond", "n var 0", "done var 0"]
    threads = {}
    tag = 1
    for q in pq:
        ops = []
        for _ in range(q):
            ops += ["lock m", "await nf m n lt %d" % K, "add n 1", "signal ne", "unlock m"]
            if rng.chance(1, 4):
                ops.append("yield")
        threads[tag] = ops
        tag += 1
    for q in cq:
        ops = []
        for _ in range(q):
            ops += ["lock m", "await ne m n gt 0", "add n -1", "add done 1", "signal nf", "unlock m"]
        threads[tag] = ops
        tag += 1
    return objs, threads, {"n": 0, "done": total}, ["nf", "ne"]


def gen_turnstile(rng, N):
    """threads pass in tag order: one condition, different predicates, broadcast"""
    k = rng.rng(2, max(2, min(4, N - 1)))
    objs = ["m mutex", "c cond", "turn var 0"]
    threads = {}
    order = list(range(k))
    rng.shuffle(order)
    for i, t in enumerate(range(1, k + 1)):
        threads[t] = ["lock m", "await c m turn eq %d" % order[i], "add turn 1", "bcast c", "unlock m"]
    return objs, threads, {"turn": k}, ["c"]


def gen_gate(rng, N):
    """waiters block until `open`; the opener sets it under the mutex and broadcasts - inside the critical
    section or AFTER leaving it (then only the atomic release-and-wait protects the waiters)"""
    k = rng.rng(1, max(1, min(4, N - 2)))
    objs = ["m mutex", "g cond", "open var 0", "cnt var 0"]
    threads = {}
    for t in range(1, k + 1):
        threads[t] = ["lock m", "await g m open eq 1", "add cnt 1", "unlock m"]
    opener = k + 1
    pre = ["yield"] * rng.rng(0, 2)
    if rng.chance(1, 2):
        threads[opener] = pre + ["lock m", "set open 1", "bcast g", "unlock m"]
    else:
        threads[opener] = pre + ["lock m", "set open 1", "unlock m", "bcast g"]
    return objs, threads, {"cnt": k, "open": 1}, ["g"]


def gen_pingpong(rng, N):
    R = rng.rng(1, 3)
    objs = ["m mutex", "c cond", "ball var 0", "hits var 0"]
    a, b = [], []
    for _ in range(R):
        a += ["lock m", "await c m ball eq 0", "set ball 1", "add hits 1", "signal c", "unlock m"]
        b += ["lock m", "await c m ball eq 1", "set ball 0", "add hits 1", "signal c", "unlock m"]
    return objs, {1: a, 2: b}, {"ball": 0, "hits": 2 * R}, ["c"]


def gen_handoff(rng, N):
    """one waiter per signal: k waiters each wait for their own token on ONE condition with signal (not
    broadcast) chained: whoever is woken with a false predicate passes the signal on"""
    k = rng.rng(1, max(1, min(3, N - 2)))
    objs = ["m mutex", "c cond", "tok var 0", "got var 0"]
    threads = {}
    for t in range(1, k + 1):
        threads[t] = ["lock m", "await c m tok gt 0", "add tok -1", "add got 1", "unlock m"]
    giver = k + 1
    ops = []
    for _ in range(k):
        ops += ["lock m", "add tok 1", "signal c", "unlock m"]
    threads[giver] = ops
    return objs, threads, {"tok": 0, "got": k}, ["c"]


def gen_biggate(rng, N, K=None):
    """K waiters announce themselves (ready++, signal r) under the mutex and wait for `open`; the opener first
    waits until all K have announced - they are then all IN the condition queue (enqueue precedes release) -
    and only then opens the gate with ONE broadcast that sees K waiters at once"""
    K = K or rng.choice([8, 33])
    objs = ["m mutex", "g cond", "r cond", "open var 0", "cnt var 0", "ready var 0"]
    threads = {}
    for t in range(1, K + 1):
        threads[t] = ["lock m", "add ready 1", "signal r", "await g m open eq 1", "add cnt 1", "unlock m"]
    tail = ["set open 1", "bcast g", "unlock m"] if rng.chance(1, 2) else ["set open 1", "unlock m", "bcast g"]
    threads[K + 1] = ["lock m", "await r m ready ge %d" % K] + tail
    return objs, threads, {"cnt": K, "open": 1, "ready": K}, ["g"]


def gen_storm(rng, N, k=None, m=None):
    """signal storm: m waiters (raw cond_wait, no predicate loop) are all in the queue of c before the first of
    k signals is issued; exactly min(k, m) of them are released by the signals (at least one per signal that
    finds a waiter - the property's wording - and never more pushes than dequeued heads), the k - m signals
    that find the queue empty have no effect: the late waiters that arrive afterwards (predicate `fin`) are
    released by nothing but the final broadcast, which also releases the m - k left over"""
    m = m or rng.rng(1, 6)
    k = k if k is not None else rng.choice([max(0, m - rng.rng(1, 3)), m, m + rng.rng(1, 3)])
    late = rng.rng(1, 2)
    objs = ["m mutex", "c cond", "r cond", "ready var 0", "out var 0", "fin var 0", "lateout var 0"]
    threads = {}
    for t in range(1, m + 1):
        threads[t] = ["lock m", "add ready 1", "signal r", "cwait c m", "add out 1", "unlock m"]
    sig = m + 1
    ops = ["lock m", "await r m ready ge %d" % m]
    inside = rng.chance(1, 2)
    if not inside:
        ops.append("unlock m")
    ops += ["signal c"] * k
    if inside:
        ops.append("unlock m")
    # phase 2: the LATE waiters are created only now, after every signal of the storm has returned: a signal
    # that found the queue empty must not let one of them through (no banked signal); then release everybody
    late_tags = [sig + 1 + j for j in range(late)]
    ops += ["create %d" % t for t in late_tags]
    ops += ["yield"] * rng.rng(0, 3)
    ops += ["lock m", "set fin 1", "bcast c", "unlock m"]
    threads[sig] = ops
    for t in late_tags:
        threads[t] = ["lock m", "await c m fin eq 1", "add lateout 1", "unlock m"]
    return objs, threads, {"out": m, "fin": 1, "lateout": late, "ready": m}, ["c"], {"late": late_tags}


def gen_lifecycle(rng, N):
    """object lifecycle: 2-3 incarnations of ONE condition variable g.  A controller thread L runs each incarnation
    as a gate whose waiters are started first (they announce themselves, so that they are all in the queue), opens
    it with a broadcast, and - the queue being empty again, the released waiters possibly not yet resumed (surely
    not when L still holds the mutex) - destroys g and re-initialises it with attr == NULL or an initialised
    myth_condattr_t, on overwritten memory; the next incarnation's waiters are created only after that.  The last
    incarnation is a gate or a hand-off (tokens, signal).  Optionally main destroys + re-initialises g before
    anything starts (first incarnation through an explicit init, too)."""
    ninc = rng.rng(2, 3)
    K1 = rng.rng(1, 4)
    objs = ["m mutex", "g cond", "r cond"]
    threads, expect = {}, {}
    L = 1
    ops, tag, pre = [], 2, []
    if rng.chance(1, 2):
        pre = ["cdestroy g", "cinit g%s dirty" % rng.choice(["", " attr"])]
    for i in range(ninc):
        last = (i == ninc - 1)
        K = K1 if rng.chance(2, 3) else rng.rng(1, 4)          # often as many waiters as were released before
        kind = "handoff" if last and rng.chance(1, 3) else "gate"
        objs += ["rdy%d var 0" % i, "cnt%d var 0" % i, ("tok%d var 0" if kind == "handoff" else "open%d var 0") % i]
        ws = list(range(tag, tag + K))
        tag += K
        for t in ws:
            if kind == "gate":
                threads[t] = ["lock m", "add rdy%d 1" % i, "signal r", "await g m open%d eq 1" % i,
                              "add cnt%d 1" % i, "unlock m"]
            else:
                threads[t] = ["lock m", "add rdy%d 1" % i, "signal r", "await g m tok%d gt 0" % i,
                              "add tok%d -1" % i, "add cnt%d 1" % i, "unlock m"]
        ops += ["create %d" % t for t in ws]
        ops += ["lock m", "await r m rdy%d ge %d" % (i, K)]
        re_init = [] if last else ["cdestroy g", "cinit g%s dirty" % rng.choice(["", " attr"])]
        if kind == "handoff":
            ops += ["unlock m"]
            for _ in range(K):
                ops += ["lock m", "add tok%d 1" % i, "signal g", "unlock m"]
            expect["tok%d" % i] = 0
        elif rng.chance(2, 3):
            # destroy + re-init while L still holds the mutex: nobody released by the broadcast has resumed
            ops += ["set open%d 1" % i, "bcast g"] + re_init + ["unlock m"]
            expect["open%d" % i] = 1
        else:
            ops += ["set open%d 1" % i, "unlock m", "bcast g"] + re_init
            expect["open%d" % i] = 1
        expect["cnt%d" % i] = K
        expect["rdy%d" % i] = K
    threads[L] = ops
    return objs, threads, expect, ["g"], {"late": sorted(t for t in threads if t != L), "pre": pre}


FAMILIES = {"lifecycle": gen_lifecycle, "biggate": gen_biggate, "storm": gen_storm, "buffer": gen_buffer, "turnstile": gen_turnstile, "gate": gen_gate, "pingpong": gen_pingpong,
            "handoff": gen_handoff}


def gen_case(rng, kind=None, workers=None, pswitch=None, spurious=None, hold=None, **kw):
    kind = kind or rng.choice(["buffer", "buffer", "turnstile", "gate", "gate", "pingpong", "handoff",
                               "storm", "storm", "biggate", "lifecycle", "lifecycle"])
    workers = workers or rng.rng(1, 4)
    pswitch = pswitch or rng.choice([20, 35, 60, 85])
    seed = rng.rng(1, 1 << 30)
    N = rng.rng(3, 6)
    fam = FAMILIES[kind](rng, N, **kw)
    objs, threads, expect, conds = fam[:4]
    storm, late = None, []
    if kind == "storm":
        nm = expect["out"]
        late = fam[4]["late"]
        storm = {"cond": "c", "m": nm, "k": sum(1 for o in threads[nm + 1] if o == "signal c"), "late": late}
        spurious = False                  # raw cond_wait: every wake-up is counted
    pre = []
    if kind == "lifecycle":
        late, pre = fam[4]["late"], fam[4]["pre"]
        spurious = False                  # nobody may touch g between destroy and init
        if hold is None and rng.chance(1, 3):
            hold = "mutex.lock.read %d %d" % (rng.rng(3, 12), rng.choice([30, 60, 100]))
    spurious = rng.chance(2, 5) if spurious is None else spurious
    if spurious:
        _spurious(rng, threads, conds, N, max(threads) + 1)
    tags = sorted(threads)
    order = list(tags)
    rng.shuffle(order)
    main = pre + ["create %d" % t for t in order if t not in late] + ["join %d" % t for t in tags] + \
           ["get %s" % v for v in sorted(expect)]
    if kind == "lifecycle":
        main.append("cdestroy g")
    threads = dict(threads)
    threads[0] = main
    text = trace.case_text(workers, seed, objs, threads, pswitch=pswitch, extra={"hold": hold} if hold else None)
    return {"text": text, "kind": kind, "N": len(threads), "workers": workers, "pswitch": pswitch,
            "expect": expect, "spurious": bool(spurious), "storm": storm, "hold": hold}


# --------------------------------------------------------------------------------------------------
# independent oracle of the property on one trace (no model involved)
# --------------------------------------------------------------------------------------------------

_STATE = re.compile(r"state=(-?\d+)")
_Q = re.compile(r"q=\[([^\]]*)\]")


def _qlist(snap):
    m = _Q.search(snap or "")
    if not m:
        return None
    return [int(x[1:]) for x in m.group(1).split(",") if x and x[0] == "t" and x[1:].isdigit()]


def _tag(v):
    return int(v[1:]) if v and v[0] == "t" and v[1:].isdigit() else None


def analyse(case, r):
    """one pass over the trace: returns (message or None, statistics)"""
    st = {k: 0 for k in CB_POINTS + MAIN_POINTS + SITUATIONS + MAXSTATS}
    st["cwait_returns"] = 0
    nworkers = int(re.search(r"^workers (\d+)", case["text"], re.M).group(1))
    if r["verdict"] is None or r["rc"] != 0 or not r["verdict"].startswith("DONE"):
        v = r["verdict"] or "no verdict"
        what = "missed signal (lost wake-up): " if v.startswith("DEADLOCK") else ""
        return ("%srun did not complete (%s, rc=%s) %s" % (what, v[:160], r["rc"], (r.get("stderr") or "")[-160:].strip()), st)
    objs, _, _, _ = trace.parse_case(case["text"])
    kind = {n: k for n, (k, _) in objs.items()}
    calls = {}           # thread -> stack of open calls: dict(op, events=[main-context P events])
    cbinst = {}          # worker -> open callback instance dict(thread, enq=(idx, obj), clears=[idx], lines)
    open_cond_cb = {}    # thread -> number of its cond-wait callbacks that have enqueued and not yet left
    open_cb = {}         # thread -> callbacks in flight
    gets = {}
    bcasts = []          # finished broadcast calls for the membership check
    deq_log = []         # (event index, cond, head or None, thread)
    push_log = []        # (event index, cond, pushed thread, by)
    cq = {}              # cond -> its FIFO as implied by the enqueue / dequeue steps seen so far
    hand = {}            # signaller -> (cond, thread) it has dequeued and not yet pushed
    waitrec = {}         # thread -> its latest cond_wait record {cond, enq, pushed}
    sig_pushes = {}      # cond -> pushes made inside `signal` calls
    for idx, e in enumerate(r["events"]):
        T = e.actor
        if e.kind == "E" and e.words and e.words[0] == "cb.enter":
            cbinst[e.w] = {"thread": T, "enq": None, "clears": [], "n": 0}
            open_cb[T] = open_cb.get(T, 0) + 1
            if open_cb[T] >= 2:
                st["two_callbacks_in_flight"] += 1
        elif e.kind == "E" and e.words and e.words[0] == "cb.leave":
            inst = cbinst.pop(e.w, None)
            open_cb[T] = open_cb.get(T, 1) - 1
            if inst and inst["enq"] and kind.get(inst["enq"][1]) == "cond":
                open_cond_cb[T] = open_cond_cb.get(T, 1) - 1
                # (d) a cond-wait callback releases the mutex exactly once, after its enqueue
                if len(inst["clears"]) != 1:
                    return ("callback of t%d enqueued on %s and cleared the lock bit %d times" %
                            (T, inst["enq"][1], len(inst["clears"])), st)
        elif e.kind == "C":
            calls.setdefault(T, []).append({"op": e.words, "ev": [], "idx": idx, "w": e.w, "enq": None, "pushed": None,
                                            "q0": list(cq.get(e.words[1], [])) if e.words[0] in ("signal", "bcast") else None})
        elif e.kind == "P":
            pid, obj, val = e.words[0], e.words[1], e.words[2]
            s = _STATE.search(e.snap or "")
            q = _qlist(e.snap)
            if e.ctx == "c":
                inst = cbinst.get(e.w)
                if inst is None or inst["thread"] != T:
                    return ("callback-context step %s outside a callback" % e.raw[:80], st)
                if pid == "blockq.enq":
                    if kind.get(obj) == "cond":
                        st["blockq.enq@cond"] += 1
                        open_cond_cb[T] = open_cond_cb.get(T, 0) + 1
                        if inst["clears"]:
                            return ("cond_wait of t%d released the mutex BEFORE enqueuing on %s (%s)" % (T, obj, e.raw[:70]), st)
                        if q is not None and T in q:
                            return ("t%d is already in the queue of %s when its callback enqueues it" % (T, obj), st)
                        if q is not None and q != cq.get(obj, []):
                            return ("queue of %s is %s before t%d's enqueue, but the enqueues / dequeues seen so far give %s"
                                    % (obj, q, T, cq.get(obj, [])), st)
                        cq.setdefault(obj, []).append(T)
                        top = calls[T][-1] if calls.get(T) else None
                        if top is None or top["op"][0] != "cwait" or top["op"][1] != obj or top["enq"] is not None:
                            return ("t%d is enqueued on %s outside a cond_wait on it (%s)" % (T, obj, e.raw[:70]), st)
                        top["enq"] = idx
                        waitrec[T] = top
                    inst["enq"] = (idx, obj)
                elif kind.get(obj) == "mutex":
                    key = pid + "@cb"
                    if key in st:
                        st[key] += 1
                    clearing = (pid == "mutex.clearbit") or (pid == "mutex.unlock.cas1" and s and int(s.group(1)) == 1)
                    if clearing:
                        if inst["enq"] is None:
                            return ("callback of t%d clears the lock bit of %s before any enqueue (%s)" % (T, obj, e.raw[:70]), st)
                        inst["clears"].append(idx)
            else:
                if T in calls and calls[T]:
                    calls[T][-1]["ev"].append((idx, pid, obj, val, q))
                if pid == "wakeany.deq":
                    st["wakeany.deq"] += 1
                    st["wakeany.deq@empty" if not q else "wakeany.deq@nonempty"] += 1
                    deq_log.append((idx, obj, q[0] if q else None, T))
                    if kind.get(obj) == "cond":
                        if q is not None and q != cq.get(obj, []):
                            return ("queue of %s is %s at a dequeue of t%s, but the enqueues / dequeues seen so far give %s "
                                    "(a waiter vanished or appeared without an enqueue / dequeue step)" % (obj, q, T, cq.get(obj, [])), st)
                        if hand.get(T) is not None:
                            return ("t%s dequeues from %s while still holding t%d (dequeued, never pushed)" % (T, obj, hand[T][1]), st)
                        if cq.get(obj):
                            hand[T] = (obj, cq[obj].pop(0))
                elif pid == "wakeany.push":
                    st["wakeany.push"] += 1
                    x = _tag(val)
                    push_log.append((idx, obj, x, T))
                    if x is not None and open_cond_cb.get(x, 0) > 0:
                        st["woken_while_callback_unlocking"] += 1
                    if kind.get(obj) == "cond":
                        # rule 1: a push names exactly the thread its signaller has just dequeued, a thread that
                        # is enqueued by a cond_wait on this condition and has not been pushed since
                        if hand.get(T) != (obj, x):
                            return ("wakeany.push on %s names %s, which t%s did not dequeue (in its hand: %s)"
                                    % (obj, val, T, hand.get(T)), st)
                        hand[T] = None
                        w = waitrec.get(x)
                        if w is None or w["op"][1] != obj or w["enq"] is None or w["pushed"] is not None:
                            return ("wakeany.push on %s names t%s, which is not enqueued by a cond_wait on it" % (obj, x), st)
                        w["pushed"] = idx
                        if calls.get(T) and calls[T][-1]["op"][0] == "signal":
                            sig_pushes[obj] = sig_pushes.get(obj, 0) + 1
        elif e.kind == "R":
            stack = calls.get(T) or []
            if not stack:
                continue
            c = stack.pop()
            op = c["op"]
            ret = int(e.words[1]) if len(e.words) > 1 and re.match(r"-?\d+$", e.words[1]) else None
            if op[0] == "cwait":
                st["cwait_returns"] += 1
                occ = [kv for kv in e.words[2:] if kv.startswith("occ=")]
                if ret != 0:
                    return ("cond_wait of t%d returned %s" % (T, ret), st)
                if occ != ["occ=1"]:
                    return ("cond_wait of t%d returned without holding the mutex exclusively (%s)" % (T, " ".join(e.words[2:])), st)
                # rule 1: the return is caused by exactly one push naming this thread, after this wait's enqueue
                if c["enq"] is None:
                    return ("cond_wait of t%d on %s returned without ever enqueuing (banked signal / spurious return)" % (T, op[1]), st)
                if c["pushed"] is None or not (c["enq"] < c["pushed"] < idx):
                    return ("cond_wait of t%d on %s returned without a push naming it after its enqueue "
                            "(banked signal / spurious return)" % (T, op[1]), st)
                c["returned"] = True
                if nworkers >= 2:
                    st["cwait_returns_multiworker"] += 1
                    if e.w != c["w"]:
                        st["cwait_resumed_on_other_worker"] += 1
                if case.get("storm") and T in case["storm"]["late"] and case["storm"]["k"] > case["storm"]["m"]:
                    st["banked_phase_waits"] += 1
            elif op[0] == "await":
                w = [kv for kv in e.words[2:] if kv.startswith("waits=")]
                if w and int(w[0][6:]) >= 2:
                    st["rewait"] += 1
            elif op[0] in ("signal", "bcast"):
                msg = check_signal(T, op, c["ev"], st, [x for x in c["q0"] if x in cq.get(op[1], [])])
                if msg:
                    return (msg, st)
                if op[0] == "bcast":
                    firsts = [x for x in c["ev"] if x[1] == "wakeany.deq"]
                    if firsts:
                        bcasts.append((firsts[0][0], idx, op[1], firsts[0][4] or [], T))
                        st["max_bcast_waiters"] = max(st["max_bcast_waiters"], len(firsts[0][4] or []))
            elif op[0] in ("cdestroy", "cinit"):
                # object lifecycle: legal only with nobody blocked on the condition; a fresh incarnation starts
                # with an empty queue, and it is judged by the same rules from here on
                cond = op[1]
                if cq.get(cond) or any(h is not None and h[0] == cond for h in hand.values()):
                    return ("GENERATOR: %s of %s while %s are blocked on it" % (op[0], cond, cq.get(cond)), st)
                if ret != 0:
                    return ("%s of %s returned %s" % (op[0], cond, ret), st)
                if op[0] == "cdestroy":
                    st["cdestroy_calls"] += 1
                else:
                    st["reinit_attr" if "attr" in op[2:] else "reinit_noattr"] += 1
                    st["incarnations_judged"] += 1
                    if "qempty=1" not in e.words[2:]:
                        return ("cond_init of %s (%s) left a non-empty sleep queue (%s)" % (cond, " ".join(op[2:]) or "NULL attr", " ".join(e.words[2:])), st)
                    if any(w["op"][1] == cond and w["pushed"] is not None and not w.get("returned") for w in waitrec.values()):
                        st["reinit_while_released_not_resumed"] += 1
                    cq[cond] = []
            elif op[0] == "get" and T == 0:
                gets[op[1]] = ret
    # (e) broadcast: every member of the queue at its first dequeue was dequeued (by anybody) before the call
    # returned, and pushed - or is in the hand of another signaller (deq without push yet)
    for (i0, i1, cond, members, T) in bcasts:
        for x in members:
            dq = [d for d in deq_log if d[1] == cond and d[2] == x and i0 <= d[0] <= i1]
            if not dq:
                return ("broadcast of t%d on %s returned but t%d, in the queue at its first dequeue, was never dequeued" % (T, cond, x), st)
            d = dq[0]
            ps = [p for p in push_log if p[1] == cond and p[2] == x and p[0] > d[0]]
            if d[3] == T and not [p for p in ps if p[0] <= i1]:
                return ("broadcast of t%d on %s dequeued t%d but did not push it before returning" % (T, cond, x), st)
            if not ps:
                return ("t%d was dequeued from %s by t%d and never pushed" % (x, cond, d[3]), st)
    for T, h in hand.items():
        if h is not None:
            return ("t%d was dequeued from %s by t%s and never pushed" % (h[1], h[0], T), st)
    if case.get("storm"):
        sm = case["storm"]
        got = sig_pushes.get(sm["cond"], 0)
        st["storm_runs"] += 1
        if got < min(sm["k"], sm["m"]):
            return ("signal storm: %d signals on %s with %d waiters blocked released only %d of them" %
                    (sm["k"], sm["cond"], sm["m"], got), st)
        if got == min(sm["k"], sm["m"]):
            st["storm_exact"] += 1
    for var, exp in case["expect"].items():
        if gets.get(var) != exp:
            return ("final %s = %s, expected %d (a wake-up was lost or a critical section was not exclusive)" % (var, gets.get(var), exp), st)
    return (None, st)


def check_signal(T, op, ev, st, ignored=()):
    """ev: main-context POINT events of one signal / bcast call: (idx, pid, obj, val, queue snapshot);
    ignored: threads that were in the queue when the call began and still are when it returns"""
    cond = op[1]
    seq = [x for x in ev if x[2] == cond and x[1] in ("wakeany.deq", "wakeany.push")]
    if not seq:
        # a call that never looks at the queue is fine only if nobody was blocked throughout
        if ignored:
            return "%s of t%d on %s returned without looking at the queue although %s were blocked on it throughout" % (
                op[0], T, cond, ["t%d" % x for x in ignored])
        return None
    if seq[0][1] != "wakeany.deq":
        return "%s of t%d on %s did not inspect the queue" % (op[0], T, cond)
    i, ndeq = 0, 0
    while i < len(seq):
        _, pid, _, val, q = seq[i]
        if pid != "wakeany.deq":
            return "%s of t%d on %s: push of %s without a preceding dequeue" % (op[0], T, cond, val)
        ndeq += 1
        if q:
            if i + 1 >= len(seq) or seq[i + 1][1] != "wakeany.push":
                return "%s of t%d on %s found %s waiting (head t%d) but did not wake it" % (op[0], T, cond, q, q[0])
            if _tag(seq[i + 1][3]) != q[0]:
                return "%s of t%d on %s: head of the queue is t%d but %s was pushed" % (op[0], T, cond, q[0], seq[i + 1][3])
            i += 2
            if op[0] == "signal":
                # the property says "at least one": further dequeue / push pairs of blocked threads are not a
                # failing input (the model, C05_signal_deq, says exactly one: that shows as a correspondence break)
                if i != len(seq):
                    st["signal_multi_wake"] += 1
                    continue
                return None
        else:
            if i + 1 != len(seq):
                return "%s of t%d on %s: queue seen empty but the call went on (%s)" % (op[0], T, cond, seq[i + 1][1])
            if op[0] == "bcast" and ndeq >= 3:
                st["bcast_multi"] += 1
            return None
    if op[0] == "signal":
        return None
    if op[0] == "bcast":
        return "broadcast of t%d on %s returned without having seen the queue empty" % (T, cond)
    return None


def oracle(case, r):
    return analyse(case, r)[0]


# --------------------------------------------------------------------------------------------------

def load_corpus():
    d = os.path.join(vlib.VERIF, "corpus", "C05")
    res = []
    if os.path.isdir(d):
        for f in sorted(os.listdir(d)):
            if f.endswith(".json"):
                c = json.load(open(os.path.join(d, f)))
                c["corpus"] = f
                res.append(c)
    return res


def build(ctx):
    """shared build, then a private copy of the interpreter (the shared cache is pruned by concurrent checks)"""
    exe, drv = sync_common.build(ctx)
    mine = os.path.join(ctx.dir, "lib_interp")
    shutil.copyfile(exe, mine + ".tmp")
    os.chmod(mine + ".tmp", 0o755)
    os.replace(mine + ".tmp", mine)
    return mine, drv


def run_cases_robust(ctx, exe, drv, texts):
    out = []
    for t in texts:
        try:
            r = sync_common.run_cases(ctx, exe, drv, [t])[0]
        except Exception as ex:                     # a crashed run leaves an unparsable trace: no verdict
            if not os.path.exists(exe) or not os.path.exists(drv):
                raise vlib.BuildError("interpreter or driver disappeared during the run: %s" % ex)
            tp = os.path.join(ctx.dir, "runs", "c0000.trace")
            tail = ""
            try:
                tail = open(tp, errors="replace").read()[-300:]
            except OSError:
                pass
            r = {"case": t, "rc": -1, "verdict": None, "events": [], "groups": [], "model": [], "fail_context": [],
                 "stderr": "trace unusable (%s: %s); tail: %s" % (type(ex).__name__, str(ex)[:80], tail), "trace_path": tp}
        out.append(r)
    return out


def judge(ctx, cases, exe, drv):
    results = run_cases_robust(ctx, exe, drv, [c["text"] for c in cases])
    fails, mism, stats = [], [], {}
    for c, r in zip(cases, results):
        msg, st = analyse(c, r)
        for k, v in st.items():
            stats[k] = max(stats.get(k, 0), v) if k in MAXSTATS else stats.get(k, 0) + v
        if msg:
            fails.append((c, r, msg))
        bad = [m for m in r["model"] if not m.startswith("ok")]
        if bad:
            mism.append((c, r, bad))
    return results, fails, mism, stats


def reseed(ctx, c, k):
    t = re.sub(r"^seed \d+", "seed %d" % ctx.rng.rng(1, 1 << 30), c["text"], flags=re.M)
    t = re.sub(r"^pswitch \d+", "pswitch %d" % ctx.rng.choice([35, 60, 75, 90]), t, flags=re.M)
    t = re.sub(r"^workers \d+", "workers %d" % ctx.rng.rng(2, 4), t, flags=re.M)
    return dict(c, text=t)


def run(ctx):
    broken, log = ctx.prove("Properties_C05.v", "Properties_C05")
    exe, drv = build(ctx)
    n = 240 if not ctx.thorough else 3000
    corpus = load_corpus()
    cases = list(corpus)
    cases += [gen_case(ctx.rng) for _ in range(n)]
    # preemption-heavy sweep with spurious signallers: the window between the enqueue and the release, and
    # the overlap "woken while the callback is still unlocking"
    cases += [gen_case(ctx.rng, workers=ctx.rng.rng(2, 4), pswitch=ctx.rng.choice([60, 85]), spurious=True)
              for _ in range(n // 4)]
    cases += [gen_case(ctx.rng, kind="gate", workers=ctx.rng.rng(2, 4), pswitch=85) for _ in range(n // 8)]
    # large broadcasts are a regular family: one broadcast that sees 8 / 33 / 130 (thorough: 300) waiters at once
    # (beyond any plausible internal batch size: 128, 256), on 1..4 workers
    big = [8, 33, 130, 130, 130] if not ctx.thorough else [8, 33, 64, 129, 130, 130, 257, 300, 300] * 3
    for i, K in enumerate(big):
        cases.append(gen_case(ctx.rng, kind="biggate", workers=1 + (i + ctx.rng.below(4)) % 4,
                              pswitch=ctx.rng.choice([20, 35, 60]), spurious=False, K=K))
    # signal storms: k signals against m waiters already in the queue, m < k, m = k, m > k
    for _ in range(n // 10):
        m = ctx.rng.rng(2, 14)
        d = ctx.rng.rng(1, 4)
        for k in (max(0, m - d), m, m + d):
            cases.append(gen_case(ctx.rng, kind="storm", workers=ctx.rng.rng(1, 4), k=k, m=m))
    # object lifecycle: 2-3 incarnations of one condition variable (destroy right after the releasing broadcast,
    # re-init with NULL / initialised attr on overwritten memory, next incarnation's waiters started first)
    cases += [gen_case(ctx.rng, kind="lifecycle", workers=ctx.rng.rng(1, 4)) for _ in range(n // 5)]
    results, fails, mism, stats = judge(ctx, cases, exe, drv)
    need = CB_POINTS + ["wakeany.deq@empty", "wakeany.deq@nonempty", "wakeany.push",
                        "woken_while_callback_unlocking", "two_callbacks_in_flight", "cwait_returns",
                        "cwait_resumed_on_other_worker", "storm_runs", "banked_phase_waits",
                        "reinit_attr", "reinit_noattr", "reinit_while_released_not_resumed", "cdestroy_calls"]
    missing = [p for p in need if not stats.get(p)]
    want_big = 300 if ctx.thorough else 130
    if stats.get("max_bcast_waiters", 0) < want_big:
        missing.append("max_bcast_waiters>=%d (seen %d)" % (want_big, stats.get("max_bcast_waiters", 0)))
    dist = {}
    for c in cases:
        for k in ("kind:" + c["kind"], "workers:%d" % c["workers"], "pswitch:%d" % c["pswitch"],
                  "threads:%d" % c["N"], "spurious:%s" % c.get("spurious")):
            dist[k] = dist.get(k, 0) + 1
    verd = {}
    for r in results:
        v = (r["verdict"] or "none").split()[0]
        verd[v] = verd.get(v, 0) + 1
    ctx.cov["correspondence"] = {
        "cases": len(cases), "corpus_cases": len(corpus),
        "model_steps_replayed": sum(int(m.split()[1]) for r in results for m in r["model"] if m.startswith("ok")),
        "disagreements": len(mism), "oracle_failures": len(fails), "input_distribution": dist, "verdicts": verd,
        "points_and_situations": stats, "point_histogram": sync_common.point_histogram(results)}
    ctx.cov["evaluations"] = sum(len(r["events"]) for r in results)
    ctx.cov["samples"] += [{"case": cases[i]["text"], "verdict": results[i]["verdict"], "model": results[i]["model"]}
                           for i in (0, len(cases) // 2, len(cases) - 1)]
    ctx.cov["trusted_base"] += [
        "extraction: ExtrOcamlBasic only; ocaml/driver_Sync.ml, ocaml/zio.ml (shared Sync driver)",
        "harness/lib_interp.c (schedule controller: one participant runs at a time, decisions at MYTH_VERIF_POINTs; occupancy witness)",
        "tools/trace.py projection of traces onto the Sync model; MYTH_VERIF hooks in src/myth_sync_func.h (guarded by -DMYTH_VERIF)",
        "modelled, not verified: sleep-queue enqueue/dequeue as one step each (they run under the queue's spinlock), the run queues "
        "(a pushed thread is simply runnable), context save/restore (C03), sequential consistency of the mutex word"]
    if fails:
        # prefer a run in which the wake-up was actually lost (DEADLOCK) as the witness; if the failures seen
        # so far are only order / protocol observations, look for such a run among preemption-heavy reseeds
        dead = [f for f in fails if "missed signal" in f[2]]
        searched = 0
        if not dead:
            pool = [c for c, _, _ in fails[:10]]
            for k in range(40):
                extra = [reseed(ctx, c, k) for c in pool[:5]] + \
                        [gen_case(ctx.rng, kind="gate", workers=ctx.rng.rng(2, 4), pswitch=85) for _ in range(5)]
                searched += len(extra)
                _, f2, _, _ = judge(ctx, extra, exe, drv)
                dead = [f for f in f2 if "missed signal" in f[2]]
                if dead:
                    break
        cats = {}
        for _, _, m in fails:
            k = re.sub(r" on \w+", "", re.sub(r"\bt\d+", "tN", m.split("(")[0]))[:70]
            cats[k] = cats.get(k, 0) + 1
        c, r, msg = (dead or fails)[0]
        ctx.violation("oracle", msg, {"case": c, "observed": {"verdict": r["verdict"], "model": r["model"], "trace": r["trace_path"]},
                                      "expected": "property C05 (see analyse() in tools/props/c05.py)", "level": "library",
                                      "failing_runs": len(fails), "failure_categories": cats, "deadlock_search_runs": searched,
                                      "others": [m for _, _, m in fails[:8]]}, found=True)
    elif mism or broken or missing:
        # something broke without a failing input so far: search harder for one
        base = [c for c, _, _ in mism[:8]] or cases[:8]
        extra = [reseed(ctx, c, k) for c in base for k in range(12)]
        extra += [gen_case(ctx.rng, pswitch=ctx.rng.choice([60, 85, 90]), workers=ctx.rng.rng(2, 4)) for _ in range(200)]
        _, f2, _, _ = judge(ctx, extra, exe, drv)
        ctx.cov["correspondence"]["search_runs"] = len(extra)
        if f2:
            c, r, msg = f2[0]
            ctx.violation("oracle", msg, {"case": c, "observed": {"verdict": r["verdict"], "model": r["model"]},
                                          "expected": "property C05", "level": "library",
                                          "found_by": "search after a broken obligation"}, found=True)
        else:
            if mism:
                c, r, bad = mism[0]
                ctx.violation("correspondence",
                              "model (Sync/SyncModel.v) and library disagree on %d of %d runs; first: %s" % (len(mism), len(cases), bad[0][:200]),
                              {"theorem_or_correspondence": "correspondence Sync/SyncModel.v <-> src/myth_sync_func.h (cond_wait / signal / broadcast, block/wake helpers)",
                               "case": c, "observed": r["fail_context"][:2], "expected": "every trace replays through SyncModel.step",
                               "search": "no oracle failure in %d further runs" % len(extra)}, found=False)
            if missing:
                ctx.violation("coverage", "POINT ids / situations never reached in this run: " + ", ".join(missing),
                              {"theorem_or_correspondence": "coverage of the condition-variable routines by the correspondence run",
                               "histogram": stats}, found=False)
    if broken:
        ctx.violation("proof", "theorem(s) no longer check: " + ", ".join(broken),
                      {"theorem_or_correspondence": ", ".join(broken), "log": getattr(ctx, "proof_log", log[-3000:])}, found=False)
    return ctx.finish(assumptions=[
        "usage contract encoded as enabledness of ECall: cond_wait / unlock only by the holder of the mutex",
        "sequentially consistent accesses to mutex->state (the code uses __sync builtins = full barriers)",
        "sleep-queue enqueue / dequeue are atomic (they run under the queue's internal spinlock)",
        "liveness is not claimed; C05_not_missed / C05_quiescent are its safety form"])


def replay(ctx, path):
    body = json.load(open(path))
    c = body.get("case")
    if not c:
        print("replay file carries no case (broken obligation: %s)" % body.get("what"))
        return 0
    exe, drv = build(ctx)
    results, fails, mism, stats = judge(ctx, [c], exe, drv)
    r = results[0]
    print("case:\n" + c["text"])
    print("impl verdict:", r["verdict"], "rc", r["rc"])
    print("model:", r["model"])
    for fc in r["fail_context"]:
        print("  model mismatch:", fc["verdict"], "| trace line:", fc["trace_line"])
    print("oracle:", fails[0][2] if fails else "property holds on this run")
    print("trace:", r["trace_path"])
    return 1 if fails else 0
