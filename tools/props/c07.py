"""C07 — join counter: waiters released exactly when the N-th decrement happens (DESIGN.md section 4, C07).

prove (coq/Properties_C07.v) -> build (lib_interp + unit harness from the CURRENT tree, extracted model)
-> unit correspondence of calc_bits / init fields, word-width obligation, wide-value preset scenarios -> dependency-DAG programs on the real library under the
schedule controller -> every trace replayed through the extracted model (per join counter object)
-> independent oracle of the property on the trace.
"""
import json, os, re, shutil
import vlib, trace

VF = ["JoinCounter/JcModel.v", "JoinCounter/JcProofs.v", "JoinCounter/JcInv.v", "JoinCounter/JcTheorems.v"]
NS = [0, 1, 2, 3, 4, 7, 8]
PSW = [20, 35, 60, 85]
POINTS = ["jc.wait.read", "jc.wait.cas", "jc.dec.read", "jc.dec.cas", "blockq.enq", "wakemany.deq", "wakemany.push"]
# derived events that the quick tier must exercise too
DERIVED = ["wakemany.spin", "wait.cas.fail", "wait.cas.fail.then.N", "dec.cas.fail", "wait.late.immediate",
           "wait.slept", "wait.first.read.N", "jcinit.attr", "jcinit.null"]


# ------------------------------------------------------------------------------------------
# build
# ------------------------------------------------------------------------------------------
def private_copy(ctx, exe):
    """trace.build_interp() keeps only the newest few binaries in the shared build/li cache; other checks
    building concurrently may prune ours in the middle of a long run: execute a copy in our own directory"""
    d = os.path.join(ctx.dir, "bin")
    os.makedirs(d, exist_ok=True)
    mine = os.path.join(d, os.path.basename(exe))
    with vlib.Lock("c07-bin"):
        if not os.path.exists(mine):
            tmp = mine + ".tmp%d" % os.getpid()
            shutil.copy2(exe, tmp)
            os.rename(tmp, mine)
        olds = sorted((os.path.getmtime(os.path.join(d, f)), f) for f in os.listdir(d) if f != os.path.basename(mine))
        for _, f in olds[:-3]:
            try:
                os.remove(os.path.join(d, f))
            except OSError:
                pass
    return mine


def build(ctx):
    exe = None
    for _ in range(3):                      # the shared binary can vanish between build and copy
        try:
            exe = private_copy(ctx, trace.build_interp())
            break
        except OSError:
            exe = None
    if exe is None:
        raise vlib.BuildError("lib_interp binary kept disappearing from the shared cache")
    lib = vlib.build_lib()
    unit = vlib.cc(os.path.join(ctx.dir, "c07_unit"), [os.path.join(vlib.VERIF, "harness", "c07_unit.c")],
                   flags=vlib.lib_cflags() + ["-O0", "-g"], libs=[lib, "-lpthread", "-ldl", "-lrt"])
    drv = vlib.build_driver("C07", "Extract_C07.v", "driver_C07.ml", VF[:1])
    return exe, unit, drv


# ------------------------------------------------------------------------------------------
# unit part: calc_bits / init fields
# ------------------------------------------------------------------------------------------
def unit_cases(ctx):
    r = ctx.rng
    xs = [0, 1, 2, 3, 4, 7, 8]
    for k in range(2, 62):
        xs += [(1 << k) - 1, 1 << k, (1 << k) + 1]
    xs += [(1 << 62) - 1]
    xs += [r.rng(0, (1 << r.rng(1, 62)) - 1) for _ in range(40)]
    seen, out = set(), []
    for x in xs:
        if x not in seen and x < (1 << 62):
            seen.add(x)
            out.append(x)
    cases = []
    for x in out:
        cases.append("calc %d" % x)
        cases.append("init %d" % x)
    # outside the range: negative N (the init assertion fails), negative argument of calc_bits (0 bits),
    # one value >= 2^62 (calc_bits does not terminate; costs the harness' 1 s alarm)
    cases += ["init -1", "init -5", "calc -1", "calc -%d" % (1 << 40), "calc %d" % (1 << 62)]
    return cases


def preset_cases(ctx):
    """wide-value scenarios 'preset N k w' (see harness/c07_unit.c): k real waiters asleep, N-1 decrements' worth
    preset into the word through the struct, the final decrement through the API.  Boundaries of every plausible
    narrowing of the packed word (16/32 bits, sign bit of 32/64) and random wide values."""
    r = ctx.rng
    fixed = [(1, 1, 1), (3, 2, 1), (8, 4, 2), (1 << 8, 256, 1), (1 << 12, 16, 1),
             (1 << 24, 63, 1), (1 << 24, 64, 1), (1 << 20, 1024, 1), ((1 << 30) - 1, 1, 2), ((1 << 30) - 1, 2, 1),
             (1 << 30, 1, 1), ((1 << 31) - 1, 1, 1), (1 << 31, 1, 1), (1 << 32, 3, 1), (1 << 33, 4, 2),
             (1 << 40, 8, 1), (1 << 60, 2, 1), (1 << 61, 1, 1), ((1 << 62) - 1, 1, 1)]
    out = list(fixed)
    for _ in range(12 if not ctx.thorough else 120):
        b = r.rng(10, 61)
        n = r.rng(1 << (b - 1), (1 << b) - 1)
        k = r.rng(1, min(48, (1 << (63 - b)) - 1))
        out.append((n, k, r.choice([1, 1, 2, 3])))
    return ["preset %d %d %d" % c for c in out]


def reinit_cases(ctx):
    """object lifecycle, unit level: 2-3 incarnations of one object, same / different N, attr NULL ('n') or an initialised
    myth_join_counterattr_t ('a'); the harness marks the object as used (completed-round word) between incarnations"""
    r = ctx.rng
    out = ["3 a 3 a", "3 n 3 a", "3 a 3 n", "3 n 3 n", "4 a 7 a 4 a", "8 n 2 a 8 a", "0 a 0 a", "1 a 0 a 1 n",
           "%d a %d a" % (1 << 24, 1 << 24), "%d n %d a %d a" % (1 << 40, 3, (1 << 62) - 1)]
    for _ in range(20 if not ctx.thorough else 200):
        n0 = r.choice([1, 2, 3, 4, 7, 8, r.rng(0, 1 << r.rng(1, 61))])
        spec = []
        for i in range(r.choice([2, 3])):
            n = n0 if r.chance(1, 2) else r.choice([0, 1, 2, 3, 4, 7, 8, r.rng(0, 1 << r.rng(1, 61))])
            spec.append("%d %s" % (n, r.choice("an")))
        out.append(" ".join(spec))
    return ["reinit " + x for x in out]


def reinit_oracle(case, out):
    """init does not depend on the previous contents of the object nor on attr: after every (re-)initialisation
    state = 0, n_threads = N, bits = width of N, mask = 2^bits - 1"""
    w = case.split()[1:]
    spec = [(int(w[i]), w[i + 1]) for i in range(0, len(w), 2)]
    if not out.startswith("reinit ") or out == "reinit none":
        return "re-initialisation sequence %s did not complete: %s" % (case, out)
    groups = out[len("reinit "):].split(" ; ")
    if len(groups) != len(spec):
        return "re-initialisation sequence %s: %d groups reported" % (case, len(groups))
    for i, ((n, fl), g) in enumerate(zip(spec, groups)):
        got = {k: int(v) for k, v in re.findall(r"(\w+)=(-?\d+)", g)}
        exp = {"n": n, "bits": n.bit_length(), "mask": (1 << n.bit_length()) - 1, "state": 0}
        if got != exp:
            return ("incarnation %d: myth_join_counter_init(jc, %s, %d) on %s left %s, expected %s" % (
                i, "&attr" if fl == "a" else "NULL", n, "dirty memory" if i == 0 else "an object that completed a round with N=%d" % spec[i - 1][0],
                g, " ".join("%s=%d" % kv for kv in exp.items())))
    return None


WIDTHS_ASSUMED = {"state": 8, "state_signed": 1, "n_threads": 8, "state_mask": 8}


def widths_obligation(unit):
    """the word widths of the CURRENT struct vs. what coq/JoinCounter/JcModel.v assumes (wrap64 / add64 / shl1:
    64-bit two's-complement longs for state, n_threads, state_mask).  Returns (line, list of mismatches)."""
    out, _, _ = vlib.run_lines([unit], ["widths 0"], timeout=60)
    line = out[0] if out else "<no output>"
    got = {k: int(v) for k, v in re.findall(r"(\w+)=(-?\d+)", line)}
    bad = ["%s: %s in the current tree, %d assumed by the model" % (k, got.get(k, "?"), v)
           for k, v in WIDTHS_ASSUMED.items() if got.get(k) != v]
    if got.get("n_threads_bits", 0) < 1:
        bad.append("n_threads_bits: width not reported")
    return line, bad


def preset_oracle(case, out):
    """the property on a wide-value scenario, stated directly (no model): every sleeping waiter is released by
    the N-th decrement, nobody is left in the queue, the word holds (k << bits(N)) | N"""
    _, n, k, w = case.split()
    n, k = int(n), int(k)
    m = re.match(r"preset n=(-?\d+) k=(-?\d+) reg=(-?\d+) pre=(-?\d+) dec=(-?\d+) state=(-?\d+) released=(-?\d+) rets=(-?\d+) q=(-?\d+)$", out)
    if not m:
        return "N=%d, %d sleeping waiters, final decrement: the run did not complete (killed by the watchdog, abort or exit(1)): %s" % (n, k, out)
    _, _, reg, pre, dec, st, rel, rets, q = [int(v) for v in m.groups()]
    bl = n.bit_length()
    if rel != k or q != 0:
        return ("N=%d (bits %d) with %d waiters asleep: after the N-th decrement only %d were released, %d still in the "
                "sleep queue (state word %d, expected %d)" % (n, bl, k, rel, q, st, (k << bl) | n))
    if dec != 0 or rets != 0:
        return "N=%d, %d waiters: return values dec=%d, sum of wait returns=%d" % (n, k, dec, rets)
    if reg != (k << bl) or pre != (k << bl) + n - 1 or st != (k << bl) + n:
        return ("N=%d (bits %d), %d waiters: packed word %d after registration / %d after the final decrement, expected %d / %d"
                % (n, bl, k, reg, st, k << bl, (k << bl) + n))
    return None


def unit_oracle(case, out):
    """calc_bits_spec and the init fields stated directly; None if fine"""
    if case.startswith("preset"):
        return preset_oracle(case, out)
    if case.startswith("reinit"):
        return reinit_oracle(case, out)
    k, x = case.split()[0], int(case.split()[1])
    if k == "calc":
        if x >= (1 << 62):
            return None                              # outside the representable range: nothing is promised
        m = re.match(r"calc (-?\d+)$", out)
        if not m:
            return "calc_bits(%d) did not return: %s" % (x, out)
        b = int(m.group(1))
        if x < 0:
            return None
        if not (0 <= b <= 62 and x < (1 << b) and (x == 0 or (1 << (b - 1)) <= x)):
            return "calc_bits(%d) = %d: not the width of %d" % (x, b, x)
        return None
    if x < 0:
        return None
    m = re.match(r"init n=(-?\d+) bits=(-?\d+) mask=(-?\d+) state=(-?\d+)$", out)
    if not m:
        return "join counter init with N=%d failed: %s" % (x, out)
    n, b, mask, st = [int(v) for v in m.groups()]
    if n != x or st != 0:
        return "init N=%d: n_threads=%d state=%d" % (x, n, st)
    if not (0 <= b <= 62) or mask != (1 << b) - 1 or (x & mask) != x:
        return "init N=%d: bits=%d mask=%d cannot hold the count 0..N in the low field" % (x, b, mask)
    if x > 0 and (1 << (b - 1)) > x:
        return "init N=%d: bits=%d wider than needed" % (x, b)
    return None


# ------------------------------------------------------------------------------------------
# program generator: dependency DAGs over join counters
# ------------------------------------------------------------------------------------------
def flag(j, k, r=0):
    return "p%s_%d" % (j, k) if not r else "p%sr%d_%d" % (j, r, k)


def gen_program(r, shape=None):
    """returns (objs, threads): main thread 0 creates everybody and joins everybody.
    Each decrementer k of counter j sets its own flag p<j>_<k> before jcdec; a waiter reads all N flags
    after jcwait returned: every one must be 1 (all predecessors ran)."""
    shape = shape or r.choice(["single", "single", "single", "two", "chain"])
    objs, threads = [], {}
    nxt = [1]
    pre_main, post_main = [], []

    def new_thread(ops):
        t = nxt[0]
        nxt[0] += 1
        threads[t] = ops
        return t

    def ys():
        return ["yield"] * r.choice([0, 0, 0, 1, 1, 2])

    def checks(j, n):
        return ["get " + flag(j, k) for k in range(n)]

    def counter(j, n, w, dec_prefix=None):
        """threads of one counter; dec_prefix[k] = ops decrementer k runs before its own work"""
        objs.append("%s jc %d" % (j, n))
        for k in range(n):
            objs.append("%s var 0" % flag(j, k))
        ws, ds = [], []
        for i in range(w):
            ops = ys() + ["jcwait " + j] + checks(j, n)
            if r.chance(1, 4):
                ops += ys() + ["jcwait " + j] + checks(j, n)          # a second, late wait by the same thread
            ws.append(new_thread(ops))
        for k in range(n):
            pre = (dec_prefix or {}).get(k, [])
            ds.append(new_thread(ys() + pre + ["set %s 1" % flag(j, k)] + ys() + ["jcdec " + j]))
        return ws, ds

    order_kind = r.choice(["shuffle", "shuffle", "waiters_first", "decs_first", "late_waiters"])

    def order(ws, ds):
        if order_kind == "waiters_first":
            return ws + ds, []
        if order_kind == "decs_first":
            return ds + ws, []
        if order_kind == "late_waiters":
            return ds, ws
        l = ws + ds
        r.shuffle(l)
        return l, []

    first, late = [], []
    mains = []                      # counters the main thread itself waits on
    if shape == "single":
        n, w = r.choice(NS), r.rng(0, 4)
        ws, ds = counter("j0", n, w)
        first, late = order(ws, ds)
        cs = [("j0", n)]
    elif shape == "two":
        cs = []
        for j in ("j0", "j1"):
            n, w = r.choice([0, 1, 2, 3, 4]), r.rng(0, 3)
            ws, ds = counter(j, n, w)
            a, b = order(ws, ds)
            first += a
            late += b
            cs.append((j, n))
        if order_kind == "shuffle":
            r.shuffle(first)
    else:                           # chain: some decrementers of j1 first wait on j0 and check its flags
        n0, n1 = r.choice([1, 2, 3, 4]), r.choice([1, 2, 3, 4, 7])
        mids = r.rng(1, n1)
        ws0, ds0 = counter("j0", n0, r.rng(0, 2))
        pre = {k: ["jcwait j0"] + checks("j0", n0) for k in range(mids)}
        ws1, ds1 = counter("j1", n1, r.rng(1, 3), dec_prefix=pre)
        a, b = order(ws0 + ws1, ds0 + ds1)
        first, late = a, b
        cs = [("j0", n0), ("j1", n1)]
    main = []
    for t in first:
        main += ["create %d" % t] + (["yield"] if r.chance(1, 5) else [])
    if r.chance(1, 4) and not late:
        j, n = r.choice(cs)
        main += ["jcwait " + j] + checks(j, n)                           # the main thread as a waiter
    if late:
        # waiters created only after every decrementer was joined: the counter is complete
        main += ["join %d" % t for t in first]
        main += ["create %d" % t for t in late]
        main += ["join %d" % t for t in late]
    else:
        jl = list(first)
        if r.chance(1, 2):
            r.shuffle(jl)
        main += ["join %d" % t for t in jl]
    if r.chance(1, 2):
        j, n = r.choice(cs)
        main += ["jcwait " + j] + checks(j, n)                           # late wait after everything finished
    threads[0] = main
    return objs, threads


def gen_lifecycle(r, rounds=None, force=None):
    """object lifecycle: ONE join counter object goes through 2-3 incarnations.  Incarnation 0 is the `obj j0 jc N`
    of the case (attr == NULL), optionally re-initialised before any use (`jcinit j0 N [attr]`); every later
    incarnation starts with `jcinit j0 N' [attr]` (same or different N, attr == NULL or an initialised
    myth_join_counterattr_t) issued by the main thread after it joined every thread of the previous round, i.e. the
    counter has been through a COMPLETE round (N decrements, all waiters back).  Flags are per incarnation.
    force = list of (N, attr?) per incarnation."""
    rounds = rounds or r.choice([2, 2, 3])
    spec = force or []
    if not spec:
        n0 = r.choice([1, 2, 3, 4, 7])
        for i in range(rounds):
            n = n0 if (i and r.chance(1, 2)) else r.choice([0, 1, 2, 3, 4, 7, 8])
            spec.append((n, r.chance(1, 2)))
    objs = ["j0 jc %d" % spec[0][0]]
    threads, main, t = {}, [], 1
    for i, (n, attr) in enumerate(spec):
        for k in range(n):
            objs.append("%s var 0" % flag("j0", k, i))
        if i > 0 or attr or r.chance(1, 4):
            main.append("jcinit j0 %d%s" % (n, " attr" if attr else ""))
        chk = ["get " + flag("j0", k, i) for k in range(n)]
        ws, ds = [], []
        for _ in range(r.rng(1, 3)):
            threads[t] = ["yield"] * r.choice([0, 0, 1]) + ["jcwait j0"] + chk
            ws.append(t)
            t += 1
        for k in range(n):
            threads[t] = ["yield"] * r.choice([0, 0, 1, 2]) + ["set %s 1" % flag("j0", k, i), "jcdec j0"]
            ds.append(t)
            t += 1
        order = r.choice(["w", "w", "d", "s"])
        l = ws + ds if order == "w" else ds + ws
        if order == "s":
            r.shuffle(l)
        main += ["create %d" % x for x in l] + ["join %d" % x for x in l]
        if r.chance(1, 2):
            main += ["jcwait j0"] + chk                      # late wait of this incarnation
    threads[0] = main
    return objs, threads


def gen_cases(ctx, n):
    r = ctx.rng
    cases = []
    for i in range(n):
        objs, threads = gen_lifecycle(r) if i % 5 == 4 else gen_program(r)
        for _ in range(r.choice([1, 2, 2, 3])):
            cases.append(trace.case_text(r.rng(1, 4), r.rng(1, 1 << 30), objs, threads, pswitch=r.choice(PSW)))
    return cases


def corpus_cases():
    d = os.path.join(vlib.VERIF, "corpus", "C07")
    out = []
    if os.path.isdir(d):
        for f in sorted(os.listdir(d)):
            if f.endswith(".case"):
                out.append((f, open(os.path.join(d, f)).read()))
    return out


# ------------------------------------------------------------------------------------------
# projection: lib_interp trace -> one driver block per join counter object
# ------------------------------------------------------------------------------------------
_Q = re.compile(r"q=\[([^\]]*)\]")
_F = {k: re.compile(k + r"=(-?\d+)") for k in ("state", "n", "bits", "mask")}


def _val(v):
    if v and v[0] == "t" and v[1:].isdigit():
        return v[1:]
    if v in ("-", "big", "t?"):
        return "-"
    return v


def jc_objects(case):
    objs, threads, _, _ = trace.parse_case(case)
    return [(n, p[0] if p else 0) for n, (k, p) in objs.items() if k == "jc"], len(threads)


def jc_blocks(name, nparam, nthreads, events):
    """driver input blocks of one join counter object, one per incarnation (a completed `jcinit name N [attr]`
    closes the block and opens a new one with the model's fresh init_state N; the init fields reported on the
    R line are compared at once: `obs`).  Returns a list of (lines, trace event per line, N)."""
    out = []
    lines, src, curn = ["begin %d %d" % (nthreads, nparam)], [None], nparam
    open_call, init_call = {}, {}
    for e in events:
        if e.kind == "C":
            init_call[e.actor] = None
            if e.words[0] in ("jcwait", "jcdec") and len(e.words) > 1 and e.words[1] == name:
                lines.append("call %d %s" % (e.actor, "wait" if e.words[0] == "jcwait" else "dec"))
                src.append(e)
                open_call[e.actor] = True
            elif e.words[0] == "jcinit" and len(e.words) > 2 and e.words[1] == name:
                init_call[e.actor] = int(e.words[2])
        elif e.kind == "R":
            if open_call.get(e.actor):
                lines.append("ret %d %s" % (e.actor, e.words[1]))
                src.append(e)
                open_call[e.actor] = False
            elif init_call.get(e.actor) is not None:
                lines.append("end")
                src.append(None)
                out.append((lines, src, curn))
                curn = init_call[e.actor]
                init_call[e.actor] = None
                lines, src = ["begin %d %d" % (nthreads, curn)], [None]
                f = {k: rx.search(" ".join(e.words)) for k, rx in _F.items()}
                if all(f.values()):
                    lines.append("obs J %s %s %s %s 0" % (f["state"].group(1), f["n"].group(1), f["bits"].group(1), f["mask"].group(1)))
                    src.append(e)
                if e.words[1] != "0":
                    lines.append("obs ? jcinit returned %s" % e.words[1])
                    src.append(e)
        elif e.kind == "P":
            if len(e.words) < 3 or e.words[1] != name or e.actor is None:
                continue
            f = {k: rx.search(e.snap) for k, rx in _F.items()}
            qm = _Q.search(e.snap)
            if not all(f.values()) or not qm:
                obs = "?"
            else:
                q = [x[1:] for x in qm.group(1).split(",") if x]
                obs = "J %s %s %s %s %d %s" % (f["state"].group(1), f["n"].group(1), f["bits"].group(1),
                                               f["mask"].group(1), len(q), " ".join(q))
            lines.append("tick %d %s %s %s %s" % (e.actor, e.ctx, e.words[0], _val(e.words[2]), obs))
            src.append(e)
    lines.append("end")
    src.append(None)
    out.append((lines, src, curn))
    return out


def jc_block(name, nparam, nthreads, events):
    """(lines, src) of the object's FIRST incarnation (the whole trace when the program never re-initialises the
    object); kept for the modules that project their own programs (tools/props/compose.py)"""
    lines, src, _ = jc_blocks(name, nparam, nthreads, events)[0]
    return lines, src


# ------------------------------------------------------------------------------------------
# the independent oracle of the property (on the trace of the real library; no model involved)
# ------------------------------------------------------------------------------------------
def oracle(case, res):
    """returns a list of failure messages (empty = the property holds on this run)"""
    objs, threads, _, _ = trace.parse_case(case)
    N = {n: (p[0] if p else 0) for n, (k, p) in objs.items() if k == "jc"}
    fails = []
    if res["verdict"] is None:
        fails.append("run did not complete (exit status %s): %s" % (res["rc"], res["stderr"].strip()[-200:]))
    elif not res["verdict"].startswith("DONE"):
        fails.append("verdict %s: a thread is left blocked although every decrement was issued" % res["verdict"])
    dec_started = {j: 0 for j in N}
    dec_returned = {j: 0 for j in N}
    cur = {}                    # thread -> [op, obj, late?, points on obj during this call]
    waited = {}                 # thread -> (counter, incarnation) whose jcwait it has completed
    inc = {j: 0 for j in N}     # incarnation of the object (completed jcinit calls)
    for e in res["events"]:
        if e.kind == "C":
            op = e.words[0]
            if op == "jcinit" and e.words[1] in N:
                cur[e.actor] = ["jcinit", e.words[1], int(e.words[2]), "attr" in e.words[3:]]
            elif op in ("jcwait", "jcdec") and e.words[1] in N:
                j = e.words[1]
                if op == "jcdec":
                    dec_started[j] += 1
                cur[e.actor] = [op, j, op == "jcwait" and dec_returned[j] >= N[j], []]
            elif op == "get":
                cur[e.actor] = ["get", e.words[1], False, []]
            else:
                cur[e.actor] = None
        elif e.kind == "P":
            c = cur.get(e.actor)
            if c and c[0] in ("jcwait", "jcdec") and e.words[1] == c[1]:
                c[3].append(e.words[0])
            if e.words[0] == "wakemany.push" and e.words[1] in N:
                j = e.words[1]
                if dec_started[j] < N[j]:
                    fails.append("step %d: %s is pushed back to a run queue after only %d of %d decrements of %s were even issued"
                                 % (e.step, e.words[2], dec_started[j], N[j], j))
        elif e.kind == "R":
            c = cur.get(e.actor)
            if not c:
                continue
            val = int(e.words[1])
            if c[0] == "jcinit":
                # init does not depend on what the object held before nor on attr: state 0, fields of N
                j, n2, attr = c[1], c[2], c[3]
                f = {k: rx.search(" ".join(e.words)) for k, rx in _F.items()}
                got = {k: int(m.group(1)) for k, m in f.items() if m}
                exp = {"state": 0, "n": n2, "bits": n2.bit_length(), "mask": (1 << n2.bit_length()) - 1}
                if val != 0 or got != exp:
                    fails.append("step %d: myth_join_counter_init(%s, %s, %d) on a counter that had completed %d round(s) "
                                 "(N was %d) returned %d and left %s, expected %s" % (
                                     e.step, j, "&attr" if attr else "NULL", n2, inc[j] + (1 if dec_returned[j] >= N[j] and N[j] else 0),
                                     N[j], val, " ".join("%s=%s" % (k, got.get(k)) for k in exp), " ".join("%s=%d" % kv for kv in exp.items())))
                N[j], dec_started[j], dec_returned[j] = n2, 0, 0
                inc[j] += 1
            elif c[0] == "jcwait":
                j = c[1]
                if val != 0:
                    fails.append("step %d: jcwait %s returned %d" % (e.step, j, val))
                if dec_started[j] < N[j]:
                    fails.append("step %d: t%d returned from jcwait %s after only %d of %d decrements were issued"
                                 % (e.step, e.actor, j, dec_started[j], N[j]))
                if c[2] and c[3] != ["jc.wait.read"]:
                    fails.append("step %d: t%d called jcwait %s after all %d decrements had returned, but it did not return at its first read: %s"
                                 % (e.step, e.actor, j, N[j], ",".join(c[3])))
                waited.setdefault(e.actor, set()).add((j, inc[j]))
            elif c[0] == "jcdec":
                j = c[1]
                dec_returned[j] += 1
                if val != 0:
                    fails.append("step %d: jcdec %s returned %d" % (e.step, j, val))
            elif c[0] == "get":
                m = re.match(r"p(\w+?)(?:r(\d+))?_(\d+)$", c[1])
                if m and (m.group(1), int(m.group(2) or 0)) in waited.get(e.actor, ()) and val != 1:
                    fails.append("step %d: t%d passed jcwait %s (incarnation %s) but predecessor %s has not run (flag %s = %d): "
                                 "released before the N-th decrement" % (e.step, e.actor, m.group(1), m.group(2) or 0, m.group(3), c[1], val))
            cur[e.actor] = None
    return fails


def derived_events(res, h):
    """rare situations the quick tier must exercise (counted from the trace)"""
    pend = {}                   # thread -> (kind, val) of its pending CAS point
    incall = {}
    N = dict(res["jcs"])
    dec_ret = {j: 0 for j in N}
    indec, late = {}, {}
    for e in res["events"]:
        if e.kind == "S" and e.words and e.words[0] == "wakemany.spin":
            h["wakemany.spin"] = h.get("wakemany.spin", 0) + 1
        if e.kind == "C" and e.words[0] == "jcinit" and e.words[1] in N:
            N[e.words[1]] = int(e.words[2])
            dec_ret[e.words[1]] = 0
            k = "jcinit.attr" if "attr" in e.words[3:] else "jcinit.null"
            h[k] = h.get(k, 0) + 1
        if e.kind == "C":
            indec[e.actor] = e.words[1] if e.words[0] == "jcdec" and e.words[1] in N else None
        if e.kind == "R" and indec.get(e.actor):
            dec_ret[indec[e.actor]] += 1
            indec[e.actor] = None
        if e.kind == "C" and e.words[0] == "jcwait" and e.words[1] in N:
            incall[e.actor] = []
            late[e.actor] = dec_ret[e.words[1]] >= N[e.words[1]]
        if e.kind == "R" and e.actor in incall:
            pts = incall.pop(e.actor)
            if pts == ["jc.wait.read"]:
                h["wait.first.read.N"] = h.get("wait.first.read.N", 0) + 1
                if late.get(e.actor):
                    h["wait.late.immediate"] = h.get("wait.late.immediate", 0) + 1
            if "blockq.enq" in pts:
                h["wait.slept"] = h.get("wait.slept", 0) + 1
        if e.kind != "P":
            continue
        pid = e.words[0]
        if e.actor in incall and pid.startswith(("jc.wait", "blockq")):
            incall[e.actor].append(pid)
        st = _F["state"].search(e.snap)
        n = _F["n"].search(e.snap)
        mk = _F["mask"].search(e.snap)
        if not (st and n and mk):
            continue
        st, n, mk = int(st.group(1)), int(n.group(1)), int(mk.group(1))
        key = (e.actor, e.words[1])
        if pid == "jc.wait.read" and pend.get(key) == "wait.cas.fail" and (st & mk) == n:
            h["wait.cas.fail.then.N"] = h.get("wait.cas.fail.then.N", 0) + 1
        pend[key] = None
        if pid in ("jc.wait.cas", "jc.dec.cas") and e.words[2] not in ("big", "-") and int(e.words[2]) != st:
            k = "wait.cas.fail" if pid == "jc.wait.cas" else "dec.cas.fail"
            h[k] = h.get(k, 0) + 1
            pend[key] = k
    return h


# ------------------------------------------------------------------------------------------
def run_one(exe, drv, case, wd, name):
    r = trace.run_case(exe, case, wd, name, timeout=60)
    jcs, nt = jc_objects(case)
    blocks, incs = [], []
    for j, n in jcs:
        for i, (lines, src, ni) in enumerate(jc_blocks(j, n, nt, r["events"])):
            blocks.append((lines, src))
            incs.append((j if i == 0 else "%s#%d" % (j, i), ni))
    res = {"case": case, "rc": r["rc"], "verdict": r["verdict"], "events": r["events"], "stderr": r["out"][-500:],
           "blocks": blocks, "jcs": jcs, "incs": incs}
    return res


def validate(drv, results):
    """replay all blocks of all runs through the extracted model in one driver process"""
    allb = [b for r in results for b in r["blocks"]]
    out = trace.validate_blocks(drv, allb) if allb else []
    i = 0
    for r in results:
        r["model"] = out[i:i + len(r["blocks"])]
        i += len(r["blocks"])
        r["fail_context"] = []
        for (j, _), b, x in zip(r["incs"], r["blocks"], r["model"]):
            if x.startswith("FAIL"):
                k = int(x.split()[1])
                r["fail_context"].append({"object": j, "verdict": x, "model_input_tail": b[0][max(0, k - 8):k + 1],
                                          "trace_line": b[1][k].raw if 0 <= k < len(b[1]) and b[1][k] is not None else None})


def search_failing(ctx, exe, case, tries):
    """a model disagreement without oracle failure: look for a genuine failing run of the same program
    under other schedules (more preemption, more workers)"""
    objs, threads, scripts, params = trace.parse_case(case)
    body = "\n".join(l for l in case.split("\n") if l.split() and l.split()[0] in ("obj", "thread", "maxsteps"))
    wd = os.path.join(ctx.dir, "search")
    for i in range(tries):
        c = "workers %d\nseed %d\npswitch %d\n%s\n" % (ctx.rng.rng(1, 4), ctx.rng.rng(1, 1 << 30), ctx.rng.choice([35, 60, 75, 90]), body)
        r = trace.run_case(exe, c, wd, "s%03d" % (i % 8), timeout=60)
        res = {"case": c, "rc": r["rc"], "verdict": r["verdict"], "events": r["events"], "stderr": r["out"][-500:]}
        f = oracle(c, res)
        if f:
            return c, res, f
    return None


def run(ctx):
    broken, log = ctx.prove("Properties_C07.v", "Properties_C07")
    exe, unit, drv = build(ctx)

    # ---- unit correspondence: calc_bits / init fields --------------------------------------
    pcases = preset_cases(ctx)
    rcases = reinit_cases(ctx)
    ucases = pcases + rcases + unit_cases(ctx)
    wline, wbad = widths_obligation(unit)
    uimpl, rc1, _ = vlib.run_lines([unit], ucases, timeout=300)
    umodel, rc2, _ = vlib.run_lines([drv], ucases, timeout=300)
    udiffs = vlib.diff_lines(ucases, uimpl, umodel)
    ufail = []
    for i, c in enumerate(ucases):
        msg = unit_oracle(c, uimpl[i] if i < len(uimpl) else "<no output>")
        if msg:
            ufail.append((c, uimpl[i] if i < len(uimpl) else "<no output>", msg))

    # ---- protocol runs ----------------------------------------------------------------------
    nprog = 250 if not ctx.thorough else 4000
    corpus = corpus_cases()
    cases = [c for _, c in corpus] + gen_cases(ctx, nprog)
    wd = os.path.join(ctx.dir, "runs")
    results = [run_one(exe, drv, c, wd, "c%02d" % (i % 16)) for i, c in enumerate(cases)]
    validate(drv, results)
    hist = {}
    ofail, mfail = [], []
    dist = {"N": {}, "workers": {}, "pswitch": {}, "threads": {}, "verdict": {}}
    ev_total = 0
    for r in results:
        for e in r["events"]:
            if e.kind == "P":
                hist[e.words[0]] = hist.get(e.words[0], 0) + 1
        derived_events(r, hist)
        f = oracle(r["case"], r)
        if f:
            ofail.append((r, f))
        if any(x.startswith("FAIL") for x in r["model"]):
            mfail.append(r)
        _, _, _, params = trace.parse_case(r["case"])
        for j, n in r["incs"]:
            dist["N"][str(n)] = dist["N"].get(str(n), 0) + 1
        for k in ("workers", "pswitch"):
            dist[k][params.get(k, "?")] = dist[k].get(params.get(k, "?"), 0) + 1
        nt = str(r["case"].count("\nthread "))
        dist["threads"][nt] = dist["threads"].get(nt, 0) + 1
        v = (r["verdict"] or "none").split()[0]
        dist["verdict"][v] = dist["verdict"].get(v, 0) + 1
        ev_total += sum(int(x.split()[1]) for x in r["model"] if x.startswith("ok"))
    required = POINTS + DERIVED
    missing = [p for p in required if not hist.get(p)]
    mine = {k: hist.get(k, 0) for k in required}

    ctx.cov["correspondence"] = {
        "unit_cases": len(ucases), "unit_disagreements": len(udiffs), "unit_oracle_failures": len(ufail),
        "preset_cases": len(pcases), "reinit_cases": len(rcases), "word_widths": wline, "word_width_mismatches": wbad,
        "cases": len(cases), "corpus_cases": len(corpus), "blocks_replayed": sum(len(r["blocks"]) for r in results),
        "model_events_replayed": ev_total, "disagreements": len(mfail), "oracle_failures": len(ofail),
        "input_distribution": dist, "point_histogram": mine, "points_never_hit": missing}
    ctx.cov["evaluations"] = ev_total + len(ucases)
    ctx.cov["samples"] += [{"case": cases[i], "verdict": results[i]["verdict"], "model": results[i]["model"]}
                           for i in (0, len(cases) // 2, len(cases) - 1)]
    ctx.cov["samples"] += [{"case": ucases[i], "impl": uimpl[i] if i < len(uimpl) else None,
                            "model": umodel[i] if i < len(umodel) else None} for i in (0, len(ucases) // 2)]
    ctx.cov["trusted_base"] += [
        "extraction: ExtrOcamlBasic only; ocaml/driver_C07.ml, ocaml/zio.ml",
        "harness/lib_interp.c (schedule controller: one participant at a time, POINT line written immediately before the access); "
        "harness/c07_unit.c (incl. the white-box preset: N-1 added to jc->state through the struct stands for N-1 decrements; "
        "sizeof obligations on state / n_threads / state_mask); tools/trace.py parse_trace; the projection jc_blocks in tools/props/c07.py",
        "modelled, not verified here: sleep-queue enqueue/dequeue as one atomic step each (spinlock-protected list, C06's concern); "
        "the run-queue push/pop and the context switch (C01/C02/C03); myth_block_on_queue's run-queue pop has no model step"]

    # ---- verdicts -----------------------------------------------------------------------------
    if ufail:
        c, o, msg = ufail[0]
        exp = "see calc_bits_spec"
        if c.startswith("preset"):
            mo, _, _ = vlib.run_lines([drv], [c])
            exp = mo[0] if mo else "all k waiters released, queue empty, word = (k << bits(N)) | N"
        ctx.violation("oracle", msg, {"unit_case": c, "observed": o, "expected": exp, "level": "unit (real runtime, white-box preset)"
                                      if c.startswith("preset") else "unit", "word_widths": wline, "word_width_mismatches": wbad,
                                      "all_failing": [(a, b, m) for a, b, m in ufail[:20]]}, found=True)
    if ofail:
        r, f = ofail[0]
        head = ([m for m in f if "released before" in m or "myth_join_counter_init" in m] + f)[0]   # the cause before the symptom
        ctx.violation("oracle", head, {"case": r["case"], "observed": {"verdict": r["verdict"], "rc": r["rc"], "failures": f[:10],
                                                                        "stderr": r["stderr"][-300:]},
                                       "expected": "DONE, every predecessor flag = 1 after jcwait, late waits return at their first read",
                                       "level": "library", "model": r["model"], "n_failing_runs": len(ofail)}, found=True)
    if not ufail and not ofail and (mfail or udiffs):
        found = None
        if mfail:
            found = search_failing(ctx, exe, mfail[0]["case"], 150 if not ctx.thorough else 1500)
        if found:
            c, res, f = found
            ctx.violation("oracle", f[0], {"case": c, "observed": {"verdict": res["verdict"], "rc": res["rc"], "failures": f[:10]},
                                           "expected": "see property C07", "level": "library",
                                           "found_by": "schedule search after a model/implementation disagreement",
                                           "disagreement": mfail[0]["fail_context"]}, found=True)
        elif mfail:
            r = mfail[0]
            ctx.violation("correspondence", "model and library disagree on %d run(s); first: %s" % (len(mfail), r["fail_context"][0]["verdict"] if r["fail_context"] else "?"),
                          {"theorem_or_correspondence": "correspondence JoinCounter/JcModel.v <-> src/myth_sync_func.h (join counter)",
                           "case": r["case"], "observed": r["fail_context"], "expected": "ok"}, found=False)
        else:
            i, c, a, b = udiffs[0]
            ctx.violation("correspondence", "calc_bits / init fields: model and code disagree on %d case(s); first: %s" % (len(udiffs), c),
                          {"theorem_or_correspondence": "correspondence calc_bits / jc_init <-> src/myth_sync_func.h",
                           "unit_case": c, "observed": a, "expected": b, "all": udiffs[:20]}, found=False)
    if wbad and not any(v["found"] for v in ctx.violations):
        ctx.violation("widths", "word widths assumed by coq/JoinCounter (64-bit state word) do not hold in the current tree: " + "; ".join(wbad),
                      {"theorem_or_correspondence": "word widths assumed by coq/JoinCounter (64-bit state word): wrap64/add64/shl1 in "
                                                    "JoinCounter/JcModel.v vs. struct myth_join_counter in include/myth/myth.h",
                       "unit_case": "widths 0", "observed": wline,
                       "expected": " ".join("%s=%d" % kv for kv in WIDTHS_ASSUMED.items())}, found=False)
    if missing and not ctx.violations:
        ctx.violation("coverage", "POINT ids / situations never exercised by this run: " + ", ".join(missing),
                      {"theorem_or_correspondence": "coverage of the join counter's program points", "histogram": mine}, found=False)
    if broken:
        ctx.violation("proof", "theorem(s) no longer check: " + ", ".join(broken),
                      {"theorem_or_correspondence": ", ".join(broken), "log": getattr(ctx, "proof_log", log[-3000:])}, found=False)
    return ctx.finish(assumptions=[
        "N in the range of calc_bits (0 <= N < 2^62) and a waiter count up to the number of threads fits above the low field "
        "(representable N nthreads); the public myth_join_counter_init takes an int, i.e. N < 2^31",
        "sequentially consistent interleaving of the POINT-delimited steps (x86 CAS = full barrier; the queue is spinlock-protected)",
        "C07_excess_unreachable: the program issues at most N decrements"])


def replay(ctx, path):
    body = json.load(open(path))
    exe, unit, drv = build(ctx)
    if "unit_case" in body:
        c = body["unit_case"]
        impl, _, _ = vlib.run_lines([unit], [c])
        model, _, _ = vlib.run_lines([drv], [c])
        print("case:  ", c)
        print("impl:  ", impl[0] if impl else None)
        print("model: ", model[0] if model else None)
        print("oracle:", (unit_oracle(c, impl[0] if impl else "<no output>") if not c.startswith("widths") else None)
              or "holds on this case")
        print("widths:", widths_obligation(unit))
    if "case" in body:
        c = body["case"]
        r = run_one(exe, drv, c, os.path.join(ctx.dir, "replay"), "replay")
        validate(drv, [r])
        print(c)
        print("verdict:", r["verdict"], "rc:", r["rc"])
        for (j, n), m in zip(r["incs"], r["model"]):
            print("model replay of %s (N=%d): %s" % (j, n, m))
        for f in r["fail_context"]:
            print("  ", json.dumps(f))
        print("oracle:", oracle(c, r) or "property holds on this run")
    return 0
