"""C19 — DAG files are well formed and survive a dump / read / convert round trip (DESIGN.md section 4, C19).

prove -> build (profiler sources of the current tree + harness/c19_dump.c; extracted model driver) ->
regenerate the struct layout from the current headers (Coq file in build/C19/gen, layout_wf by vm_compute) ->
generate task programs -> run the real recorder / dumper / reader / converter and the extracted model on the
same recorded tree -> diff -> independent structural validator (the property oracle) on the real output."""
import os, json, re, subprocess, shutil
import vlib

VF = ["DagFile/FlattenModel.v", "DagFile/PruneModel.v", "DagFile/CodecModel.v", "DagFile/ChronoModel.v", "DagFile/DagSpec.v"]
PROF_SRCS = ["chronological.c", "dag_recorder.c", "dag_recorder_no_inl.c", "dr_dump.c", "gen_dot.c", "gen_gpl.c",
             "gen_stat.c", "gen_text.c", "interpolate_counters.c", "options.c", "papi_counters.c", "read_dag.c"]

# canonical field positions (the same table as coq/DagFile/FlattenModel.v)
F_START_T, F_START_FILE, F_START_FIDX, F_START_LINE = 0, 7, 8, 9
F_END_T, F_END_FILE, F_END_FIDX, F_END_LINE = 10, 17, 18, 19
F_T1, F_KIND, F_INEDGE, F_EB, F_EE, F_OA, F_OB = 21, 44, 45, 54, 55, 56, 57
N_INFO, N_NODE = 54, 58
K_CREATE, K_SECTION, K_TASK = 0, 4, 5


# ----------------------------------------------------------------------------------------------
# build
# ----------------------------------------------------------------------------------------------

def prof_dir():
    return os.path.join(vlib.REPO, "src", "profiler")


def build_harness(ctx):
    pd = prof_dir()
    flags = ["-w", "-O0", "-g", "-DMYTH_VERIF", "-I" + pd]
    hsrc = os.path.join(vlib.VERIF, "harness", "c19_dump.c")
    key = vlib.sha(vlib.repo_src_hash(os.path.join("src", "profiler")), vlib.file_sha(hsrc), " ".join(flags))[:16]
    d = os.path.join(vlib.BUILD, "C19", "bin", key)
    exe = os.path.join(d, "c19_dump")
    with vlib.Lock("c19-" + key):
        if os.path.exists(exe):
            return exe
        os.makedirs(d, exist_ok=True)
        procs = []
        for s in PROF_SRCS:
            o = os.path.join(d, s.replace(".c", ".o"))
            procs.append((s, subprocess.Popen(["gcc"] + flags + ["-c", os.path.join(pd, s), "-o", o],
                                              stdout=subprocess.PIPE, stderr=subprocess.STDOUT, text=True)))
        errs = []
        for s, p in procs:
            out, _ = p.communicate()
            if p.returncode != 0:
                errs.append(s + ":\n" + out[-1500:])
        if errs:
            shutil.rmtree(d, ignore_errors=True)
            raise vlib.BuildError("profiler does not compile with -DMYTH_VERIF:\n" + "\n".join(errs))
        objs = [os.path.join(d, s.replace(".c", ".o")) for s in PROF_SRCS]
        try:
            vlib.cc(exe + ".tmp", [hsrc] + objs, flags=flags, libs=["-lpthread"])
        except vlib.BuildError:
            shutil.rmtree(d, ignore_errors=True)
            raise
        os.rename(exe + ".tmp", exe)
        vlib.prune_cache(os.path.join(vlib.BUILD, "C19", "bin"), keep=6)
    return exe


def build_dag2any(ctx, exe):
    """the converter binary of the current tree (src/profiler/dag2any/dag2any.c), linked with the profiler objects
    the harness was built from; None when the tree has no such source"""
    src = os.path.join(prof_dir(), "dag2any", "dag2any.c")
    if not os.path.exists(src):
        return None
    d = os.path.dirname(exe)
    out = os.path.join(d, "dag2any")
    with vlib.Lock("c19-d2a-" + os.path.basename(d)):
        if os.path.exists(out):
            return out
        cfg = vlib.ensure_config_h()
        objs = [os.path.join(d, x.replace(".c", ".o")) for x in PROF_SRCS]
        has_sql = bool(re.search(r"^#define HAVE_SQLITE3_H 1", open(os.path.join(cfg, "config.h")).read(), re.M))
        flags = ["-w", "-O0", "-g", "-DMYTH_VERIF", "-DDAG_RECORDER=2", "-I" + cfg, "-I" + prof_dir(),
                 "-I" + os.path.join(prof_dir(), "dag2any")]
        vlib.cc(out + ".tmp", [src] + objs, flags=flags, libs=["-lpthread"] + (["-lsqlite3"] if has_sql else []))
        os.rename(out + ".tmp", out)
    return out


def build(ctx):
    exe = build_harness(ctx)
    drv = vlib.build_driver("C19", "Extract_C19.v", "driver_C19.ml", VF)
    return exe, drv


# ----------------------------------------------------------------------------------------------
# layout: regenerated from the current headers on every run
# ----------------------------------------------------------------------------------------------

def get_layout(exe):
    rc, out = vlib.sh([exe, "--layout"], timeout=30)
    line = [l for l in out.split("\n") if l.startswith("LAYOUT")]
    if rc != 0 or not line:
        raise vlib.BuildError("layout probe failed: " + out[-500:])
    return line[0]


def parse_layout(line):
    t = line.split()
    pos = [0]

    def nx():
        pos[0] += 1
        return t[pos[0] - 1]

    def ex(s):
        x = nx()
        assert x == s, (x, s)
    L = {}
    ex("LAYOUT"); ex("le"); L["le"] = int(nx()); ex("long"); L["long"] = int(nx()); ex("ptr"); L["ptr"] = int(nx())
    ex("top"); k = int(nx()); L["top"] = [int(nx()) for _ in range(k)]
    for tag in ("node", "edge", "strtab"):
        ex(tag); size = int(nx()); nf = int(nx())
        L[tag] = {"size": size, "fields": [(int(nx()), int(nx()), int(nx())) for _ in range(nf)]}
    ex("union_ok"); L["union_ok"] = int(nx())
    ex("section"); L["section"] = int(nx()); ex("create"); L["create"] = int(nx())
    ex("ek"); L["ek"] = [int(nx()) for _ in range(5)]
    ex("hdr"); L["hdrlen"] = int(nx()); L["hdr"] = bytes.fromhex(nx())
    return L


def coq_sdesc(d):
    return "(mk_sdesc %d [%s])" % (d["size"], "; ".join("mk_fdesc %d %d %s" % (o, s, "true" if g else "false")
                                                       for o, s, g in d["fields"]))


def gen_layout_v(ctx, L):
    """writes build/C19/gen/DrLayout.v and compiles it: layout_wf by vm_compute, enum constants,
    and the round-trip theorem instantiated at the current layout.  Returns (ok, log)."""
    gd = os.path.join(ctx.dir, "gen")
    os.makedirs(gd, exist_ok=True)
    txt = "\n".join([
        "(* GENERATED by tools/props/c19.py from the headers of the current tree - do not edit *)",
        "From Coq Require Import ZArith List Bool.",
        "From MT Require Import DagFile.FlattenModel DagFile.CodecModel DagFile.CodecProofs.",
        "Import ListNotations.",
        "Local Open Scope Z_scope.",
        "Definition cur_layout : layout :=",
        "  mk_layout %s %d %d [%s]" % ("true" if L["le"] else "false", L["long"], L["ptr"], "; ".join(map(str, L["top"]))),
        "    " + coq_sdesc(L["node"]),
        "    " + coq_sdesc(L["edge"]),
        "    " + coq_sdesc(L["strtab"]),
        "    [%s]." % "; ".join(str(b) for b in L["hdr"]),
        "Lemma cur_layout_wf : layout_wf cur_layout = true.",
        "Proof. vm_compute. reflexivity. Qed.",
        "Lemma cur_header_len : length (l_hdr cur_layout) = %d%%nat." % L["hdrlen"],
        "Proof. reflexivity. Qed.",
        "Lemma cur_union_ok : %d = 1." % L["union_ok"],
        "Proof. reflexivity. Qed.",
        "Lemma cur_enums_ok : (%d, %d, %d, %d, %d, %d, %d) =" % tuple([L["section"], L["create"]] + L["ek"]),
        "  (K_section, K_create, EK_end, EK_create, EK_create_cont, EK_wait_cont, EK_other_cont).",
        "Proof. reflexivity. Qed.",
        "Theorem C19_roundtrip_current : forall G jI jC, dag_fits cur_layout G ->",
        "  read_dag cur_layout (write_dag cur_layout jI jC G) = Some G.",
        "Proof. exact (codec_roundtrip cur_layout cur_layout_wf). Qed.",
        "Print Assumptions C19_roundtrip_current.", ""])
    p = os.path.join(gd, "DrLayout.v")
    open(p, "w").write(txt)
    with vlib.Lock("coq"):
        rc, out = vlib.sh(["coqc", "-Q", vlib.COQ, "MT", "-Q", gd, "C19Gen", p], cwd=gd, timeout=600)
    return rc == 0 and "Closed under the global context" in out, out


def file_mask(L, n, m, sn):
    """byte positions of a dag file that are don't-care: struct padding and the two pointer words of the
    string table header"""
    def pads(d):
        cov = set()
        for o, s, _ in d["fields"]:
            cov.update(range(o, o + s))
        return [b for b in range(d["size"]) if b not in cov]
    mask = set()
    base = L["hdrlen"] + sum(L["top"])
    pn, pe = pads(L["node"]), pads(L["edge"])
    for i in range(n):
        mask.update(base + i * L["node"]["size"] + b for b in pn)
    base += n * L["node"]["size"]
    for j in range(m):
        mask.update(base + j * L["edge"]["size"] + b for b in pe)
    base += m * L["edge"]["size"]
    mask.update(base + b for b in pads(L["strtab"]))
    for o, s, _ in L["strtab"]["fields"][2:4]:
        mask.update(range(base + o, base + o + s))
    return mask


# ----------------------------------------------------------------------------------------------
# translator: the string interning of the current dr_dump.c -> find_ir / store_ir (coq/DagFile/InternModel.v)
# ----------------------------------------------------------------------------------------------

_TOK = re.compile(r"""\s*("(?:\\.|[^"\\])*"|'(?:\\.|[^'\\])*'|[A-Za-z_]\w*|\d+\w*|->|\+\+|--|==|!=|<=|>=|&&|\|\||\+=|-=|<<|>>|.)""", re.S)


def c_tokens(txt):
    return [t for t in _TOK.findall(txt) if t.strip()]


def _match(toks, i, op, cl):
    d = 0
    while i < len(toks):
        if toks[i] == op:
            d += 1
        elif toks[i] == cl:
            d -= 1
            if d == 0:
                return i
        i += 1
    raise ValueError("unbalanced " + op)


def _stmt(toks, i):
    """parse one statement starting at toks[i]; returns (stmt, next index)"""
    t = toks[i]
    if t == "{":
        j = _match(toks, i, "{", "}")
        body, k = [], i + 1
        while k < j:
            st, k = _stmt(toks, k)
            body.append(st)
        return ("block", body), j + 1
    if t == "if":
        j = _match(toks, i + 1, "(", ")")
        cond = toks[i + 2:j]
        th, k = _stmt(toks, j + 1)
        el = None
        if k < len(toks) and toks[k] == "else":
            el, k = _stmt(toks, k + 1)
        return ("if", cond, th, el), k
    if t == "for":
        j = _match(toks, i + 1, "(", ")")
        parts, cur, d = [], [], 0
        for x in toks[i + 2:j]:
            if x in "([{":
                d += 1
            elif x in ")]}":
                d -= 1
            if x == ";" and d == 0:
                parts.append(cur); cur = []
            else:
                cur.append(x)
        parts.append(cur)
        body, k = _stmt(toks, j + 1)
        return ("for", parts, body), k
    if t == "while":
        j = _match(toks, i + 1, "(", ")")
        body, k = _stmt(toks, j + 1)
        return ("while", toks[i + 2:j], body), k
    if t == "do":
        body, k = _stmt(toks, i + 1)
        j = _match(toks, k + 1, "(", ")")
        return ("do", body, toks[k + 2:j]), j + 2
    if t in ("continue", "break"):
        return (t,), i + 2
    if t == "goto":
        return ("goto",), i + 3
    # return / expression / declaration: up to the ';' at nesting depth 0
    d, j = 0, i
    while j < len(toks):
        if toks[j] in "([{":
            d += 1
        elif toks[j] in ")]}":
            d -= 1
        elif toks[j] == ";" and d == 0:
            break
        j += 1
    if t == "return":
        return ("return", toks[i + 1:j]), j + 1
    return ("expr", toks[i:j]), j + 1


def c_function(txt, name):
    """(parameter names, statements) of a function of the preprocessed text, or None"""
    m = re.search(r"\b%s\s*\(([^;{)]*)\)\s*\{" % re.escape(name), txt)
    if not m:
        return None
    i, depth = m.end(), 1
    while i < len(txt) and depth:
        depth += {"{": 1, "}": -1}.get(txt[i], 0)
        i += 1
    params = [re.findall(r"[A-Za-z_]\w*", p)[-1] for p in m.group(1).split(",") if re.findall(r"[A-Za-z_]\w*", p)]
    toks = c_tokens("{" + txt[m.end():i])
    st, _ = _stmt(toks, 0)
    return params, st[1]


def c_function_text(txt, name):
    """raw text of the body of a function of the preprocessed text, or None"""
    m = re.search(r"\b%s\s*\(([^;{)]*)\)\s*\{" % re.escape(name), txt)
    if not m:
        return None
    i, depth = m.end(), 1
    while i < len(txt) and depth:
        depth += {"{": 1, "}": -1}.get(txt[i], 0)
        i += 1
    return txt[m.end():i]


INTERN_FUNCS = ("dr_string_table_find", "dr_string_table_append", "dr_string_table_intern", "dr_string_table_flatten")


def translate_wrapper(txt, problems):
    """dr_string_table_intern as a list of wstmt (coq/DagFile/InternModel.v): the model intern_sem is
    [WFind; WAppendIfNew; WReturnIdx] and nothing else; any other statement is WOther.  Also counts the
    `static` locals of the four interning functions."""
    fi = c_function(txt, "dr_string_table_intern")
    if not fi:
        problems.append("dr_string_table_intern not found in dr_dump.c")
        return ["WOther"], 0
    params, body = fi
    if len(params) != 2:
        problems.append("dr_string_table_intern: expected the parameters (table, string)")
        return ["WOther"], 0
    t, key = params
    call = "dr_string_table_find(%s,%s)" % (t, key)
    app = "dr_string_table_append(%s,%s)" % (t, key)
    stmts, idx = [], None

    def flat(st):
        if st[0] == "block":
            return [y for x in st[1] for y in flat(x)]
        return [st]
    for st in body:
        k = st[0]
        j = "".join(st[1]) if k in ("expr", "return") else ""
        if k == "expr" and "static" not in st[1]:
            tk = st[1]
            nc = len(c_tokens(call))
            if len(tk) >= nc + 2 and tk[-nc - 1] == "=" and "".join(tk[-nc:]) == call and \
               all(x in ("long", "int", "unsigned", "signed", "size_t", "ssize_t") for x in tk[:-nc - 2]) and idx is None:
                idx = tk[-nc - 2]
                stmts.append("WFind")
                continue
            if len(tk) >= 2 and all(x in ("long", "int", "unsigned", "signed", "size_t", "ssize_t") for x in tk[:-1]) and \
               re.match(r"^[A-Za-z_]\w*$", tk[-1]) and tk[-1] not in (t, key):
                continue                                # a plain declaration without initialiser
        if k == "if" and idx and st[3] is None and "".join(st[1]) in ("%s==%s->n" % (idx, t), "%s->n==%s" % (t, idx)):
            inner = flat(st[2])
            if len(inner) == 1 and inner[0][0] == "expr" and "".join(inner[0][1]) == app:
                stmts.append("WAppendIfNew")
                continue
        if k == "return" and idx and j == idx:
            stmts.append("WReturnIdx")
            continue
        stmts.append("WOther")
        problems.append("dr_string_table_intern: statement outside find / append-if-new / return index: `%s`"
                        % (" ".join(_all_tokens(st)) or k)[:120])
    nstatic = 0
    for fn in INTERN_FUNCS:
        bt = c_function_text(txt, fn)
        c = len([x for x in c_tokens(bt or "") if x == "static"])
        if c:
            problems.append("%s: %d `static` local(s): the function keeps state between calls, the table is not a function of the names of this dump" % (fn, c))
        nstatic += c
    if stmts != ["WFind", "WAppendIfNew", "WReturnIdx"] and not any(p.startswith("dr_string_table_intern: statement") for p in problems):
        problems.append("dr_string_table_intern is not `idx = find(t, s); if (idx == t->n) append(t, s); return idx;`")
    return stmts, nstatic


def writable_data_symbols(obj):
    """names of the writable data symbols (file-scope or function-static variables) defined by an object file"""
    rc, out = vlib.sh(["nm", obj], timeout=60)
    if rc != 0:
        return None
    res = []
    for l in out.split("\n"):
        w = l.split()
        if len(w) == 3 and w[1] in "bBdDsSgGC":
            res.append(w[2])
    return res


def _strip(toks):
    while len(toks) >= 2 and toks[0] == "(" and _match(toks, 0, "(", ")") == len(toks) - 1:
        toks = toks[1:-1]
    return toks


def _split_and(toks):
    toks = _strip(toks)
    parts, cur, d = [], [], 0
    for x in toks:
        if x in "([{":
            d += 1
        elif x in ")]}":
            d -= 1
        if x == "&&" and d == 0:
            parts.append(cur); cur = []
        else:
            cur.append(x)
    parts.append(cur)
    if len(parts) == 1:
        return [toks]
    res = []
    for p_ in parts:
        res += _split_and(p_)
    return res


def _always_leaves(st):
    k = st[0]
    if k in ("continue", "return"):
        return True
    if k == "block":
        return any(_always_leaves(x) for x in st[1])
    if k == "if":
        return st[3] is not None and _always_leaves(st[2]) and _always_leaves(st[3])
    return False


class InternIR:
    pass


def translate_intern(txt):
    """reads dr_string_table_find / _append / _flatten of the preprocessed dr_dump.c"""
    R = InternIR()
    R.problems = []
    R.exits_src = []
    fa = c_function(txt, "dr_string_table_append")
    ff = c_function(txt, "dr_string_table_find")
    fl = c_function(txt, "dr_string_table_flatten")
    if not (fa and ff and fl):
        R.problems.append("dr_string_table_find / _append / _flatten not found in dr_dump.c")
        R.find = (False, False, False, [])
        R.store = ("CopyOther", "CopyOther", False, False)
        R.wrap = (["WOther"], 0)
        return R
    R.wrap = translate_wrapper(txt, R.problems)
    # ---- append: which field holds the string, which fields hold its length
    aparams, abody = fa
    akey = aparams[-1]
    flat = []

    def flatten_stmts(sts):
        for st in sts:
            if st[0] == "block":
                flatten_stmts(st[1])
            elif st[0] == "if":
                flatten_stmts([st[2]] + ([st[3]] if st[3] else []))
            elif st[0] in ("for", "while"):
                flatten_stmts([st[2]])
            else:
                flat.append(st)
    flatten_stmts(abody)
    sfield, lenfields, akind = None, set(), "CopyOther"
    for st in flat:
        if st[0] != "expr":
            continue
        j = "".join(st[1])
        m = re.match(r"^(\w+)->(\w+)=%s$" % re.escape(akey), j)
        if m:
            sfield, akind = m.group(2), "KeepPointer"
        m = re.match(r"^(\w+)->(\w+)=strdup\(%s\)$" % re.escape(akey), j) or re.match(r"^strcpy\((\w+)->(\w+),%s\)$" % re.escape(akey), j)
        if m:
            sfield, akind = m.group(2), "CopyWithTerminator"
        m = re.match(r"^(\w+)->(\w+)=strlen\(%s\)$" % re.escape(akey), j)
        if m:
            lenfields.add(m.group(2))
    if sfield is None:
        R.problems.append("dr_string_table_append: no statement stores the whole key (cell->s = s, strdup, strcpy)")
        sfield = "s"
    # ---- find
    fparams, fbody = ff
    tvar, key = fparams[0], fparams[-1]
    loops = [(k, st) for k, st in enumerate(fbody) if st[0] in ("for", "while", "do")]
    loop_all = index_ok = notfound_ok = False
    exits = []
    if len(loops) != 1 or loops[0][1][0] != "for":
        R.problems.append("dr_string_table_find: expected exactly one for loop over the cells")
    else:
        li, (_, parts, body) = loops[0]
        init, cond, step = ("".join(x) for x in (parts + [[], [], []])[:3])
        m = re.match(r"^(\w+)=%s->head$" % re.escape(tvar), init)
        X = m.group(1) if m else None
        loop_all = bool(X) and cond in (X, X + "!=0", "0!=" + X, X + "!=((void*)0)") and step == "%s=%s->next" % (X, X)
        if not loop_all:
            R.problems.append("dr_string_table_find: the loop is not `for (c = t->head; c; c = c->next)`")
        X = X or "c"
        # local lengths of the key computed before the loop
        keylens = {"strlen(%s)" % key}
        ivar = None
        for st in fbody[:li]:
            if st[0] == "expr":
                tk = st[1]
                if len(tk) >= 6 and tk[-5:] == ["=", "strlen", "(", key, ")"] and re.match(r"^[A-Za-z_]\w*$", tk[-6]):
                    keylens.add(tk[-6])
                if len(tk) >= 3 and tk[-2:] == ["=", "0"] and re.match(r"^[A-Za-z_]\w*$", tk[-3]):
                    ivar = tk[-3]
        celllens = {"strlen(%s->%s)" % (X, sfield)} | {"%s->%s" % (X, f) for f in lenfields}
        cs = "%s->%s" % (X, sfield)
        helpers = {}

        def classify(toks, depth=0):
            """list of atoms for one (positive) condition"""
            res = []
            for a in _split_and(toks):
                j = "".join(_strip(a))
                neg = False
                core = j
                m = re.match(r"^!(.*)$", j)
                if m:
                    neg, core = True, "".join(_strip(c_tokens(m.group(1))))
                m = re.match(r"^(.*)==0$", j) or re.match(r"^0==(.*)$", j)
                if m and not neg:
                    neg, core = True, "".join(_strip(c_tokens(m.group(1))))
                kind = None
                if neg:
                    m = re.match(r"^(strcmp|strncmp|memcmp)\((.*)\)$", core)
                    if m:
                        args = _split_args(c_tokens(m.group(2)))
                        if len(args) >= 2 and {args[0], args[1]} == {cs, key}:
                            if m.group(1) == "strcmp" and len(args) == 2:
                                kind = "AStrcmp"
                            elif len(args) == 3:
                                L = args[2]
                                lens = keylens | celllens
                                if any(L in (x + "+1", "1+" + x, "(" + x + ")+1") for x in lens):
                                    kind = "AStrcmp"
                                elif L in lens:
                                    kind = "AMemcmpLen"
                else:
                    m = re.match(r"^(.*)==(.*)$", j)
                    if m and ((m.group(1) in celllens and m.group(2) in keylens) or (m.group(2) in celllens and m.group(1) in keylens)):
                        kind = "ALenEq"
                if kind is None and depth < 2:
                    # a helper of the same file whose body is a single return: inline it
                    m = re.match(r"^(!?)(\w+)\((.*)\)(==0|!=0)?$", j)
                    if m and m.group(2) not in ("strcmp", "strncmp", "memcmp", "strlen"):
                        h = helpers.get(m.group(2)) or c_function(txt, m.group(2))
                        helpers[m.group(2)] = h
                        if h and len(h[1]) == 1 and h[1][0][0] == "return":
                            args = _split_args(c_tokens(m.group(3)))
                            if len(args) == len(h[0]):
                                sub = []
                                for tk in h[1][0][1]:
                                    sub += c_tokens(args[h[0].index(tk)]) if tk in h[0] else [tk]
                                expr = ["("] + sub + [")"]
                                if m.group(1) == "!" or m.group(4) == "==0":
                                    expr = ["!"] + expr
                                if not (m.group(1) == "!" and m.group(4) == "==0"):
                                    res += classify(expr, depth + 1)
                                    continue
                res.append((kind or "APre", j))
            return res

        def walk(sts, conds):
            nonlocal loop_all
            for st in sts:
                k = st[0]
                if k == "block":
                    walk(st[1], conds)
                elif k == "if":
                    walk([st[2]], conds + [(st[1], True)])
                    if st[3] is not None:
                        walk([st[3]], conds + [(st[1], False)])
                    if _always_leaves(st[2]):
                        conds = conds + [(st[1], False)]
                    elif st[3] is not None and _always_leaves(st[3]):
                        conds = conds + [(st[1], True)]
                elif k == "return":
                    atoms = []
                    for c_, pos in conds:
                        atoms += classify(c_) if pos else [("APre", "!(" + "".join(c_) + ")")]
                    exits.append(("".join(st[1]), atoms))
                elif k in ("break", "goto"):
                    loop_all = False
                    R.problems.append("dr_string_table_find: `%s` inside the loop over the cells" % k)
                elif k in ("for", "while", "do"):
                    inner = []
                    _collect_returns(st, inner)
                    if inner:
                        loop_all = False
                        R.problems.append("dr_string_table_find: return inside a nested loop")
        body_sts = body[1] if body[0] == "block" else [body]
        walk(body_sts, [])
        # the index
        last = body_sts[-1] if body_sts else ("expr", [])
        inc = "".join(last[1]) if last[0] == "expr" else ""
        mods = 0
        jbody = "".join(_all_tokens(body))
        if ivar:
            mods = len(re.findall(r"(?<![\w>])%s(\+\+|--|\+=|-=|=(?!=))|(\+\+|--)%s(?!\w)" % (ivar, ivar), jbody))
        index_ok = bool(ivar) and inc in (ivar + "++", "++" + ivar, ivar + "+=1") and mods == 1 and \
            all(e[0] == ivar for e in exits)
        if not index_ok:
            R.problems.append("dr_string_table_find: the returned index is not a counter of the cells passed")
        tail = [st for st in fbody[li + 1:] if st[0] == "return"]
        notfound_ok = bool(ivar) and len(tail) == 1 and "".join(tail[0][1]) == ivar and fbody[-1] is tail[0] and \
            not any(st[0] == "return" for st in fbody[:li])
        if not notfound_ok:
            R.problems.append("dr_string_table_find: the not-found exit does not return the number of cells")
    pre_ids = {}
    ir_exits = []
    for _e, atoms in exits:
        row = []
        for kind, src in atoms:
            if kind == "APre":
                row.append("APre %d" % pre_ids.setdefault(src, len(pre_ids)))
            else:
                row.append(kind)
        ir_exits.append(row)
        R.exits_src.append([src for _k, src in atoms])
        has_full = any(k == "AStrcmp" for k, _ in atoms) or (any(k == "ALenEq" for k, _ in atoms) and any(k == "AMemcmpLen" for k, _ in atoms))
        if not has_full:
            R.problems.append("dr_string_table_find: a cell is accepted (`return`) under `%s` without a comparison of the whole strings"
                              % " && ".join(src for _k, src in atoms))
    if not exits:
        R.problems.append("dr_string_table_find: no found exit inside the loop")
    R.find = (loop_all, index_ok, notfound_ok, ir_exits)
    # ---- flatten
    lparams, lbody = fl
    flat.clear()
    flatten_stmts(lbody)
    js = ["".join(st[1]) for st in flat if st[0] == "expr"]
    lenrx = r"(?:strlen\(\w+->%s\)|\w+->(?:%s))" % (re.escape(sfield), "|".join(map(re.escape, lenfields)) or "\\0")
    fkind = "CopyOther"
    for j in js:
        if re.match(r"^strcpy\(\w+,\w+->%s\)$" % re.escape(sfield), j) or \
           re.match(r"^memcpy\(\w+,\w+->%s,(?:%s\+1|1\+%s)\)$" % (re.escape(sfield), lenrx, lenrx), j):
            fkind = "CopyWithTerminator"
    adv = any(re.match(r"^\w+\+=(?:%s\+1|1\+%s)$" % (lenrx, lenrx), j) and not j.startswith("str_bytes") for j in js) and \
        any(re.match(r"^\w+\[\w+\]=\w+-\w+$", j) for j in js)
    byt = any(re.match(r"^str_bytes\+=(?:%s\+1|1\+%s)$" % (lenrx, lenrx), j) for j in js)
    if fkind != "CopyWithTerminator":
        R.problems.append("dr_string_table_flatten: the string is not copied with its terminator (strcpy / memcpy of length + 1)")
    if not adv:
        R.problems.append("dr_string_table_flatten: write pointer / offsets do not advance by strlen + 1")
    if not byt:
        R.problems.append("dr_string_table_flatten: str_bytes does not count strlen + 1 per string")
    R.store = (akind, fkind, adv, byt)
    return R


def _split_args(toks):
    parts, cur, d = [], [], 0
    for x in toks:
        if x in "([{":
            d += 1
        elif x in ")]}":
            d -= 1
        if x == "," and d == 0:
            parts.append("".join(cur)); cur = []
        else:
            cur.append(x)
    parts.append("".join(cur))
    return parts


def _collect_returns(st, acc):
    k = st[0]
    if k == "return":
        acc.append(st)
    elif k == "block":
        for x in st[1]:
            _collect_returns(x, acc)
    elif k == "if":
        _collect_returns(st[2], acc)
        if st[3]:
            _collect_returns(st[3], acc)
    elif k in ("for", "while"):
        _collect_returns(st[2], acc)
    elif k == "do":
        _collect_returns(st[1], acc)


def _all_tokens(st):
    k = st[0]
    if k in ("expr", "return"):
        return list(st[1]) + [";"]
    if k == "block":
        return [t for x in st[1] for t in _all_tokens(x)]
    if k == "if":
        return list(st[1]) + _all_tokens(st[2]) + (_all_tokens(st[3]) if st[3] else [])
    if k == "for":
        return [t for part in st[1] for t in part] + _all_tokens(st[2])
    if k == "while":
        return list(st[1]) + _all_tokens(st[2])
    if k == "do":
        return _all_tokens(st[1]) + list(st[2])
    return []


def gen_intern_v(ctx, exe=None):
    """translate the interning code of the current tree, write build/C19/gen/DrIntern.v, evaluate the checkers.
    Returns (ok, messages, log)"""
    src = os.path.join(prof_dir(), "dr_dump.c")
    rc, out = vlib.sh("gcc -E -P -DMYTH_VERIF -I%s %s 2>/dev/null" % (prof_dir(), src), timeout=120)
    if rc != 0:
        return False, ["cannot preprocess dr_dump.c"], out[-500:]
    try:
        R = translate_intern(out)
    except (ValueError, IndexError, KeyError) as e:
        return False, ["the interning code of dr_dump.c could not be parsed (%s)" % e], ""
    la, io, nf, exits = R.find
    b = lambda x: "true" if x else "false"
    wst, nstatic = R.wrap
    ndata = 0
    if exe:
        syms = writable_data_symbols(os.path.join(os.path.dirname(exe), "dr_dump.o"))
        if syms:
            # statics defined by the shared headers (dr_options_default_values) show up in every profiler object
            for o in PROF_SRCS:
                if o != "dr_dump.c":
                    syms = [x for x in syms if x not in (writable_data_symbols(os.path.join(os.path.dirname(exe), o.replace(".c", ".o"))) or [])]
        if syms is None:
            ndata = 1
            R.problems.append("dr_dump.o: nm failed, writable data symbols unknown")
        elif syms:
            ndata = len(syms)
            R.problems.append("dr_dump.o defines writable data (%s): dr_dump keeps state between two dumps of one process" % ", ".join(syms[:6]))
    gd = os.path.join(ctx.dir, "gen")
    os.makedirs(gd, exist_ok=True)
    txt = "\n".join([
        "(* GENERATED by tools/props/c19.py from src/profiler/dr_dump.c of the current tree - do not edit *)",
        "From Coq Require Import ZArith List Bool.",
        "From MT Require Import DagFile.FlattenModel DagFile.InternModel DagFile.InternProofs.",
        "Import ListNotations.",
        "(* found exits of dr_string_table_find and their guards, as in the source:",
        "   %s *)" % " | ".join(" && ".join(x) for x in R.exits_src).replace("*)", "* )"),
        "Definition cur_find : find_ir := mk_find_ir %s %s %s [%s]." % (b(la), b(io), b(nf), "; ".join("[" + "; ".join(r) + "]" for r in exits)),
        "Definition cur_store : store_ir := mk_store_ir %s %s %s %s." % (R.store[0], R.store[1], b(R.store[2]), b(R.store[3])),
        "Definition cur_wrap : wrap_ir := mk_wrap_ir [%s] %d %d." % ("; ".join(wst), nstatic, ndata),
        "Lemma cur_find_ok : find_ok cur_find = true.",
        "Proof. vm_compute. reflexivity. Qed.",
        "Lemma cur_wrap_ok : wrap_ok cur_wrap = true.",
        "Proof. vm_compute. reflexivity. Qed.",
        "Lemma cur_store_ok : store_ok cur_store = true.",
        "Proof. vm_compute. reflexivity. Qed.",
        "Theorem C19_intern_injective_current : forall o, (forall k x, o k x x = true) ->",
        "  forall tbl s s', NoDup tbl ->",
        "  let '(t1, i) := intern_sem cur_find o tbl s in let '(t2, j) := intern_sem cur_find o t1 s' in",
        "  (i = j <-> s = s') /\\ NoDup t2.",
        "Proof. exact (fun o => intern_injective cur_find o cur_find_ok). Qed.",
        "Print Assumptions C19_intern_injective_current.", ""])
    p = os.path.join(gd, "DrIntern.v")
    open(p, "w").write(txt)
    with vlib.Lock("coq"):
        rc, log = vlib.sh(["coqc", "-Q", vlib.COQ, "MT", "-Q", gd, "C19Gen", p], cwd=gd, timeout=600)
    ok = rc == 0 and "Closed under the global context" in log
    msgs = list(R.problems)
    if not ok and not msgs:
        msgs.append("find_ok / wrap_ok / store_ok evaluate to false on the translated interning code")
    return ok, msgs, log


# ----------------------------------------------------------------------------------------------
# generators
# ----------------------------------------------------------------------------------------------

# pairs of distinct file names with equal value under common string hashes (computed offline):
#   djb2 h*33+c (also mod 2^32/2^64): c2' = c2 - 33*(c1'-c1);  Java / K&R h*31+c likewise with 31;
#   FNV-1a 32 and sdbm 32: found by a birthday search;  equal length, first and last character, sum and xor of
#   bytes: transpositions
HASH_COLLISIONS = [
    ("solver/blk1R.c", "solver/blk21.c"), ("xaz.c", "xbY.c"), ("src/abz", "src/acY"),      # djb2
    ("xay.c", "xbZ.c"), ("Aa", "BB"), ("dir/AaAa.c", "dir/BBBB.c"),                       # h*31+c
    ("kmtzx.c", "k31cd.c"),                                                                # FNV-1a 32
    ("kac0pq.c", "kqan0a.c"),                                                              # sdbm 32
    ("ab.c", "ba.c"), ("x12y.h", "x21y.h"), ("main_ab.c", "main_ba.c"),                    # length, first/last, sum, xor
    ("aXb", "aYb"),                                                                        # length, first/last
]


def gen_names(r, nf):
    """nf distinct file names.  Half of the runs draw from families in which one name is a proper prefix of
    another (a.c / a.cc / a.c.orig, x / xy, kernel.c / kernel.cc ...), in random order, so that an interning that
    does not compare whole strings merges two of them whichever is met first."""
    names, seen = [], set()

    def add(s):
        if s not in seen and len(names) < nf:
            seen.add(s)
            names.append(s)
    prefixy = r.chance(1, 2)
    if nf >= 2 and r.chance(1, 3):
        # two distinct names that collide under a common string digest
        a, b = r.choice(HASH_COLLISIONS)
        if r.chance(1, 2):
            a, b = b, a
        add(a); add(b)
    while len(names) < nf:
        k = r.below(8 if prefixy else 6)
        if k == 0:
            add("%c.c" % chr(97 + r.below(26)))
        elif k == 1:
            add("src/dir%d/file_%d.cc" % (r.below(4), r.below(1000)))
        elif k == 2:
            add("f%d" % r.below(100000))
        elif k == 3:
            add("/usr/include/very/long/path/number/%d/header_%d.hpp" % (r.below(9), r.below(100)))
        elif k in (4, 5):
            add("t%d.c" % r.below(60))
        else:
            base = r.choice(["a.c", "kernel.c", "x.h", "x", "q", "src/m.c", "t%d.c" % r.below(60), "%c" % chr(97 + r.below(26))])
            fam = [base, base + "c", base + "pp", base + ".orig", base + base, base[:1], base + "0", base[:max(1, len(base) - 1)]]
            r.shuffle(fam)
            for f in fam[:r.rng(2, len(fam))]:
                add(f)
    r.shuffle(names)
    return names


class ProgGen:
    def __init__(self, r, nw, nf, depth, fan, budget):
        self.r, self.nw, self.nf, self.depth, self.fan, self.budget = r, nw, nf, depth, fan, budget
        self.zero = r.chance(1, 6)        # a run with many zero-length intervals
        self.nesty = r.chance(1, 3)       # many nested sections (tg1.run; tg2.run; tg2.wait; tg1.wait)

    def W(self):
        return self.r.below(self.nw)

    def FL(self):
        return [self.r.below(self.nf), self.r.rng(1, 9999)]

    def D(self):
        if self.zero and self.r.chance(1, 2):
            return 0
        return self.r.choice([0, 1, 1, 2, 3, 5, 8, 13, 21, 40, 100])

    def count(self):
        """number of items of a task / section: sometimes none (empty task, section with only a wait)"""
        if self.r.chance(1, 7):
            return self.r.rng(0, self.fan)
        return self.r.rng(1, self.fan + 1)

    def other(self):
        self.budget -= 1
        return ["O", self.D()] + self.FL() + [self.D(), self.W()] + self.FL()

    def task(self, depth, root=False):
        self.budget -= 2
        t = ["T", self.W(), 0 if root else self.D()] + self.FL()
        k = self.count() if self.budget > 0 else 0
        for _ in range(k):
            if self.budget <= 0:
                break
            if self.r.chance(3, 10):
                t += self.other()
            else:
                t += self.section(depth, 0)
        return t + ["E", self.D()] + self.FL()

    def section(self, depth, nest):
        self.budget -= 2
        items = []
        k = self.count() if self.budget > 0 else 0
        first = None
        for _ in range(k):
            if self.budget <= 0:
                break
            y = self.r.below(10)
            if self.nesty and nest < 3 and y >= 5:
                y = 9
            if y < 6 and depth > 0:
                kind = "C"
                self.budget -= 1
                it = ["C", self.D()] + self.FL() + self.task(depth - 1) + [self.D(), self.W()] + self.FL()
            elif y < 8:
                kind = "O"
                it = self.other()
            elif nest < (3 if self.nesty else 2):
                kind = "S"
                it = self.section(depth, nest + 1)
            else:
                continue
            if first is None:
                first = kind
            items += it
        if nest > 0 or first in ("O", "S"):
            b = 1
        else:
            b = self.r.below(2)
        return ["S", b] + items + ["W", self.D()] + self.FL() + [self.D(), self.W()] + self.FL()


def gen_case(r, cid, thorough, hexlim=40, keep=0, force=None, before_cleanup=False, wsa_force=None, names=None, alt=None,
             dump2=None):
    """one profiling session.  [force]: values shared with the previous session of a history that is not
    cleaned up in between (workers, worker-state mode, record-time options, chk).  [names]: the file names of the
    session (a history relates them to the previous session's).  alt 0: every name is one pointer (a __FILE__
    literal), alt 1: two copies at different addresses used alternately.  dump2: dr_dump() is called twice."""
    nw = r.rng(1, 8)
    nf = r.choice([1, 1, 2, 3, 5, 8, 13, 50, r.rng(1, 50)])
    if names is not None:
        nf = len(names)
    if alt is None:
        alt = 0 if r.chance(1, 3) else 1
    if dump2 is None:
        dump2 = 1 if r.chance(1, 6) else 0
    depth = r.choice([0, 1, 2, 2, 3, 3, 4, 5])
    fan = r.choice([0, 1, 2, 2, 3, 3, 4, 5, 6])
    budget = r.choice([6, 20, 50, 100, 200, 300] + ([600, 1200] if thorough else []))
    wsa = 0 if r.chance(1, 5) else 1          # 0: worker states in the linear list + pthread key
    if wsa_force is not None:
        wsa = wsa_force
    if names is None:
        names = gen_names(r, nf)
    if force:
        nw = force["nw"]
    prog = ProgGen(r, nw, nf, depth, fan, budget).task(depth, root=True)
    fam = r.choice(["none", "none", "default", "span", "span", "count", "count", "target", "target"])
    umin, cmax, nct, pth, cmc = 0, 0, 0, 100000, 0
    if fam == "default":
        cmax = 1 << 60
    elif fam == "span":
        umin = r.choice([0, 0, 0, 1, 5, 20, 60])
        cmax = r.choice([0, 3, 10, 30, 100, 400, 1 << 60])
    elif fam == "count":
        cmc = r.choice([1, 2, 3, 4, 5, 8, 13, 30, 40])
    elif fam == "target":
        nct = r.choice([1, 2, 5, 10, 20, 50])
        pth = r.choice([0, 1, 3, 8, 20, 60])
    cfam = r.choice(["none", "all", "span", "span", "count", "count", "count"])
    c_umin, c_cmax, c_cmc = 0, 0, 0
    if cfam == "all":
        c_umin, c_cmax = (1 << 62), (1 << 62)
    elif cfam == "span":
        c_umin = r.choice([0, 0, 1, 5, 20, 60, 200])
        c_cmax = r.choice([0, 3, 10, 30, 100, 400, 1 << 60])
    elif cfam == "count":
        c_cmc = r.choice([1, 2, 3, 5, 8, 13, 30, 40, 100])
        c_umin, c_cmax = (1 << 62), (1 << 62)        # so that only the count test decides
    sc = r.choice([1, 1000, 123456789, (1 << 40) + 7, r.rng(1, 1 << 20)])
    # chk_level=1 turns the recorder's dr_check()s into aborts.  Not when a multi-worker subgraph can be
    # collapsed (count-based contraction, or a span below uncollapse_min): that trips the debugging check
    # dr_check_min_node_count (see notes/C19.md), which is about the recorder's min_node_count bookkeeping
    # (C18), not about the dag file.
    chk = r.below(2) if (fam != "count" and umin == 0) else 0
    if before_cleanup and wsa == 0:
        # dr_cleanup() with chk_level >= 1 aborts when the worker states are kept in the linear list
        # (dr_free_worker_specific_state_array checks array_sz != 0 unconditionally; notes/C19.md, candidate defects)
        chk = 0
    if force:
        wsa, chk, fam = force["wsa"], force["chk"], force["fam"]
        umin, cmax, nct, pth, cmc = force["rec"]
    line = "case %d hex %d keep %d nw %d sc %d chk %d wsa %d alt %d dump2 %d rec %d %d %d %d %d conv %d %d %d files %d %s prog %s" % (
        cid, hexlim, keep, nw, sc, chk, wsa, alt, dump2, umin, cmax, nct, pth, cmc, c_umin, c_cmax, c_cmc, nf, " ".join(names),
        " ".join(map(str, prog)))
    meta = {"id": cid, "workers": nw, "files": nf, "depth": depth, "fan": fan, "rec": fam, "conv": cfam,
            "tokens": len(prog), "chk": chk, "wsa": wsa, "nested_sections": prog.count("S") - 0,
            "names": list(names), "alt": alt, "dump2": dump2,
            "force": {"nw": nw, "wsa": wsa, "chk": chk, "fam": fam, "rec": (umin, cmax, nct, pth, cmc)}}
    return line, meta


def gen_history(r, cid, thorough, keep_first=0):
    """2-3 profiling sessions recorded by ONE process: start/stop/dump[/cleanup]/start/...  Returns
    (harness input line, [(cid, session line)], [meta])"""
    k = r.rng(2, 3)
    cleanup = 1 if r.chance(2, 3) else 0
    mode = r.choice([None, None, 0, 0, 1])       # worker-state mode of the sessions: mixed / all list+key / all array
    # the file names of a session in relation to the previous session's (the harness keeps one pool of names per
    # process, so an equal name is the SAME pointer in every session, like a __FILE__ literal):
    #   single: one name for everything in every session; same: the same names in the same order; perm: the same
    #   names in another order; disjoint: no name in common with any earlier session; free: drawn independently
    single = r.chance(1, 4)
    alt_mode = r.choice([0, 0, 1, None])         # all sessions one pointer per name / all two copies / mixed
    one_name = gen_names(r, 1)
    sessions, metas, force, prev, seen_names = [], [], None, None, set()
    for j in range(k):
        if single:
            plan, names = "single", list(one_name)
        elif j == 0:
            plan, names = "free", None
        else:
            plan = r.choice(["same", "perm", "perm", "disjoint", "free"])
            if plan == "same":
                names = list(prev)
            elif plan == "perm":
                names = list(prev)
                if len(names) > 1:
                    first = names[0]
                    while names[0] == first:
                        r.shuffle(names)
            elif plan == "disjoint":
                names = []
                for x in gen_names(r, r.choice([1, 2, 3, 5, 8])):
                    while x in seen_names or x in names:
                        x = "s%d_%s" % (j, x)
                    names.append(x)
            else:
                names = None
        line, meta = gen_case(r, cid + j, thorough, keep=(keep_first if j == k - 1 else 0), force=(force if not cleanup else None),
                              before_cleanup=bool(cleanup), wsa_force=mode, names=names, alt=alt_mode)
        prev = meta["names"]
        seen_names.update(prev)
        if force is None:
            force = meta["force"]
        meta["history"] = "%d sessions, %s" % (k, "dr_cleanup between" if cleanup else "no cleanup between")
        meta["names_vs_previous_session"] = plan if j > 0 or single else "first"
        sessions.append((cid + j, line))
        metas.append(meta)
    hline = "history h%d %d %d ;; %s" % (cid, k, cleanup, " ;; ".join(l for _, l in sessions))
    return hline, sessions, metas


# ----------------------------------------------------------------------------------------------
# running
# ----------------------------------------------------------------------------------------------

def run_harness(ctx, exe, lines, timeout=900, keep_dir=False):
    rd = os.path.join(ctx.dir, "run")
    shutil.rmtree(rd, ignore_errors=True)
    os.makedirs(rd, exist_ok=True)
    try:
        p = subprocess.run([exe, rd], input="\n".join(lines) + "\n", stdout=subprocess.PIPE, stderr=subprocess.PIPE,
                           text=True, errors="replace", timeout=timeout)
        out, err = p.stdout, p.stderr
    except subprocess.TimeoutExpired as e:
        out = (e.stdout or b"").decode("utf-8", "replace") if isinstance(e.stdout, bytes) else (e.stdout or "")
        err = "[timeout]"
    if not keep_dir:
        shutil.rmtree(rd, ignore_errors=True)
    blocks = split_blocks(out)
    # a history whose recording process died: its sessions that did not get through carry the crash
    for ln in lines:
        w = ln.split(None, 2)
        if w and w[0] == "history" and blocks.get(w[1], {}).get("crash"):
            ids = [x.split()[1] for x in ln.split(";;")[1:]]
            for sid in ids:
                b = blocks.setdefault(sid, {"lines": [], "crash": None, "complete": False})
                if not b["complete"] and not b["crash"]:
                    b["crash"] = blocks[w[1]]["crash"] + "  (the process recording the history died in or before this session)"
    return blocks, err


def split_blocks(out):
    """{id: {"lines": [...], "crash": str|None, "complete": bool}}"""
    res, cur, cid = {}, None, None
    for l in out.split("\n"):
        if l.startswith("BEGIN "):
            cid = l.split()[1]
            cur = {"lines": [], "crash": None, "complete": False}
            res[cid] = cur
        elif l.startswith("END ") and cur is not None:
            cur["complete"] = True
            cur = None
        elif l.startswith("CRASH "):
            w = l.split()
            res.setdefault(w[1], {"lines": [], "crash": None, "complete": False})["crash"] = l
            cur = None
        elif cur is not None and l != "":
            cur["lines"].append(l)
    return res


def tagged(lines, tag):
    return [l for l in lines if l.split(" ", 1)[0] == tag]


def driver_input(layout_line, cases, blocks):
    """cases: list of (id, case_line)"""
    out = [layout_line]
    for cid, cl in cases:
        b = blocks.get(str(cid))
        if not b:
            continue
        tree = tagged(b["lines"], "TREE")
        if not tree:
            continue
        w = cl.split()
        ci = w.index("conv")
        out.append("CASE %s" % cid)
        out.append(tree[0])
        out.append("CONV %s %s %s" % (w[ci + 1], w[ci + 2], w[ci + 3]))
        f1 = tagged(b["lines"], "FILE")
        f3 = tagged(b["lines"], "FILE3")
        out.append("FILE " + (f1[0].split()[1] if f1 and len(f1[0].split()) > 1 else "-"))
        out.append("FILE3 " + (f3[0].split()[1] if f3 and len(f3[0].split()) > 1 else "-"))
        out += tagged(b["lines"], "EV")
        out += tagged(b["lines"], "EV2")
        out.append("END")
    return out


def run_driver(drv, lines, timeout=1200):
    try:
        p = subprocess.run([drv], input="\n".join(lines) + "\n", stdout=subprocess.PIPE, stderr=subprocess.PIPE,
                           text=True, errors="replace", timeout=timeout)
        return split_blocks(p.stdout), p.stdout.split("\n", 1)[0], p.stderr
    except subprocess.TimeoutExpired:
        return {}, "", "[timeout]"


# ----------------------------------------------------------------------------------------------
# comparison model <-> implementation
# ----------------------------------------------------------------------------------------------

def dag_lines(lines, sfx):
    tags = ("G" + sfx, "N" + sfx, "E" + sfx, "S" + sfx)
    return [l for l in lines if l.split(" ", 1)[0] in tags]


def retag(lines, frm, to):
    """rename the suffix of G/N/E/S lines"""
    out = []
    for l in lines:
        t, _, rest = l.partition(" ")
        out.append(t[0] + to + " " + rest)
    return out


def first_diff(a, b):
    for i in range(max(len(a), len(b))):
        x = a[i] if i < len(a) else "<missing>"
        y = b[i] if i < len(b) else "<missing>"
        if x != y:
            return i, x, y
    return None


def masked_equal(L, impl_hex, model_hex, n, m, sn):
    a, b = bytes.fromhex(impl_hex), bytes.fromhex(model_hex)
    if len(a) != len(b):
        return "file length %d (library) vs %d (model)" % (len(a), len(b))
    mask = file_mask(L, n, m, sn)
    for i in range(len(a)):
        if a[i] != b[i] and i not in mask:
            return "byte %d: library %02x, model %02x" % (i, a[i], b[i])
    return None


def compare(L, impl, model):
    """list of (what, observed(library), expected(model)) disagreements for one case"""
    res = []
    il, ml = impl["lines"], model["lines"]
    wf = tagged(ml, "WFTREE")
    if not wf or wf[0] != "WFTREE true":
        res.append(("the recorded tree does not satisfy the grammar wf_root assumed by the theorems", "", wf[0] if wf else "missing"))
    t1 = tagged(ml, "T1OK")
    if not t1 or t1[0] != "T1OK true":
        res.append(("the recorded tree does not satisfy the work-total consistency t1_ok assumed by C19_shrink_totals", "", t1[0] if t1 else "missing"))
    st = tagged(ml, "STACK")
    if not st or st[0] != "STACK same":
        res.append(("model-internal: explicit-stack enumeration vs recursive enumeration", "", st[0] if st else "missing"))
    for sfx, what in (("", "flattening (dr_make_pi_dag -> dump -> dr_read_dag)"),
                      ("2", "shrinking copy (dr_copy_pi_dag)")):
        d = first_diff(dag_lines(il, sfx), dag_lines(ml, sfx))
        if d:
            res.append((what + ": line %d" % d[0], d[1], d[2]))
            break
    for sfx in ("", "2"):
        a = [l for l in il if l.split(" ", 1)[0] in ("EV" + sfx, "EVEND" + sfx)]
        b = [l for l in ml if l.split(" ", 1)[0] in ("EV" + sfx, "EVEND" + sfx, "EVFAIL" + sfx)]
        d = first_diff(a, b)
        if d:
            res.append(("chronological replay%s: event %d" % (sfx, d[0]), d[1], d[2]))
    # codec: the model reader on the real file, the model writer against the real file
    for sfx, rs, wf in (("", "R", "WFILE"), ("3", "R3", "WFILE3")):
        f = tagged(il, "FILE" + sfx)
        if not f or len(f[0].split()) < 2:
            continue
        base = "2" if sfx == "3" else ""
        d = first_diff(retag(dag_lines(il, sfx), sfx, ""), retag(dag_lines(ml, rs), rs, ""))
        if d:
            res.append(("model reader on the library's file (%s): line %d" % ("dag" if not sfx else "shrunk dag", d[0]), d[1], d[2]))
        w = tagged(ml, wf)
        g = tagged(il, "G" + sfx)
        s = tagged(il, "S" + sfx)
        if w and g and s:
            gw = g[0].split()
            msg = masked_equal(L, f[0].split()[1], w[0].split()[1], int(gw[1]), int(gw[2]), int(s[0].split()[1]))
            if msg:
                res.append(("model writer vs the library's file (%s)" % ("dag" if not sfx else "shrunk dag"), msg, ""))
        elif not w:
            res.append(("model writer produced nothing for " + wf, "", ""))
    for l in ml:
        if l.startswith(("MODEL", "DRIVER-ERROR", "NOTREE", "RFAIL")):
            res.append(("model: " + l, "", l))
    return res


# ----------------------------------------------------------------------------------------------
# the property oracle: an independent structural validator of the library's output
# ----------------------------------------------------------------------------------------------

class Dag:
    def __init__(self, lines, sfx):
        g = tagged(lines, "G" + sfx)
        if not g:
            raise ValueError("no G%s line" % sfx)
        w = g[0].split()
        self.n, self.m, self.sc, self.nw = int(w[1]), int(w[2]), int(w[3]), int(w[4])
        self.T = [[int(x) for x in l.split()[2:]] for l in tagged(lines, "N" + sfx)]
        self.E = [tuple(int(x) for x in l.split()[2:]) for l in tagged(lines, "E" + sfx)]
        s = tagged(lines, "S" + sfx)[0].split()
        self.sn, self.ssz = int(s[1]), int(s[2])
        self.I = [int(x) for x in s[3:3 + self.sn]]
        self.names = s[3 + self.sn:]

    def is_leaf(self, i):
        x = self.T[i]
        return x[F_KIND] < K_SECTION or x[F_OA] >= x[F_OB]


def validate_dag(D, L):
    """returns a message when the dag violates the well-formedness part of C19, else None"""
    n, m, T, E = D.n, D.m, D.T, D.E
    if n < 1 or len(T) != n:
        return "node count %d but %d nodes" % (n, len(T))
    if len(E) != m:
        return "edge count %d but %d edges" % (m, len(E))
    if any(len(x) != N_NODE for x in T):
        return "node with a wrong number of fields"
    parent = [None] * n
    exp_m = 0
    for i, x in enumerate(T):
        k = x[F_KIND]
        if not 0 <= k <= 5:
            return "node %d: kind %d" % (i, k)
        if k == K_CREATE:
            c = i + x[F_OA]
            if not (i < c < n):
                return "node %d (create_task): child offset %d leaves the dag (n=%d)" % (i, x[F_OA], n)
            if T[c][F_KIND] != K_TASK:
                return "node %d (create_task): child %d is not a task" % (i, c)
            if parent[c] is not None:
                return "node %d has two parents (%d, %d)" % (c, parent[c], i)
            parent[c] = i
        elif k >= K_SECTION:
            a, b = x[F_OA], x[F_OB]
            if a > b:
                return "node %d: subgraph range [%d,%d) reversed" % (i, a, b)
            if a < b:
                if not (a > 0 and i + b <= n):
                    return "node %d: subgraph range [%d,%d) leaves the dag (n=%d)" % (i, i + a, i + b, n)
                ncr = 0
                for c in range(i + a, i + b):
                    if parent[c] is not None:
                        return "node %d has two parents (%d, %d)" % (c, parent[c], i)
                    parent[c] = i
                    if T[c][F_KIND] == K_CREATE:
                        ncr += 1
                exp_m += (b - a - 1) + (2 * ncr if k == K_SECTION else 0)
    for c in range(1, n):
        if parent[c] is None:
            return "node %d is not the child / subgraph of any node" % c
    if parent[0] is not None:
        return "node 0 has a parent"
    # string table
    if D.sn < 1:
        return "the string table is empty (n=%d) although every node names a start and an end file (node 0: file index %d / %d)" % (
            D.sn, D.T[0][F_START_FIDX], D.T[0][F_END_FIDX])
    if len(D.I) != D.sn or len(D.names) != D.sn:
        return "string table: n=%d but %d offsets / %d strings" % (D.sn, len(D.I), len(D.names))
    off = 0
    for k in range(D.sn):
        if D.I[k] != off:
            return "string table: offset of string %d is %d, expected %d" % (k, D.I[k], off)
        if D.names[k] in ("x", "-"):
            return "string table: empty string %d" % k
        off += (len(D.names[k]) - 1) // 2 + 1
    if len(set(D.names)) != D.sn:
        return "string table: duplicate strings"
    if D.ssz != L["strtab"]["size"] + L["ptr"] * D.sn + off:
        return "string table: sz=%d, expected %d" % (D.ssz, L["strtab"]["size"] + L["ptr"] * D.sn + off)
    for i, x in enumerate(T):
        for f in (F_START_FIDX, F_END_FIDX):
            if not 0 <= x[f] < D.sn:
                return "node %d: file index %d outside the string table (n=%d)" % (i, x[f], D.sn)
        if x[F_START_FILE] != 0 or x[F_END_FILE] != 0:
            return "node %d: file pointer word not cleared" % i
    # edges
    for j, (k, u, v) in enumerate(E):
        if not (0 <= u < n and 0 <= v < n):
            return "edge %d (%d -> %d) leaves the dag (n=%d)" % (j, u, v, n)
        if not 0 <= k <= 4:
            return "edge %d: kind %d" % (j, k)
        if not D.is_leaf(u) or not D.is_leaf(v):
            return "edge %d (%d -> %d) touches an expanded section/task" % (j, u, v)
        if j > 0 and (E[j - 1][1], E[j - 1][2]) > (u, v):
            return "edges %d,%d not sorted by (source, destination)" % (j - 1, j)
    if m != exp_m:
        return "%d edges, the count over the node array gives %d" % (m, exp_m)
    pos = 0
    for i, x in enumerate(T):
        if x[F_EB] != pos:
            return "node %d: edges_begin=%d, expected %d" % (i, x[F_EB], pos)
        while pos < m and E[pos][1] == i:
            pos += 1
        if x[F_EE] != pos:
            return "node %d: edges_end=%d, expected %d" % (i, x[F_EE], pos)
    if pos != m:
        return "edge ranges do not cover the edge array"
    # leaves: in-degree, reachability, acyclicity (Kahn from the first leaf)
    first = 0
    while not D.is_leaf(first):
        first = first + T[first][F_OA]
    leaves = [i for i in range(n) if D.is_leaf(i)]
    indeg = {i: 0 for i in leaves}
    succ = {i: [] for i in leaves}
    for k, u, v in E:
        indeg[v] += 1
        succ[u].append(v)
    for i in leaves:
        if i != first and indeg[i] == 0:
            return "leaf %d has no incoming edge (first leaf is %d)" % (i, first)
    if indeg[first] != 0:
        return "the first leaf %d has an incoming edge" % first
    work, seen, deg = [first], 0, dict(indeg)
    while work:
        u = work.pop()
        seen += 1
        for v in succ[u]:
            deg[v] -= 1
            if deg[v] == 0:
                work.append(v)
    if seen != len(leaves):
        return "only %d of %d leaves are reached by a ready-count traversal from the first leaf (cycle or unreachable leaf)" % (seen, len(leaves))
    return None


def validate_replay(D, lines, sfx):
    evs = [tuple(int(x) for x in l.split()[1:]) for l in tagged(lines, "EV" + sfx)]
    end = tagged(lines, "EVEND" + sfx)
    if not end:
        return "the chronological traverse did not finish"
    leaves = [i for i in range(D.n) if D.is_leaf(i)]
    seq = {}
    for t, k, u, p, ek in evs:
        seq.setdefault(u, []).append(k)
    for u in seq:
        if u not in leaves:
            return "replay: event for the expanded node %d" % u
    for u in leaves:
        if seq.get(u) != [0, 1, 2, 3]:
            return "replay: leaf %d goes through events %s instead of ready,start,last_start,end once each" % (u, seq.get(u))
    w = end[0].split()
    if int(w[2]) != 0 or int(w[3]) != 0:
        return "replay ends with n_running=%s n_ready=%s" % (w[2], w[3])
    return None


F_LEC0, F_NCHILD = 34, 41


def edge_totals(D):
    """per-kind edge totals as gen_stat.c dr_calc_edges books them (summed over the worker matrix): the logical
    edge counts of the contracted nodes, for a contracted section also the end edges of the tasks created in it,
    plus the materialised edges"""
    tot = [0] * 5
    for i, x in enumerate(D.T):
        if x[F_KIND] >= K_SECTION and x[F_OA] == x[F_OB]:
            for k in range(5):
                tot[k] += x[F_LEC0 + k]
            if x[F_KIND] == K_SECTION:
                tot[0] += x[F_NCHILD]
    for k, u, v in D.E:
        if 0 <= k < 5:
            tot[k] += 1
    return tot


def leaf_t1(D):
    return sum(D.T[i][F_T1] for i in range(D.n) if D.is_leaf(i))


def tree_positions(tree_line):
    """multiset of (start name, end name, start line, end line) over the recorded tree"""
    w = tree_line.split()[3:]
    res, i = [], 0
    while i < len(w):
        res.append((w[i + 2], w[i + 3], w[i + 4 + F_START_LINE], w[i + 4 + F_END_LINE]))
        i += 4 + N_INFO
    return sorted(res)


def oracle(case_line, blk, L):
    """the property C19 stated on the library's own output of one case; None when it holds"""
    if blk is None:
        return "no output for the case"
    if blk["crash"]:
        return "the library crashed / aborted: " + blk["crash"]
    if not blk["complete"]:
        return "the run did not complete: " + " | ".join(l[:80] for l in blk["lines"][-2:])
    lines = blk["lines"]
    for bad in ("READ-FAILED", "EXEC-FAILED", "PARSE-ERROR"):
        if any(l.startswith(bad) for l in lines):
            return bad
    try:
        D1, D2, D3 = Dag(lines, ""), Dag(lines, "2"), Dag(lines, "3")
    except (ValueError, IndexError) as e:
        return "unparsable output (%s)" % e
    for D, what in ((D1, "dumped dag"), (D2, "shrunk dag"), (D3, "shrunk dag after dump/read")):
        msg = validate_dag(D, L)
        if msg:
            return what + ": " + msg
    for D, sfx, what in ((D1, "", "dumped dag"), (D2, "2", "shrunk dag")):
        msg = validate_replay(D, lines, sfx)
        if msg:
            return what + ": " + msg
    # dr_dump() twice with nothing recorded in between: the same file
    if " dump2 1 " in case_line.split(" rec ")[0] + " ":
        if not tagged(lines, "G0"):
            return "the first of two dumps of the session was not read back"
        d = first_diff(retag(dag_lines(lines, "0"), "0", ""), dag_lines(lines, ""))
        if d:
            return "two dr_dump() calls of one session (nothing recorded in between) wrote different files: first %s  second %s" % (d[1][:100], d[2][:100])
        sz = tagged(lines, "SIZE0")
        if not sz or len(set(sz[0].split()[1:])) != 1:
            return "two dr_dump() calls of one session wrote files of different length (%s)" % (sz[0] if sz else "?")
    # dump / read round trip
    d = first_diff(retag(dag_lines(lines, "2"), "2", ""), retag(dag_lines(lines, "3"), "3", ""))
    if d:
        return "shrunk dag differs after dump and read: %s  vs  %s" % (d[1][:120], d[2][:120])
    st = tagged(lines, "STATEQ")
    if not st or st[0] != "STATEQ 1":
        return "the .stat of the re-read dag differs from the .stat of the dag in memory"
    # the dumped dag carries the recorded tree: same number of nodes, same code positions
    tl = tagged(lines, "TREE")[0]
    tp = tree_positions(tl)
    if len(tp) != D1.n:
        return "the recorded tree has %d nodes, the dumped dag %d" % (len(tp), D1.n)
    dp = sorted((D1.names[x[F_START_FIDX]], D1.names[x[F_END_FIDX]], str(x[F_START_LINE]), str(x[F_END_LINE])) for x in D1.T)
    if dp != tp:
        only_tree = [t4 for t4 in tp if t4 not in set(dp)][:1]
        ex = ""
        if only_tree:
            t4 = only_tree[0]
            ex = " (e.g. a node recorded from %s:%s to %s:%s is not read back with these positions)" % (
                bytes.fromhex(t4[0][1:]).decode("latin1"), t4[2], bytes.fromhex(t4[1][1:]).decode("latin1"), t4[3])
        return "code positions (file names through the string table, lines) differ between the recorded tree and the dumped dag" + ex
    if int(tl.split()[1]) != D1.sc or int(tl.split()[2]) != D1.nw:
        return "start clock / number of workers differ"
    tw = tl.split()
    if (D1.names[D1.T[0][F_START_FIDX]], D1.names[D1.T[0][F_END_FIDX]]) != (tw[5], tw[6]):
        return "the root was recorded from file %s to file %s, the dumped dag names %s and %s" % tuple(
            bytes.fromhex(x[1:]).decode("latin1") for x in (tw[5], tw[6], D1.names[D1.T[0][F_START_FIDX]], D1.names[D1.T[0][F_END_FIDX]]))
    distinct = set(x for t4 in tp for x in t4[:2])
    if D1.sn != len(distinct) or set(D1.names) != distinct:
        return "%d distinct file names were recorded, the string table of the dumped dag has %d" % (len(distinct), D1.sn)
    # the shrunk dag: every node keeps the code position (names read through ITS string table) of a recorded node,
    # and its string table holds exactly the names its nodes use
    import collections
    avail = collections.Counter(tp)
    used2 = set()
    for i, x in enumerate(D2.T):
        key = (D2.names[x[F_START_FIDX]], D2.names[x[F_END_FIDX]], str(x[F_START_LINE]), str(x[F_END_LINE]))
        used2.update(key[:2])
        if avail[key] <= 0:
            return "shrunk dag: node %d reads back at %s:%s-%s:%s, no recorded node has this code position" % (
                i, bytes.fromhex(key[0][1:]).decode("latin1"), key[2], bytes.fromhex(key[1][1:]).decode("latin1"), key[3])
        avail[key] -= 1
    if set(D2.names) != used2:
        return "shrunk dag: the string table holds %d names, its nodes use %d" % (D2.sn, len(used2))
    # shrinking keeps the totals
    r1, r2 = list(D1.T[0][:N_INFO]), list(D2.T[0][:N_INFO])
    n1, n2 = (D1.names[r1[F_START_FIDX]], D1.names[r1[F_END_FIDX]]), (D2.names[r2[F_START_FIDX]], D2.names[r2[F_END_FIDX]])
    for f in (F_START_FIDX, F_END_FIDX):
        r1[f] = r2[f] = 0
    if r1 != r2 or n1 != n2:
        return "the root info of the shrunk dag differs from the original"
    if leaf_t1(D1) == D1.T[0][F_T1] and leaf_t1(D2) != D2.T[0][F_T1]:
        return "shrunk dag: the sum of t_1 over the leaves is %d, t_1 of the root is %d" % (leaf_t1(D2), D2.T[0][F_T1])
    if (D2.sc, D2.nw) != (D1.sc, D1.nw):
        return "shrunk dag: start clock / workers changed"
    # shrinking preserves the edge totals of every kind (what the .stat reports: contracted counts + materialised edges)
    e1, e2, e3 = edge_totals(D1), edge_totals(D2), edge_totals(D3)
    names_k = ("end", "create", "create_cont", "wait_cont", "other_cont")
    for k in range(5):
        if not (e1[k] == e2[k] == e3[k]):
            return "edge totals of kind %s: dumped dag %d, shrunk dag %d, shrunk dag after dump/read %d" % (names_k[k], e1[k], e2[k], e3[k])
    return None



# ----------------------------------------------------------------------------------------------
# dag2any: the converter binary run on the files of the run, every output format validated structurally
# ----------------------------------------------------------------------------------------------

KIND_STR = ["create_task", "wait_tasks", "other", "end_task", "section", "task"]
EKIND_STR = ["end", "create", "create_cont", "wait_cont", "other_cont"]


def run_dag2any(d2a, exe, rd, cid, case_line, blk, L):
    """runs dag2any on c<cid>.dag for all formats and once more with --shrink; returns a message or None"""
    path = os.path.join(rd, "c%d.dag" % cid)
    if not os.path.exists(path):
        return "dag2any: the dumped file of the session is missing"
    D1, D2 = Dag(blk["lines"], ""), Dag(blk["lines"], "2")
    pre = os.path.join(rd, "x%d" % cid)
    rc, out = vlib.sh([d2a, "--stat", "--dot", "--parallelism", "--text", "--sqlite", "-o", pre, path], timeout=120)
    if rc != 0:
        return "dag2any (--stat --dot --parallelism --text --sqlite) exits with %d: %s" % (rc, out[-200:])
    for ext in (".stat", ".dot", ".gpl", ".txt"):
        if not os.path.exists(pre + ext) or os.path.getsize(pre + ext) == 0:
            return "dag2any: output %s missing or empty" % ext
    # text
    tl = open(pre + ".txt", errors="replace").read().split("\n")
    if tl[0] != "%d|%d|%d" % (D1.n, D1.m, D1.sn):
        return "dag2any --text: header `%s`, the dag has %d nodes, %d edges, %d strings" % (tl[0], D1.n, D1.m, D1.sn)
    if len([x for x in tl if x]) != 1 + D1.n + D1.m + D1.sn:
        return "dag2any --text: %d lines for %d nodes + %d edges + %d strings" % (len([x for x in tl if x]) - 1, D1.n, D1.m, D1.sn)
    for i in range(D1.n):
        w = tl[1 + i].split("|")
        x = D1.T[i]
        exp = [str(i), KIND_STR[x[F_KIND]], EKIND_STR[x[F_INEDGE]] if 0 <= x[F_INEDGE] < 5 else "?", str(x[F_START_T])]
        if w[:4] != exp or w[-4:] != [str(x[F_START_FIDX]), str(x[F_START_LINE]), str(x[F_END_FIDX]), str(x[F_END_LINE])]:
            return "dag2any --text: node line %d is `%s...`, the dag says %s" % (i, "|".join(w[:4]), "|".join(exp))
    for j in range(D1.m):
        k, u, v = D1.E[j]
        if tl[1 + D1.n + j] != "%d|%d|%d|%s" % (j, u, v, EKIND_STR[k]):
            return "dag2any --text: edge line %d is `%s`" % (j, tl[1 + D1.n + j])
    for k in range(D1.sn):
        if tl[1 + D1.n + D1.m + k] != "%d|%s" % (k, bytes.fromhex(D1.names[k][1:]).decode("latin1")):
            return "dag2any --text: string line %d is `%s`" % (k, tl[1 + D1.n + D1.m + k])
    # dot
    dt = open(pre + ".dot", errors="replace").read()
    if not dt.startswith("digraph G {") or not dt.rstrip().endswith("}"):
        return "dag2any --dot: not a digraph"
    nodes = re.findall(r"^T(\d+) \[", dt, re.M)
    edges = re.findall(r"^T(\d+) -> T(\d+) \[", dt, re.M)
    leaves = [i for i in range(D1.n) if D1.is_leaf(i)]
    if [int(x) for x in nodes] != leaves:
        return "dag2any --dot: %d node statements, the dag has %d leaves" % (len(nodes), len(leaves))
    if [(int(a), int(b)) for a, b in edges] != [(u, v) for _k, u, v in D1.E]:
        return "dag2any --dot: the edge statements are not the edges of the dag (%d vs %d)" % (len(edges), D1.m)
    # gnuplot
    gp = open(pre + ".gpl", errors="replace").read()
    if "plot" not in gp or "pause -1" not in gp:
        return "dag2any --parallelism: no plot command in the .gpl file"
    pts = [l.split() for l in gp.split("\n") if re.match(r"^\d+ [\d.eE+-]+ [\d.eE+-]+$", l)]
    if not pts:
        return "dag2any --parallelism: no data points"
    # stat
    st = open(pre + ".stat", errors="replace").read()
    kv = dict((m.group(1).strip(), m.group(2)) for m in re.finditer(r"^([A-Za-z_() 0-9/+]+?)\s*=\s*(\S+)$", st, re.M))
    root = D1.T[0]
    exp = {"create_task": root[30], "wait_tasks": root[31], "end_task": root[33], "work (T1)": root[F_T1],
           "critical_path (T_inf)": root[22], "n_workers (P)": D1.nw, "materialized nodes": root[39]}
    for k, v in exp.items():
        if kv.get(k) != str(v):
            return "dag2any --stat: `%s = %s`, the root of the dag says %d" % (k, kv.get(k), v)
    tot = edge_totals(D1)
    secs = re.split(r"^(end-parent|create-child|create-cont|wait-cont|other-cont) edges:\n", st, flags=re.M)
    got = {}
    for i in range(1, len(secs) - 1, 2):
        rows = [r_ for r_ in secs[i + 1].split("\n") if re.match(r"^( \d+)+$", r_)][:D1.nw + 1]
        got[secs[i]] = sum(int(x) for r_ in rows for x in r_.split())
    for k, nm in enumerate(("end-parent", "create-child", "create-cont", "wait-cont", "other-cont")):
        if got.get(nm) != tot[k]:
            return "dag2any --stat: %s edges sum to %s in the report, the dag has %d" % (nm, got.get(nm), tot[k])
    # sqlite
    if os.path.exists(pre + ".sqlite"):
        import sqlite3
        try:
            con = sqlite3.connect(pre + ".sqlite")
            cnt = {t: con.execute("select count(*) from %s" % t).fetchone()[0] for t in ("nodes", "edges", "strings")}
            con.close()
        except sqlite3.Error as e:
            return "dag2any --sqlite: the database cannot be read (%s)" % e
        if (cnt["nodes"], cnt["edges"], cnt["strings"]) != (D1.n, D1.m, D1.sn):
            return "dag2any --sqlite: %s rows, the dag has %d nodes, %d edges, %d strings" % (cnt, D1.n, D1.m, D1.sn)
        sq = "checked"
    else:
        if re.search(r"sqlite3 feature is disabled", out):
            sq = "disabled in this build"
        else:
            return "dag2any --sqlite: no database written"
    # --shrink under the conversion options of the case: the written dag must be the shrunk dag of the library call
    w = case_line.split()
    ci = w.index("conv")
    pre2 = os.path.join(rd, "y%d" % cid)
    env = dict(os.environ, DR_UNCOLLAPSE_MIN=w[ci + 1], DR_COLLAPSE_MAX=w[ci + 2], DR_COLLAPSE_MAX_COUNT=w[ci + 3])
    for v in ("DAG_RECORDER_UNCOLLAPSE_MIN", "DAG_RECORDER_COLLAPSE_MAX", "DAG_RECORDER_COLLAPSE_MAX_COUNT"):
        env.pop(v, None)
    if int(w[ci + 1]) >= (1 << 63) or int(w[ci + 2]) >= (1 << 63):
        return None
    rc, out = vlib.sh([d2a, "--shrink", "--nosqlite", "-o", pre2, path], timeout=120, env=env)
    if rc != 0 or not os.path.exists(pre2 + ".dag"):
        return "dag2any --shrink exits with %d / writes no dag: %s" % (rc, out[-200:])
    rc, out = vlib.sh([exe, "--print", pre2 + ".dag", "3", "0", "0"], timeout=60)
    got3 = [l for l in out.split("\n") if l.split(" ", 1)[0] in ("G3", "N3", "E3", "S3")]
    d = first_diff(dag_lines(blk["lines"], "3"), got3)
    if d:
        return "dag2any --shrink: the dag it writes differs from dr_copy_pi_dag + dump of the library (line %d: %s  vs  %s)" % (d[0], d[1][:100], d[2][:100])
    return None

# ----------------------------------------------------------------------------------------------
# the check
# ----------------------------------------------------------------------------------------------

def corpus_cases():
    cp = os.path.join(vlib.VERIF, "corpus", "C19", "cases.txt")
    if not os.path.exists(cp):
        return []
    return [l.strip() for l in open(cp) if l.strip() and not l.startswith("#")]


def renumber(line, cid):
    w = line.split()
    w[1] = str(cid)
    return " ".join(w)


def evaluate(ctx, exe, drv, layout_line, L, cases, with_model=True, inputs=None, hist=None, d2a=None):
    """cases: list of (id, session line); inputs: the harness input lines (histories wrap several sessions; default:
    one process per session); hist: {id: history line}.  returns (failing, diffs, stats)"""
    hist = hist or {}
    blocks, err = run_harness(ctx, exe, inputs if inputs is not None else [c for _, c in cases], keep_dir=True)
    rd = os.path.join(ctx.dir, "run")
    failing, diffs = [], []
    sizes = {"n<=10": 0, "n<=50": 0, "n<=200": 0, "n>200": 0}
    shrunk, edges_total, d2a_runs = 0, 0, 0
    for cid, cl in cases:
        b = blocks.get(str(cid))
        msg = oracle(cl, b, L)
        if msg and cid in hist:
            k = [x.split()[1] for x in hist[cid].split(";;")[1:]].index(str(cid)) + 1
            msg = "session %d of a multi-session history (one process): %s" % (k, msg)
        if not msg and d2a and " keep 1 " in cl:
            d2a_runs += 1
            try:
                msg = run_dag2any(d2a, exe, rd, cid, cl, b, L)
            except (ValueError, IndexError, KeyError, OSError) as e:
                msg = "dag2any: output could not be validated (%r)" % (e,)
        if msg:
            failing.append((cid, cl, msg, hist.get(cid)))
            continue
        g = tagged(b["lines"], "G")[0].split()
        n = int(g[1])
        sizes["n<=10" if n <= 10 else "n<=50" if n <= 50 else "n<=200" if n <= 200 else "n>200"] += 1
        edges_total += int(g[2])
        if int(tagged(b["lines"], "G2")[0].split()[1]) < n:
            shrunk += 1
    shutil.rmtree(rd, ignore_errors=True)
    stats = {"sizes": sizes, "edges_total": edges_total, "cases_where_conversion_shrinks": shrunk,
             "dag2any_runs (all formats + --shrink)": d2a_runs}
    if with_model:
        mblocks, lw, derr = run_driver(drv, driver_input(layout_line, cases, blocks))
        stats["layout_wf_extracted"] = lw
        for cid, cl in cases:
            b = blocks.get(str(cid))
            if b is None or not b["complete"]:
                continue
            mb = mblocks.get(str(cid))
            if mb is None:
                diffs.append((cid, cl, [("model produced no output", "", derr[-300:])]))
                continue
            d = compare(L, b, mb)
            if d:
                diffs.append((cid, cl, d))
    return failing, diffs, stats


def gen_inputs(rng, cid, n, thorough, with_keep=True):
    """n generated sessions, about a third of them inside multi-session histories"""
    cases, metas, inputs, hist = [], [], [], {}
    made = 0
    while made < n:
        keep = 1 if (with_keep and made % 7 == 0) else 0
        if rng.chance(1, 6):
            hline, sess, ms = gen_history(rng, cid, thorough, keep_first=keep)
            inputs.append(hline)
            for (c, l), m in zip(sess, ms):
                cases.append((c, l)); metas.append(m); hist[c] = hline
            cid += len(sess); made += len(sess)
        else:
            line, meta = gen_case(rng, cid, thorough, keep=keep)
            cases.append((cid, line)); metas.append(meta); inputs.append(line)
            cid += 1; made += 1
    return cases, metas, inputs, hist, cid


def run(ctx):
    broken, log = ctx.prove("Properties_C19.v", "Properties_C19")
    exe, drv = build(ctx)
    layout_line = get_layout(exe)
    L = parse_layout(layout_line)
    gen_ok, gen_log = gen_layout_v(ctx, L)
    int_ok, int_msgs, int_log = gen_intern_v(ctx, exe)
    d2a, d2a_note = None, "src/profiler/dag2any/dag2any.c is not in the tree"
    try:
        d2a = build_dag2any(ctx, exe)
        if d2a:
            d2a_note = "built from the current tree and run on every 7th session"
    except vlib.BuildError as e:
        d2a_note = "does not build: " + str(e)[-300:]
    n = 170 if not ctx.thorough else 2500
    cases, metas, inputs, hist = [], [], [], {}
    cid = 0
    for c in corpus_cases():
        if c.startswith("history"):
            # history <id> <k> <cleanup> ;; case .. ;; case ..   (sessions renumbered consecutively)
            parts = [x.strip() for x in c.split(";;")]
            sess = [(cid + j, renumber(x, cid + j)) for j, x in enumerate(parts[1:])]
            hw = parts[0].split()
            hline = "history h%d %d %s ;; %s" % (cid, len(sess), hw[3], " ;; ".join(l for _, l in sess))
            inputs.append(hline)
            for sid, sl in sess:
                cases.append((sid, sl)); hist[sid] = hline
                metas.append({"id": sid, "rec": "corpus", "conv": "corpus"})
            cid += len(sess)
            continue
        cases.append((cid, renumber(c, cid)))
        inputs.append(renumber(c, cid))
        metas.append({"id": cid, "rec": "corpus", "conv": "corpus"})
        cid += 1
    gc, gm, gi, gh, cid = gen_inputs(ctx.rng, cid, n, ctx.thorough)
    cases += gc; metas += gm; inputs += gi; hist.update(gh)
    failing, diffs, stats = evaluate(ctx, exe, drv, layout_line, L, cases, inputs=inputs, hist=hist, d2a=d2a)
    stats["dag2any"] = d2a_note
    dist = {}
    for m in metas:
        for k in ("rec", "conv"):
            dist[k + ":" + str(m[k])] = dist.get(k + ":" + str(m[k]), 0) + 1
        if "workers" in m:
            dist["workers:%d" % m["workers"]] = dist.get("workers:%d" % m["workers"], 0) + 1
            fb = "files:1" if m["files"] == 1 else "files:2-9" if m["files"] < 10 else "files:10-50"
            dist[fb] = dist.get(fb, 0) + 1
            dist["depth:%d" % m["depth"]] = dist.get("depth:%d" % m["depth"], 0) + 1
            dist["worker_state:%s" % ("array" if m.get("wsa", 1) else "list+key")] = dist.get("worker_state:%s" % ("array" if m.get("wsa", 1) else "list+key"), 0) + 1
            dist["history:%s" % m.get("history", "single session")] = dist.get("history:%s" % m.get("history", "single session"), 0) + 1
            for kk in ("names_vs_previous_session:%s" % m.get("names_vs_previous_session", "-"), "name_pointers:%s" % ("one" if m.get("alt") == 0 else "two alternating"),
                       "dump_twice:%d" % m.get("dump2", 0)):
                dist[kk] = dist.get(kk, 0) + 1
            if m.get("nested_sections", 0) >= 3:
                dist["programs_with_3+_sections"] = dist.get("programs_with_3+_sections", 0) + 1
    ctx.cov["correspondence"] = {"cases": len(cases), "disagreements": len(diffs), "oracle_failures": len(failing),
                                 "input_distribution": dist, "result_distribution": stats,
                                 "compared_per_case": "every field of every node, every edge, string table (dump/read and shrunk dag), "
                                                      "event sequence of both replays, file bytes (n<=40) through the model reader and writer; per-kind edge totals "
                                                      "dumped / shrunk / re-read; sessions of multi-session histories judged like single sessions (file names of a session "
                                                      "related to the previous one's: single / same / permuted / disjoint / independent; names are the same pointers in all "
                                                      "sessions of a process); two dr_dump() calls of one session give the same file; "
                                                      "dag2any outputs (stat, dot, gpl, text, sqlite, --shrink) validated structurally",
                                 "layout_regenerated": {"node": L["node"]["size"], "edge": L["edge"]["size"],
                                                        "strtab": L["strtab"]["size"], "wf_and_roundtrip_instance_checked": gen_ok}}
    ctx.cov["samples"] += [{"case": cases[i][1][:600]} for i in (0, len(cases) // 2, len(cases) - 1)]
    ctx.cov["trusted_base"] += [
        "extraction: ExtrOcamlBasic only; ocaml/driver_C19.ml, ocaml/zio.ml",
        "harness/c19_dump.c: serial simulator of the dr_* API with explicit worker ids and the virtual clock hook "
        "(g_dr_verif_clock); its own walker prints the recorded in-memory tree; the file is re-read by a fresh process image",
        "multi-session histories: one harness process records 2-3 sessions (array or list+pthread-key worker states, with / "
        "without dr_cleanup between); in list mode the single harness thread is worker 0; file names come from a pool of the "
        "process (one pointer per name, or two copies used alternately)",
        "dag2any built by this check from src/profiler/dag2any/dag2any.c + the profiler objects (-lsqlite3 when config.h has it); "
        "its outputs are validated by Python text / sqlite3 parsing",
        "layout probe (sizeof/offsetof/signedness printed by harness/c19_dump --layout) and the generated build/C19/gen/DrLayout.v",
        "interning translator in tools/props/c19.py (gcc -E -P of dr_dump.c, C-subset statement parser, classification of the "
        "conditions guarding each found exit of dr_string_table_find; copy statements of _append / _flatten; statement shape of "
        "dr_string_table_intern, `static` locals of the four functions, writable data symbols of dr_dump.o via nm) and build/C19/gen/DrIntern.v",
        "modelled, not verified: fwrite/read/mmap themselves; qsort (a sorted permutation); the priority queue of the replay "
        "(any choice order); byte padding inside structs is masked"]
    ctx.cov["correspondence"]["interning_translated"] = {"find_ok_wrap_ok_and_store_ok": int_ok, "messages": int_msgs}
    report(ctx, failing, diffs, broken, log, gen_ok, gen_log, exe, drv, layout_line, L, int_ok, int_msgs, int_log)
    ctx.cov["evaluations"] = len(cases)
    ctx.cov["distinct_nontrivial"] = len(set(c for _, c in cases)) - dist.get("depth:0", 0)
    ctx.cov["hypotheses_evaluated_on_every_recorded_tree"] = (
        "wf_root (grammar of C19_wf / C19_shrink_totals) and t1_ok (work-total consistency of C19_shrink_totals) are "
        "extracted and evaluated on the recorded tree of every case; a false value counts as a disagreement (%d cases, %d false)"
        % (len(cases), sum(1 for _, _, d in diffs if any("grammar" in w[0] or "t1_ok" in w[0] for w in d))))
    return ctx.finish(assumptions=[
        "C19_wf_recorded / C19_shrink_totals_recorded have no hypothesis beyond C18's recorder model (well-nested "
        "execution tree, contracting summariser); the tree-level forms below keep theirs:",
        "C19_wf / C19_shrink_totals: the recorded tree satisfies wf_root - task ::= (section|other)* end, "
        "section ::= (section|create|other)* wait, every create_task node has its child task, in_edge_kind of a "
        "subgraph that follows another one is a continuation kind (the recorder builds it that way; dr_dump is called "
        "after dr_stop; evaluated on every recorded tree of the run)",
        "C19_shrink_totals, t_1 part: the work totals of the recorded tree are consistent (t1_ok; this is C18's "
        "accumulation property, evaluated on every recorded tree of the run)",
        "C19_roundtrip: the struct layout satisfies layout_wf (evaluated by vm_compute on the layout regenerated from the "
        "current headers) and the values fit their C types (dag_fits); the file is at least as long as its header "
        "counts say (the C reader does not check)",
        "C19_replay: the event queue hands out pending events in any order (the binary heap of chronological.c is one such order)"])


def report(ctx, failing, diffs, broken, log, gen_ok, gen_log, exe, drv, layout_line, L, int_ok=True, int_msgs=(), int_log=""):
    if failing:
        cid, cl, msg, hl = failing[0]
        body = {"case": cl, "observed": msg, "expected": "see property C19", "level": "library",
                "all_failing": [(c, m) for c, _, m, _ in failing[:20]], "model_disagreements": len(diffs)}
        if hl:
            body["history"] = hl
        ctx.violation("oracle", msg, body, found=True)
        return
    problems = []
    if diffs:
        problems.append("model and library disagree on %d case(s); first: %s" % (len(diffs), diffs[0][2][0][0]))
    if broken:
        problems.append("theorem(s) no longer check: " + ", ".join(broken))
    if not gen_ok:
        problems.append("the regenerated layout no longer satisfies layout_wf / the enum constants changed")
    if not int_ok:
        problems.append("string interning read off dr_dump.c fails its checker: " + "; ".join(int_msgs)[:300])
    if not problems:
        return
    # something broke without a failing input at hand: search for one (more programs, oracle only)
    srng = vlib.Splitmix(ctx.seed * 7919 + 17)
    extra, _m, xin, xh, _c = gen_inputs(srng, 100000, 400 if not ctx.thorough else 3000, False, with_keep=False)
    f2, _, _ = evaluate(ctx, exe, drv, layout_line, L, extra, with_model=False, inputs=xin, hist=xh)
    if f2:
        c, cl, msg, hl = f2[0]
        body = {"case": cl, "observed": msg, "expected": "see property C19", "level": "library",
                "all_failing": [(a, m) for a, _, m, _ in f2[:20]]}
        if hl:
            body["history"] = hl
        ctx.violation("oracle", msg + "  (found by the search started after: " + "; ".join(problems) + ")", body, found=True)
        return
    if diffs:
        cid, cl, d = diffs[0]
        ctx.violation("correspondence", problems[0],
                      {"theorem_or_correspondence": "correspondence DagFile/*Model.v <-> src/profiler/dr_dump.c, read_dag.c, chronological.c",
                       "case": cl, "what_differs": d[0][0], "observed": d[0][1][:2000], "expected": d[0][2][:2000],
                       "all": [(c, [x[0] for x in dd]) for c, _, dd in diffs[:20]]}, found=False)
    if broken:
        ctx.violation("proof", "theorem(s) no longer check: " + ", ".join(broken),
                      {"theorem_or_correspondence": ", ".join(broken), "log": getattr(ctx, "proof_log", log[-3000:])}, found=False)
    if not int_ok:
        ctx.violation("generated-data", "string interning of the current dr_dump.c is not shown injective on contents: " + "; ".join(int_msgs)[:600],
                      {"theorem_or_correspondence": "build/C19/gen/DrIntern.v: cur_find_ok / cur_store_ok (find_ok, store_ok of "
                                                    "coq/DagFile/InternModel.v) / cur_wrap_ok (wrap_ok: dr_string_table_intern is find, append-if-new, return "
                                                    "index, without static locals; dr_dump.o without writable data) on the code translated from "
                                                    "dr_string_table_find / _intern / _append / _flatten; "
                                                    "hypothesis of C19_intern_injective",
                       "functions": [m.split(":")[0] for m in int_msgs], "messages": list(int_msgs), "log": int_log[-2000:]}, found=False)
    if not gen_ok:
        ctx.violation("generated-data", "the layout regenerated from the current headers fails its checker (layout_wf / enum constants / round-trip instance)",
                      {"theorem_or_correspondence": "build/C19/gen/DrLayout.v: cur_layout_wf, cur_enums_ok, C19_roundtrip_current",
                       "layout": layout_line, "log": gen_log[-3000:]}, found=False)


def replay(ctx, path):
    body = json.load(open(path))
    exe, drv = build(ctx)
    layout_line = get_layout(exe)
    L = parse_layout(layout_line)
    if "case" not in body:
        print("no case in the replay file (broken obligation):", body.get("what"))
        return 0
    if body.get("history"):
        # a multi-session history: re-run all its sessions in one process, judge each
        hl = body["history"]
        sess = [x.strip() for x in hl.split(";;")[1:]]
        blocks, err = run_harness(ctx, exe, [hl])
        print("history:", hl.split(";;")[0].strip(), "(%d sessions in one process)" % len(sess))
        for k, sl in enumerate(sess):
            sid = sl.split()[1]
            print("session %d (id %s): oracle: %s" % (k + 1, sid, oracle(sl, blocks.get(sid), L)))
        if err.strip():
            print("stderr:", err[-500:])
        return 0
    cl = renumber(body["case"], 0)
    blocks, err = run_harness(ctx, exe, [cl])
    b = blocks.get("0")
    print("case:   ", cl[:300], "...")
    print("oracle: ", oracle(cl, b, L))
    mblocks, lw, derr = run_driver(drv, driver_input(layout_line, [(0, cl)], blocks))
    mb = mblocks.get("0")
    if b and mb:
        d = compare(L, b, mb)
        print("model vs library:", "agree" if not d else "")
        for what, obs, exp in d:
            print("  ", what)
            print("     library:", obs[:300])
            print("     model:  ", exp[:300])
    if b:
        for l in b["lines"]:
            if not l.startswith(("FILE", "TREE")):
                print("impl:  ", l[:200])
    if err.strip():
        print("stderr:", err[-500:])
    return 0
