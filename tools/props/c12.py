"""C12 - stacks and thread records are never reused or released while still in use
(DESIGN.md section 4, C12; notes/C12.md).

prove -> build -> (unit) size classes / flmalloc / stack arithmetic: real code vs extracted model
      -> (lib) whole-library runs with a ledger callback: property oracle on the event stream +
               the extracted ledger transition system must accept every event."""
import bisect, json, os, re, subprocess
import vlib, trace
from props import desc_common as dc
from props import c01

VF = ["Alloc/SizeClassModel.v", "Alloc/FlmallocModel.v", "Alloc/StackModel.v", "Alloc/LedgerModel.v",
      "Alloc/SizeClassProofs.v", "Alloc/FlmallocProofs.v", "Alloc/StackProofs.v", "Alloc/LedgerProofs.v"]
MAXSZ = 1 << 30
PAGE = 4096


# ------------------------------------------------------------------------------------------
# build
# ------------------------------------------------------------------------------------------

def build(ctx):
    lib = vlib.build_lib()
    fl = vlib.lib_cflags() + ["-O0", "-g", "-Wl,-z,now"]
    key = vlib.sha(vlib.repo_src_hash("src"), vlib.repo_src_hash("include"),
                   vlib.file_sha(os.path.join(vlib.VERIF, "harness", "c12_unit.c")),
                   vlib.file_sha(os.path.join(vlib.VERIF, "harness", "c12_lib.c")))[:12]
    d = os.path.join(ctx.dir, "bin", key)          # one directory per source tree + harness version
    unit, libx = os.path.join(d, "c12_unit"), os.path.join(d, "c12_lib")
    with vlib.Lock("c12-bin-" + key):
        if not (os.path.exists(unit) and os.path.exists(libx)):
            vlib.cc(unit + ".tmp", [os.path.join(vlib.VERIF, "harness", "c12_unit.c")], flags=fl,
                    libs=[lib, "-lpthread", "-ldl", "-lrt"])
            vlib.cc(libx + ".tmp", [os.path.join(vlib.VERIF, "harness", "c12_lib.c")], flags=fl,
                    libs=[lib, "-lpthread", "-ldl", "-lrt"])
            os.rename(unit + ".tmp", unit)
            os.rename(libx + ".tmp", libx)
            vlib.prune_cache(os.path.join(ctx.dir, "bin"), keep=6)
    drv = vlib.build_driver("C12", "Extract_C12.v", "driver_C12.ml", VF[:4])
    return unit, libx, drv


# ------------------------------------------------------------------------------------------
# the property's own arithmetic (independent of the Coq model)
# ------------------------------------------------------------------------------------------

def py_round(n):
    return (n + PAGE - 1) // PAGE * PAGE


def py_class(s):
    """smallest k >= 3 with 2^k >= s"""
    s = max(s, 8)
    k = 3
    while (1 << k) < s:
        k += 1
    return k


def boundary_sizes(hi_exp):
    out = set()
    for k in range(0, hi_exp + 1):
        for d in (-1, 0, 1):
            out.add((1 << k) + d)
    for p in (1, 2, 3, 5, 7, 31, 33, 255, 257):
        for d in (-1, 0, 1):
            out.add(p * PAGE + d)
    return sorted(x for x in out if x >= 1)


# ------------------------------------------------------------------------------------------
# unit cases
# ------------------------------------------------------------------------------------------

def gen_unit(ctx, n):
    r = ctx.rng
    cases = []
    # size -> index: every power of two and page boundary +-1 up to the limit and beyond it
    for s in boundary_sizes(34):
        cases.append("idx %d" % s)
    for s in (MAXSZ - PAGE, MAXSZ - PAGE + 1, MAXSZ + PAGE, (1 << 32) + PAGE, (1 << 32) + PAGE + 1, (1 << 32) + 2,
              (1 << 33) + 1, (1 << 40) + 12345, (1 << 63), (1 << 64) - 1, (1 << 64) - PAGE):
        cases.append("idx %d" % s)
    for _ in range(n):
        k = r.rng(1, 34)
        cases.append("idx %d" % r.rng(1 << (k - 1), 1 << k))
    for s in (0, 1, 777, MAXSZ - 1, MAXSZ, MAXSZ + 1, MAXSZ + PAGE, 1 << 31, (1 << 32) - 1, 1 << 32, (1 << 32) + PAGE,
              1 << 63, (1 << 64) - 1, r.rng(1, MAXSZ), r.rng(MAXSZ + 1, 1 << 40), r.rng(1 << 40, (1 << 64) - 1)):
        cases.append("guard %d" % s)
    small = [s for s in boundary_sizes(22)]
    # allocator histories
    for _ in range(n // 4):
        W = r.rng(1, 6)
        ops, live, nalloc, nbig = [], [], 0, 0
        for _ in range(r.rng(10, 120)):
            if live and r.chance(2, 5):
                h, sz = live.pop(r.below(len(live)))
                k = py_class(sz)
                lo = 1 if k == 3 else (1 << (k - 1)) + 1
                sz2 = r.choice([sz, 1 << k, lo, r.rng(lo, 1 << k)])     # any size of the same class
                ops.append("f%d:%d:%d" % (r.below(W), h, sz2))
            else:
                if r.chance(1, 12) and nbig < 3:
                    sz = r.choice([1 << 26, (1 << 28) + 1, MAXSZ, MAXSZ - 1, (1 << 29) + 1])
                    nbig += 1
                elif r.chance(1, 2):
                    sz = r.choice([1, 7, 8, 9, 16, 17, 100, 128, 129, 1000, 2048, 2049, 4095, 4096, 4097])
                else:
                    sz = r.choice(small)
                ops.append("a%d:%d" % (r.below(W), sz))
                live.append((nalloc, sz))
                nalloc += 1
        cases.append("hist %d : %s" % (W, " ".join(ops)))
    return cases


def gen_shist(ctx, n, dsz):
    r = ctx.rng
    cases = []
    sizes = [0, 0, 0, 1, 100, 2047, 2048, 2049, 4095, 4096, 4097, 8191, 8192, 8193, 12288, 16383, 16384, 16385,
             20000, 65536, 65537, 100000, 131072, 131073, 1 << 20, (1 << 20) + 1, (1 << 22) - 1]
    for _ in range(n):
        gsz = r.choice([131072, 131072, 16384, 65536, 100000, 4096, 12345 + 16, 1 << 20])
        ops, live, nres, nbig = [], [], 0, 0
        for _ in range(r.rng(8, 90)):
            c = r.below(10)
            W = 4
            if c < 4:
                if r.chance(1, 15) and nbig < 2:
                    sz = r.choice([MAXSZ, MAXSZ - PAGE + 1, MAXSZ - PAGE, (1 << 29) + 1])
                    nbig += 1
                elif r.chance(1, 6):
                    sz = r.rng(1, 1 << r.rng(1, 22))
                else:
                    sz = r.choice(sizes)
                ops.append("s%d:%d" % (r.below(W), sz))
                live.append(("s", nres))
                nres += 1
            elif c < 6:
                ops.append("d%d" % r.below(W))
                live.append(("d", nres))
                nres += 1
            elif live:
                kind, h = live.pop(r.below(len(live)))
                ops.append(("r%d:%d" if kind == "s" else "e%d:%d") % (r.below(W), h))
        cases.append("shist %d %d : %s" % (gsz, dsz, " ".join(ops)))
    return cases


def parse_canon(tok):
    k, off = tok[1:].split("+")
    return int(k), int(off)


def unit_oracle(case, out):
    """the property on one implementation output line (None = holds)"""
    w = case.split()
    o = out.split()
    try:
        if w[0] == "idx":
            s = int(w[1])
            if not (2 <= s <= MAXSZ):
                return None           # outside the allocator's range: see notes/C12.md (guarded like the theorem)
            if o[1] == "undef":
                return "index undefined for an in-range size %d" % s
            i = int(o[1])
            if not (0 <= i < 31):
                return "size %d: index %d outside the table" % (s, i)
            if (1 << i) < s:
                return "size %d: class block 2^%d smaller than the request" % (s, i)
            if i > 0 and (1 << (i - 1)) >= s:
                return "size %d: class 2^%d is not the smallest that fits" % (s, i)
            if o[3] != str(1 << i):
                return "size %d: block size %s for index %d" % (s, o[3], i)
            return None
        if w[0] == "guard":
            s = int(w[1])
            for name, rcv, av in (("setstacksize", o[2], o[3]), ("setstack", o[5], o[6])):
                if s > MAXSZ and (rcv != str(EINVAL) or av != "777"):
                    return "myth_thread_attr_%s with %d (above the largest size class): returned %s, attribute now %s; expected EINVAL and an unchanged attribute" % (name, s, rcv, av)
                if s <= MAXSZ and (rcv != "0" or av != str(s)):
                    return "myth_thread_attr_%s with %d: returned %s, attribute now %s; expected 0 and the size stored" % (name, s, rcv, av)
            return None
        if w[0] == "hist":
            ops = w[3:]
            res = o[1:o.index("|")]
            lens = [int(x) for x in o[o.index("|") + 1:]]
            if len(res) != len(ops):
                return "history did not complete: " + out[:200]
            live, handles = {}, []
            for op, tok in zip(ops, res):
                if op[0] == "a":
                    sz = int(op.split(":")[1])
                    if tok == "?":
                        return "allocation returned a pointer outside every mapped region"
                    k, off = parse_canon(tok)
                    rs = 1 << py_class(sz)
                    if off + rs > lens[k]:
                        return "block of %d bytes at %s exceeds its mapping (%d bytes)" % (rs, tok, lens[k])
                    for (k2, off2, rs2) in live.values():
                        if k2 == k and off < off2 + rs2 and off2 < off + rs:
                            return "allocation of %d bytes returned %s, overlapping a live block at r%d+%d (%d bytes)" % (sz, tok, k2, off2, rs2)
                    live[len(handles)] = (k, off, rs)
                    handles.append(tok)
                else:
                    live.pop(int(op.split(":")[1]), None)
            return None
        if w[0] == "shist":
            gsz = int(w[1])
            ops = w[4:]
            res = o[1:o.index("|")]
            lens = [int(x) for x in o[o.index("|") + 1:]]
            if len(res) != len(ops):
                return "history did not complete: " + out[:200]
            live, nres = {}, 0
            for op, tok in zip(ops, res):
                if op[0] == "s":
                    n = int(op.split(":")[1])
                    ptr, word = tok.split("/")
                    if ptr == "?":
                        return "stack pointer outside every mapped region"
                    k, off = parse_canon(ptr)
                    want = 0 if n == 0 else py_round(n)
                    if int(word) != want:
                        return "stack of %d bytes: size word %s, expected %d" % (n, word, want)
                    ln = want if n else gsz
                    blk = (1 << py_class(want)) if n else py_round(gsz)
                    start = off + 16 - ln
                    if start < 0 or off + 16 > lens[k]:
                        return "stack of %d bytes [%d,%d) outside its mapping r%d (%d bytes)" % (n, start, off + 16, k, lens[k])
                    for (kind, k2, s2, e2, _) in live.values():
                        if kind == "s" and k2 == k and start < e2 and s2 < off + 16:
                            return "stack of %d bytes at r%d+[%d,%d) overlaps a live stack at [%d,%d)" % (n, k, start, off + 16, s2, e2)
                    live[nres] = ("s", k, start, off + 16, (want, blk))
                    nres += 1
                elif op[0] == "d":
                    if tok == "?":
                        return "record pointer outside every mapped region"
                    k, off = parse_canon(tok)
                    for (kind, k2, s2, e2, _) in live.values():
                        if kind == "d" and k2 == k and s2 == off:
                            return "record %s handed out twice" % tok
                    live[nres] = ("d", k, off, off, None)
                    nres += 1
                elif op[0] == "r":
                    h = int(op.split(":")[1])
                    kind, k, start, end, (want, blk) = live.pop(h)
                    if want == 0:
                        if tok != "def@r%d+%d" % (k, end - 16):
                            return "default stack released as %s, expected the default list and the same pointer" % tok
                    else:
                        exp = "c%d@r%d+%d" % (py_class(want), k, start)
                        if tok != exp:
                            return "stack (rounded size %d) released as %s, allocation used %s" % (want, tok, exp)
                else:
                    live.pop(int(op.split(":")[1]), None)
            return None
    except (IndexError, ValueError, KeyError) as e:
        return "unparsable output %r (%s)" % (out[:200], e)
    return None


# ------------------------------------------------------------------------------------------
# library programs
# ------------------------------------------------------------------------------------------

SIZES = [-1, -1, -1, 0, 0, 1, 100, 2048, 2049, 4095, 4096, 4096, 4097, 8191, 8192, 8193, 12288, 12289, 16383, 16384, 16385,
         20000, 20480, 49152, 65535, 65536, 65537, 131072, 131073, 196608, 200000, 1 << 20, (1 << 20) + 1, 3 << 19]
KSIZES = [-1, 0, 1, 4096, 4097, 8192, 12288, 16384, 65536]


def gen_program(r, nthreads, style):
    """returns the op list (argv of harness/c12_lib.c)"""
    ops = []          # list of [position key, op]
    seq = []
    pending_j = []
    big_used = False
    for i in range(nthreads):
        if style == "churn":
            size = r.choice([-1, -1, 0, 4096, 8192, 12288, 16384])
            det, cf, y, kids, ks = 0, r.below(2), r.below(2), 0, 0
        else:
            size = r.choice(SIZES)
            if style == "big" and not big_used and r.chance(1, 3):
                size = r.choice([MAXSZ, MAXSZ - PAGE + 1, (1 << 29) + 1, 1 << 26, (1 << 24) + 1])
                big_used = True
            det = r.choice([0, 0, 0, 0, 0, 0, 1, 2, 3])
            cf = r.below(2)
            y = r.below(5)
            kids = r.rng(1, 3) if r.chance(1, 5) else 0
            ks = r.choice(KSIZES)
        if size == -1:
            cf = 1
            if det == 2:
                det = 0
        seq.append("C%d:%d:%d:%d:%d:%d:%d" % (i, size, 0 if det == 1 else det, cf, y, kids, ks))
        if det == 0:
            # join at once, soon, or late (after many intervening creations)
            lag = r.choice([0, 0, 1, 2, 5, r.rng(0, 40), r.rng(0, nthreads)])
            pending_j.append([lag, "J%d" % i])
        elif det == 1:
            pending_j.append([r.choice([0, 0, 1, 3, r.rng(0, 20)]), "D%d" % i])
        if r.chance(1, 6):
            seq.append("Y%d" % r.rng(1, 4))
        nxt = []
        for ent in pending_j:
            if ent[0] <= 0:
                seq.append(ent[1])
            else:
                ent[0] -= 1
                nxt.append(ent)
        pending_j = nxt
    r.shuffle(pending_j)
    for ent in pending_j:
        seq.append(ent[1])
    return seq


def gen_epoch_program(r):
    """2-3 epochs: myth_init_ex(stack size S, workers) ... myth_fini, with default-size threads that
    are alive at the same time in every epoch (parent-first creation, joined after all are created),
    so that the free lists are full at each myth_fini and the next epoch allocates many stacks"""
    seq, tid = [], 0
    S = r.choice([16384, 32768, 65536])
    for ep in range(r.rng(2, 3)):
        if ep:
            S = max(8192, r.choice([S // 2, S, 2 * S, 2 * S, 4 * S]))
        seq.append("E%d:%d" % (S, r.rng(1, 4)))
        n = r.rng(8, 24)
        ids = []
        for _ in range(n):
            size = r.choice([-1, 0, 0, 0, 0, 0, 8192, 20000])
            cf = 1 if size == -1 else r.choice([0, 0, 0, 1])
            det = r.choice([0, 0, 0, 0, 0, 3]) if size != -1 else 0
            seq.append("C%d:%d:%d:%d:%d:%d:%d" % (tid, size, det, cf, r.rng(1, 3), 1 if r.chance(1, 8) else 0, r.choice([-1, 0])))
            if det == 0:
                ids.append(tid)
            tid += 1
        r.shuffle(ids)
        for i in ids:
            seq.append("J%d" % i)
    return seq


def run_program(libx, ops, nw, timeout=40):
    env = dict(os.environ, MYTH_NUM_WORKERS=str(max(nw, 1)))
    try:
        p = subprocess.run([libx] + ops, stdout=subprocess.PIPE, stderr=subprocess.PIPE, env=env, timeout=timeout,
                           text=True, errors="replace")
        return p.returncode, p.stdout, p.stderr
    except subprocess.TimeoutExpired as e:
        out = e.stdout or ""
        if isinstance(out, bytes):
            out = out.decode("utf-8", "replace")
        return 124, out, "[timeout]"


class Trace:
    pass


def ledger_nw(ops, nw, t):
    """number of workers of the first epoch"""
    if ops and ops[0].startswith("E"):
        return int(ops[0].split(":")[1])
    return max(nw, t.header.get("nw", nw))


def parse_trace(out):
    t = Trace()
    t.header, t.events, t.result = {}, [], None
    for line in out.split("\n"):
        if line.startswith("E "):
            f = line.split()
            try:
                t.events.append((int(f[1]), f[2], int(f[3], 16), int(f[4]), int(f[5], 16), int(f[6])))
            except (IndexError, ValueError):
                pass              # truncated line of a process that died while writing
        elif line.startswith("H "):
            f = line.split()
            t.header = dict(zip(f[1::2], (int(x) for x in f[2::2])))
        elif line.startswith("R "):
            f = line.split()
            t.result = {"why": f[1]}
            for k, v in zip(f[2::2], f[3::2]):
                t.result[k] = v
    return t


def lib_oracle(t):
    """The property, stated directly on the recorded event stream.  Returns (violations, tokens):
    violations = list of messages; tokens = the event stream in the vocabulary of the ledger
    model (ocaml/driver_C12.ml), with addresses replaced by first-seen tags."""
    bad = []
    gsz = t.header.get("gsz", 131072)
    starts, recs = [], {}            # sorted block starts; start -> dict
    by_top = {}
    stag, dtag = {}, {}
    desc = {}                        # ptr -> dict(state, phase, stack, det)
    pending = {}                     # rank -> desc ptr being created
    cbof = {}                        # rank -> desc whose callback is running
    lastpt = {}                      # rank -> (id, obj) of the last reap/freedesc POINT
    toks = []

    def where(sp):
        i = bisect.bisect_right(starts, sp) - 1
        if i >= 0:
            s = recs[starts[i]]
            if s["start"] <= sp < s["start"] + s["blk"]:
                return s
        return None

    for n, (rank, eid, obj, val, sp, extra) in enumerate(t.events):
        if eid == "epoch":
            # myth_fini + myth_init_ex: every free list is dropped with the old environments; from
            # here on a default stack extends over the default size of THIS epoch
            gsz = extra
            for s in recs.values():
                if s["state"] == "free":
                    s["state"] = "dropped"
            for d in desc.values():
                if d["state"] == "released":
                    d["state"] = "dropped"
            pending.clear(); cbof.clear(); lastpt.clear()
            toks.append("%d,epoch,%d,-1" % (rank, val))
            continue
        s_here = where(sp)
        S = s_here["tag"] if s_here else -1
        if s_here and s_here["state"] != "live":
            bad.append("event %d (%s on worker %d): the worker executes on stack S%d, which is %s" % (
                n, eid, rank, S, "in a free list" if s_here["state"] == "free" else "cached in a list dropped at the last myth_fini"))
        if eid == "alloc.desc":
            d = desc.get(obj)
            if d and d["state"] == "live":
                bad.append("event %d: record D%d handed out again while its thread (phase %s) has not been reaped" % (n, dtag[obj], d["phase"]))
            if obj not in dtag:
                dtag[obj] = len(dtag)
            desc[obj] = {"state": "live", "phase": "new", "stack": None, "det": extra}
            pending[rank] = obj
            if val != rank:
                bad.append("event %d: record taken from the list of worker %d by worker %d" % (n, val, rank))
            toks.append("%d,ad,%d,%d,%d" % (rank, extra, dtag[obj], S))
        elif eid == "alloc.stack":
            ln = py_round(val) if val else gsz
            blk = (1 << py_class(ln)) if val else py_round(gsz)
            start = obj + 16 - ln
            want = py_round(val) if val else 0
            if val and extra < val:
                bad.append("event %d: stack of requested size %d: the usable extent recorded for it (%d bytes) is smaller than the request" % (n, val, extra))
            if extra != want:
                bad.append("event %d: stack of requested size %d carries size word %d, expected %d" % (n, val, extra, want))
            # overlap with live stacks
            for s in recs.values():
                if s["state"] == "live" and s["start"] < start + ln and start < s["start"] + s["len"]:
                    bad.append("event %d: stack [%x,%x) handed out while it overlaps live stack S%d [%x,%x) of D%s" % (
                        n, start, start + ln, s["tag"], s["start"], s["start"] + s["len"], dtag.get(s["owner"])))
                    break
            rec = recs.get(start)
            if rec is None:
                rec = {"start": start, "tag": len(stag), "state": "free", "cls": None}
                stag[start] = rec["tag"]
                recs[start] = rec
                bisect.insort(starts, start)
            elif rec["state"] == "live":
                bad.append("event %d: stack S%d handed out twice" % (n, rec["tag"]))
            cls = py_class(ln) if val else 0
            rec.update(top=obj, len=ln, blk=blk, state="live", owner=pending.get(rank), cls=cls)
            by_top[obj] = rec
            d = desc.get(pending.get(rank))
            if d:
                d["stack"] = rec
                d["phase"] = "ready"
            toks.append("%d,as,%d,%d,%d" % (rank, val, rec["tag"], S))
        elif eid in ("create.start", "finish.readjoin", "finish.enter"):
            d = desc.get(obj)
            if d is None or d["state"] != "live":
                bad.append("event %d: %s of a thread whose record is not live" % (n, eid))
            elif d["stack"] is not s_here:
                bad.append("event %d: %s of D%d executes on stack S%d, its own stack is S%s" % (
                    n, eid, dtag[obj], S, d["stack"]["tag"] if d["stack"] else None))
            if eid == "finish.readjoin" and d:
                d["phase"] = "finishing"
            if eid == "create.start":
                toks.append("%d,start,%d,%d" % (rank, dtag.get(obj, -1), S))
            elif eid == "finish.readjoin":
                toks.append("%d,fin,%d,%d" % (rank, dtag.get(obj, -1), S))
            else:
                toks.append("%d,at,%d" % (rank, S))
        elif eid == "cb.enter":
            d = desc.get(obj)
            if d and d["phase"] == "finishing":
                if d["stack"] is s_here:
                    bad.append("event %d: the finish callback of D%d runs on the finished thread's own stack S%d" % (n, dtag[obj], S))
                d["phase"] = "away"
                cbof[rank] = obj
            toks.append("%d,cbenter,%d,%d" % (rank, dtag.get(obj, -1), S))
        elif eid == "cb.leave":
            cbof.pop(rank, None)
            toks.append("%d,at,%d" % (rank, S))
        elif eid == "free.stack":
            if obj == 0:
                continue
            rec = by_top.get(obj)
            if val != rank:
                bad.append("event %d: worker %d releases a stack to the list of worker %d" % (n, rank, val))
            if rec is None:
                bad.append("event %d: release of a stack that was never handed out (top %x)" % (n, obj))
                continue
            owner = rec["owner"]
            d = desc.get(owner)
            if rec["state"] != "live":
                bad.append("event %d: stack S%d released twice" % (n, rec["tag"]))
            elif d is None or d["phase"] != "away" or cbof.get(rank) != owner:
                bad.append("event %d: stack S%d of D%s released while its owner is in phase %s (not after the switch-away, in its finish callback)" % (
                    n, rec["tag"], dtag.get(owner), d["phase"] if d else None))
            if s_here is rec:
                bad.append("event %d: worker %d releases stack S%d while executing on it" % (n, rank, rec["tag"]))
            ln = extra if extra else gsz
            if obj + 16 - ln != rec["start"] or (py_class(extra) if extra else 0) != rec["cls"]:
                bad.append("event %d: release of S%d recomputes block start %x class %s; allocation used %x class %s" % (
                    n, rec["tag"], obj + 16 - ln, py_class(extra) if extra else 0, rec["start"], rec["cls"]))
            rec["state"] = "free"
            if d:
                d["phase"] = "stackfree"
            toks.append("%d,rs,%d,%d,%d" % (rank, rec["tag"], extra, S))
        elif eid in ("finish.cb.ready2", "finish.cb.freedesc"):
            d = desc.get(obj)
            if d is None or d["phase"] != "stackfree" or cbof.get(rank) != obj:
                bad.append("event %d: %s of D%s in phase %s (stack not yet released by this callback)" % (
                    n, eid, dtag.get(obj), d["phase"] if d else None))
            if d:
                d["phase"] = "published" if eid == "finish.cb.ready2" else "finrel"
            lastpt[rank] = (eid, obj)
            if eid == "finish.cb.ready2":
                toks.append("%d,pub,%d,%d" % (rank, dtag.get(obj, -1), S))
            else:
                toks.append("%d,at,%d" % (rank, S))
        elif eid in ("join.reap", "detach.reap"):
            d = desc.get(obj)
            if d is None or d["state"] != "live" or d["phase"] != "published":
                bad.append("event %d: %s of D%s in phase %s (FREE_READY2 not published)" % (n, eid, dtag.get(obj), d["phase"] if d else None))
            lastpt[rank] = (eid, obj)
            toks.append("%d,at,%d" % (rank, S))
        elif eid == "free.desc":
            d = desc.get(obj)
            if val != rank:
                bad.append("event %d: worker %d releases a record to the list of worker %d" % (n, rank, val))
            lp = lastpt.get(rank)
            if d is None:
                bad.append("event %d: release of a record that was never handed out" % n)
                continue
            if d["state"] != "live":
                bad.append("event %d: record D%d released twice" % (n, dtag[obj]))
            elif lp == ("finish.cb.freedesc", obj) and d["phase"] == "finrel":
                if not d["det"]:
                    bad.append("event %d: the finisher releases record D%d although the thread is not detached" % (n, dtag[obj]))
                toks.append("%d,rdf,%d,%d" % (rank, dtag[obj], S))
            elif lp in (("join.reap", obj), ("detach.reap", obj)) and d["phase"] == "published":
                toks.append("%d,reap,%d,%d" % (rank, dtag[obj], S))
            else:
                bad.append("event %d: record D%d released in phase %s (neither reaped after FREE_READY2 nor detached)" % (n, dtag[obj], d["phase"]))
                toks.append("%d,reap,%d,%d" % (rank, dtag[obj], S))
            d["state"] = "released"
            d["phase"] = "gone"
        elif eid == "probe":
            # the thread touched the low end of [top+16 - requested, top+16): it must be inside its own stack
            d = desc.get(obj)
            rec = d["stack"] if d else None
            if rec is None or rec["state"] != "live":
                bad.append("event %d: probe by a thread without a live stack" % n)
            elif extra < min(val, rec["len"]) or extra > rec["len"]:
                bad.append("event %d: thread D%s asked for %d bytes, the extent it can use below top+16 is %d (stack S%d: %d bytes)" % (
                    n, dtag.get(obj), val, extra, rec["tag"], rec["len"]))
            toks.append("%d,at,%d" % (rank, S))
        elif eid == "detach.set":
            d = desc.get(obj)
            if d:
                d["det"] = 1
            toks.append("%d,det,%d,%d" % (rank, dtag.get(obj, -1), S))
        elif eid == "finish.cb.detached":
            toks.append("%d,at,%d" % (rank, S))
        else:
            toks.append("%d,at,%d" % (rank, S))
    return bad, toks


def judge_run(t, rc):
    """violations visible in the harness' own counters"""
    bad = []
    r = t.result
    if r is None:
        return ["the program died without a result line (exit status %s)" % rc]
    if r["why"] != "ok":
        bad.append("the program ended with %s (exit status %s)" % (r["why"], rc))
    for k, what in (("badresult", "join returned a wrong exit value (record not intact until reaped)"),
                    ("canary", "a stack pattern was overwritten while its thread was suspended"),
                    ("poison", "a released (poisoned) stack was written to before it was handed out again"),
                    ("selfrel", "a stack was released by a worker still executing on it"),
                    ("probe", "a thread could not use the stack size it asked for (pattern at the low end of [top+16-size, top+16) lost, or that address lies in another live stack)"),
                    ("overflow", "event log overflow (harness limit)")):
        if int(r.get(k, "0")) != 0:
            bad.append("%s: %s" % (what, r[k]))
    return bad


# ------------------------------------------------------------------------------------------
# controlled runs (schedule controller harness/lib_interp.c, run helpers of props/desc_common.py)
# ------------------------------------------------------------------------------------------
# The same rules (lib_oracle) and the same extracted ledger model, on traces whose schedule is chosen
# by the controller: 1-4 workers, several preemption probabilities, and `hold` sweeps that park a
# participant at each finish.* / join.* / detach.* POINT while the others make progress (the release
# of a stack raced against the switch-away of its thread and against creations on other workers).

HOLD_POINTS = ["finish.readjoin", "finish.cb.detached", "finish.cb.ready2", "finish.cb.freedesc",
               "join.check", "join.cb.set", "join.reap", "detach.fast", "detach.check", "detach.set", "detach.reap"]
# (the interpreter's own frames - fprintf of the trace lines - need more than a small stack: sizes start at 32 KiB)
CTL_SIZES = [32768, 32769, 36864, 40000, 49152, 65535, 65536, 65537, 100000, 131072, 131073]


def gen_ctl_race(r):
    """a fixed shape with many finishes, reaps and creations in flight on every worker"""
    sz = lambda: r.choice(CTL_SIZES)
    th = {0: ["create 1 pf ss=%d" % sz(), "create 2", "create 3 pf det", "create 4 pf ss=%d" % sz(), "yield",
              r.choice(["join 1", "detach 1"]), "create 5 ss=%d" % sz(), "join 2", "join 4",
              r.choice(["join 5", "detach 5"]), "create 10 pf", "detach 10", "yield", "yield"],
          1: ["yield", "create 6 ss=%d" % sz(), "join 6"],
          2: ["create 7 pf ss=%d" % sz(), "yield", "join 7"],
          3: ["create 8 ss=%d" % sz(), "detach 8", "yield"],
          4: ["create 9 pf", "join 9", "retval 44"],
          5: ["yield"], 6: ["yield"], 7: ["nop"], 8: ["yield", "yield"], 9: ["yield"], 10: ["yield"]}
    return th


def gen_ctl_cases(ctx):
    r = ctx.rng
    cases = []
    nfree = 30 if not ctx.thorough else 300
    for _ in range(nfree):
        threads, meta = c01.gen_program(r, max_threads=r.choice([4, 6, 9]), reap_kinds=("join", "tryjoinw", "detach"), p_det=5)
        for nw in (1, 2, 3, 4):
            cases.append(trace.case_text(nw, r.rng(1, 1 << 30), [], threads, pswitch=r.choice([10, 35, 70])))
    moves = (1, 4, 12) if not ctx.thorough else (1, 2, 4, 8, 16, 40)
    for pid in HOLD_POINTS:
        for mv in moves:
            for nw in (1, 2, 3, 4):
                txt = trace.case_text(nw, r.rng(1, 1 << 30), [], gen_ctl_race(r), pswitch=r.choice([10, 35, 70]))
                txt += "hold %s %d\n" % (pid, mv)
                if r.chance(1, 2):
                    txt += "hold %s %d 50\n" % (r.choice(HOLD_POINTS), r.choice([1, 4]))
                cases.append(txt)
    return cases


def ctl_to_trace(case, events):
    """a controlled trace in the shape lib_oracle expects (rank, event id, object, value, stack
    pointer, extra).  The controller prints no addresses: records d<k> and blocks b<k> get synthetic,
    far-apart addresses; overlap of live extents is reported by the harness itself (ovl=) and passed on."""
    objs, threads, scripts, params = trace.parse_case(case)
    det_of = {}
    for ops in threads.values():
        for o in ops:
            if o and o[0] == "create":
                det_of[int(o[1])] = 1 if "det" in o[2:] else 0
    t = Trace()
    t.events, t.result, t.header = [], {"why": "ok"}, {"gsz": 131072, "nw": int(params.get("workers", "1"))}
    t.extra_bad = []
    DP = lambda k: (k + 1) << 12
    START = lambda k: (k + 1) << 44
    dk_of, blk_of, top_of = {}, {}, {}       # thread tag -> d index; thread tag -> live block; block -> top
    pend = {}                                # worker -> tag being created
    # stack the callback of a switching thread runs on = stack of the thread the worker continues with
    n = len(events)
    after_cb = [None] * n
    open_cb = {}
    for i, e in enumerate(events):
        if e.kind == "E" and e.words[0] == "cb.enter":
            open_cb[e.w] = [i, False]
        elif e.w in open_cb:
            ent = open_cb[e.w]
            if ent[1]:                       # first line of the worker after the cb.leave
                after_cb[ent[0]] = e.actor if e.ctx == "m" else None
                del open_cb[e.w]
            elif e.kind == "E" and e.words[0] == "cb.leave":
                ent[1] = True
    cur_cb_on = {}

    def sp_of_tag(a):
        k = blk_of.get(a)
        return START(k) + 64 if k is not None else 0

    def tail(e):
        return dict(x.split("=", 1) for x in e.snap.split() if "=" in x), [x for x in e.snap.split() if re.match(r"b\d+$", x)]

    st = (det_of, dk_of, blk_of, top_of, pend, after_cb, cur_cb_on, DP, START, sp_of_tag, tail)
    for i, e in enumerate(events):
        if e.kind not in "EP":
            continue
        try:
            _ctl_event(t, i, e, st)
        except (ValueError, IndexError, KeyError):
            pass                              # a line cut short by a crash of the library
    return t


def _ctl_event(t, i, e, st):
    (det_of, dk_of, blk_of, top_of, pend, after_cb, cur_cb_on, DP, START, sp_of_tag, tail) = st
    if True:
        eid = e.words[0]
        if e.kind == "E" and eid == "cb.enter":
            nx = after_cb[i]
            cur_cb_on[e.w] = sp_of_tag(nx) if nx is not None else 0
        sp = cur_cb_on.get(e.w, 0) if e.ctx == "c" else (sp_of_tag(e.actor) if e.actor is not None else 0)
        obj, val, extra = 0, 0, 0
        w1 = e.words[1] if len(e.words) > 1 else "-"
        w2 = e.words[2] if len(e.words) > 2 else "0"
        tag = int(w1[1:]) if re.match(r"t\d+$", w1) else None
        if eid in ("alloc.desc", "free.desc"):
            m = re.search(r"d(\d+)", e.snap)
            k = int(m.group(1)) if m else -1
            if eid == "alloc.desc" and tag is not None:
                dk_of[tag] = k
                pend[e.w] = tag
                extra = det_of.get(tag, 0)
            obj, val = DP(k), int(w2) if w2.lstrip("-").isdigit() else 0
        elif eid in ("alloc.stack", "free.stack"):
            kv, bs = tail(e)
            if not bs:
                return                        # a stack pointer of 0 (no tail): nothing to release
            k = int(bs[0][1:])
            on = kv.get("on", "-")
            sp = START(int(on[1:])) + 64 if on.startswith("b") else 0
            extra = int(kv.get("word", "0"))
            if eid == "alloc.stack":
                val = int(w2)
                ext = int(kv.get("ext", "0"))
                if val == 0:
                    t.header["gsz"] = ext
                obj = START(k) + ext - 16
                top_of[k] = obj
                if pend.get(e.w) is not None:
                    blk_of[pend[e.w]] = k
                if kv.get("ovl", "-") != "-":
                    t.extra_bad.append("step %d: stack block b%d (%d bytes below its top) handed out while its extent overlaps the live stack block %s" % (
                        e.step, k, ext, kv["ovl"]))
            else:
                val = int(w2) if w2.lstrip("-").isdigit() else 0
                obj = top_of.get(k, START(k) + (extra or t.header["gsz"]) - 16)
                for tg, b in list(blk_of.items()):
                    if b == k:
                        del blk_of[tg]
        else:
            if tag is not None and tag in dk_of:
                obj = DP(dk_of[tag])
            val = int(w2) if w2.lstrip("-").isdigit() else 0
            if eid == "finish.cb.detached":
                sn = dc._snap(e.snap)
                extra = int(sn[2]) if sn else 0
        t.events.append((e.w, eid, obj, val, sp, extra))
        if e.kind == "E" and eid == "cb.leave":
            cur_cb_on.pop(e.w, None)


def ctl_join_values(case, events):
    """record intact until reaped, seen from the program: a successful join / tryjoin / timedjoin
    delivers the value its target returned or exited with"""
    objs, threads, scripts, params = trace.parse_case(case)
    expect = {}
    for tg, ops in threads.items():
        expect[tg] = 1000 + tg
        for o in ops:
            if o and o[0] in ("retval", "exit"):
                expect[tg] = int(o[1])
    bad, open_op = [], {}
    for e in events:
        if e.kind == "C" and e.actor is not None:
            open_op.setdefault(e.actor, []).append(e.words)
        elif e.kind == "R" and e.actor is not None and open_op.get(e.actor):
            op = open_op[e.actor].pop()
            kv = dict(x.split("=", 1) for x in e.words[2:] if "=" in x)
            if op[0] in ("join", "tryjoin", "timedjoin") and e.words[1] == "0" and "val" in kv:
                tg = int(op[1])
                if int(kv["val"]) != expect.get(tg):
                    bad.append("step %d: %s %d returned the value %s, the thread returned %s (its record was not intact until it was reaped)" % (
                        e.step, op[0], tg, kv["val"], expect.get(tg)))
    return bad


EINVAL = 22
GUARD_SIZES = [MAXSZ, (1 << 30) + 1, 1 << 31, (1 << 32) + 4096, (1 << 64) - 1]


def size_guard_probe(ctx, libx, drv):
    """The size guard of the public API (repair a6d2bdf of defect C12-stack-size-above-1GiB), one child
    process per size (harness op O<size>): above 2^30 the setter returns EINVAL and leaves the attribute
    unchanged, and myth_create_ex with a hand-filled attribute returns EINVAL and obtains no record (no
    alloc.desc event, the ledger is unchanged); 2^30 itself is accepted and the thread runs.  The model's
    [attr_setstacksize] / [create_stack] must say the same.  Returns (rows, failures)."""
    rows, fails = [], []
    mres, _, _ = vlib.run_lines([drv], ["guard %d" % sz for sz in GUARD_SIZES] + ["create %d" % sz for sz in GUARD_SIZES])
    for k, sz in enumerate(GUARD_SIZES):
        rc, out, err = run_program(libx, ["O%d" % sz], 1, timeout=60)
        t = parse_trace(out)
        o = [l.split() for l in out.split("\n") if l.startswith("O size")]
        why = t.result["why"] if t.result else "no result line"
        kv = {}
        for l in o:
            if l[3] == "set" and len(l) >= 9:
                kv.update({"set.rc": l[4], "set.before": l[6], "set.after": l[8]})
            elif l[3] == "hand" and len(l) >= 12:
                kv.update({"hand.rc": l[5], "hand.allocdesc": l[7], "hand.join": l[9], "hand.result": l[11]})
            elif l[3] == "via-setter" and len(l) >= 10:
                kv.update({"via.rc": l[5], "via.join": l[7], "via.result": l[9]})
        bad = []
        nalloc = sum(1 for e in t.events if e[1] == "alloc.desc")
        mg = mres[k].split() if k < len(mres) else []
        mc = mres[len(GUARD_SIZES) + k].split() if len(GUARD_SIZES) + k < len(mres) else []
        if why != "ok" or rc != 0:
            bad.append("the library ended with %s (exit status %s) after: %s" % (why, rc, " / ".join(" ".join(l[3:]) for l in o) or "nothing"))
        elif sz > MAXSZ:
            if kv.get("set.rc") != str(EINVAL):
                bad.append("myth_thread_attr_setstacksize(&a, %d) returned %s, expected EINVAL" % (sz, kv.get("set.rc")))
            if kv.get("set.before") != kv.get("set.after"):
                bad.append("the rejected setter changed the attribute (%s -> %s)" % (kv.get("set.before"), kv.get("set.after")))
            if kv.get("hand.rc") != str(EINVAL):
                bad.append("myth_create_ex with attr->stacksize = %d written by hand returned %s, expected EINVAL" % (sz, kv.get("hand.rc")))
            if kv.get("hand.allocdesc") != "0" or nalloc != 0:
                bad.append("the rejected creation obtained a record (%s alloc.desc event(s))" % nalloc)
        else:
            if kv.get("set.rc") != "0" or kv.get("set.after") != str(sz):
                bad.append("myth_thread_attr_setstacksize(&a, %d) returned %s / attribute %s: a size the allocator can serve was not accepted" % (sz, kv.get("set.rc"), kv.get("set.after")))
            if kv.get("hand.rc") != "0" or kv.get("hand.result") != "7" or kv.get("via.result") != "7" or kv.get("via.rc") != "0":
                bad.append("a thread with a stack of %d bytes did not run: %s" % (sz, kv))
        # model: same return codes
        if not bad:
            if len(mg) >= 4 and (mg[2] != kv.get("set.rc") or (sz > MAXSZ) != (mg[3] == "777")):
                bad.append("model attr_setstacksize says %s, library returned %s" % (" ".join(mg), kv.get("set.rc")))
            if len(mc) >= 2 and mc[1] != kv.get("hand.rc"):
                bad.append("model create_stack says %s, library returned %s" % (" ".join(mc), kv.get("hand.rc")))
        rows.append({"size": sz, "observed": kv, "model": [" ".join(mg), " ".join(mc)],
                     "why": why, "ok": not bad})
        if bad:
            fails.append({"size": sz, "messages": bad, "result": t.result})
    return rows, fails


def run_controlled(ctx, drv, cases):
    exe = trace.build_interp()
    wd = os.path.join(ctx.dir, "ctl")
    fails, lines, meta, nev, verd, holds = [], [], [], 0, {}, {}
    for i, c in enumerate(cases):
        if len(fails) >= 3:
            break                             # enough failing inputs (a broken library may hang every run)
        r = dc.safe_run_case(exe, c, wd, "k%04d" % i, timeout=20)
        v = (r["verdict"] or "none").split()[0]
        verd[v] = verd.get(v, 0) + 1
        for l in c.split("\n"):
            if l.startswith("hold "):
                holds[l.split()[1]] = holds.get(l.split()[1], 0) + 1
        nev += len(r["events"])
        t = ctl_to_trace(c, r["events"])
        bad, toks = lib_oracle(t)
        bad = t.extra_bad + bad + ctl_join_values(c, r["events"])
        if v != "DONE":
            bad.append("controlled run ended with %s (exit status %s): %s" % (r["verdict"], r["rc"], r["out"][-200:]))
        if bad:
            fails.append({"case": c, "messages": bad[:10], "verdict": r["verdict"]})
        lines.append("ledger %d %s" % (t.header["nw"], " ".join(toks)))
        meta.append(c)
    res, _, _ = vlib.run_lines([drv], lines, timeout=900) if lines else ([], 0, "")
    rej = []
    for i, c in enumerate(meta):
        o = res[i] if i < len(res) else "<no output>"
        if not o.startswith("ledger ok"):
            rej.append({"case": c, "model": o[:400]})
    cov = {"controlled_runs": len(meta), "controlled_events": nev, "controlled_verdicts": verd,
           "controlled_hold_points": holds, "controlled_oracle_failures": len(fails), "controlled_model_rejections": len(rej)}
    return fails, rej, cov


# ------------------------------------------------------------------------------------------
# run
# ------------------------------------------------------------------------------------------

def load_corpus():
    d = os.path.join(vlib.VERIF, "corpus", "C12")
    unit, progs = [], []
    if os.path.isdir(d):
        for f in sorted(os.listdir(d)):
            for l in open(os.path.join(d, f)):
                l = l.strip()
                if not l or l.startswith("#"):
                    continue
                if l.startswith("prog "):
                    progs.append(l.split()[1:])
                else:
                    unit.append(l)
    return unit, progs


def run_unit(ctx, unit, drv, cases):
    impl, rc1, raw1 = vlib.run_lines([unit], cases, timeout=600)
    model, rc2, raw2 = vlib.run_lines([drv], cases, timeout=600)
    diffs = vlib.diff_lines(cases, impl, model)
    failing = []
    for i, c in enumerate(cases):
        o = impl[i].strip() if i < len(impl) else "<no output>"
        msg = unit_oracle(c, o)
        if msg:
            failing.append((c, o, msg))
    return impl, model, diffs, failing, rc1, rc2


def run(ctx):
    broken, log = ctx.prove("Properties_C12.v", "Properties_C12")
    unit, libx, drv = build(ctx)
    r = ctx.rng
    p, _, _ = vlib.run_lines([unit], ["params"])
    dsz = int(p[0].split()[2]) if p and p[0].startswith("params") else 416
    corpus_unit, corpus_progs = load_corpus()
    n = 200 if not ctx.thorough else 4000
    cases = corpus_unit + gen_unit(ctx, n) + gen_shist(ctx, n // 3, dsz)
    impl, model, diffs, ufail, rc1, rc2 = run_unit(ctx, unit, drv, cases)
    kinds = {}
    for c in cases:
        kinds[c.split()[0]] = kinds.get(c.split()[0], 0) + 1
    ctx.cov["correspondence"] = {"unit_cases": len(cases), "unit_disagreements": len(diffs), "unit_input_distribution": kinds,
                                 "unit_oracle_failures": len(ufail), "unit_impl_exit": rc1, "unit_model_exit": rc2,
                                 "unit_ops": sum(len(c.split()) - 3 for c in cases if c.startswith(("hist", "shist")))}
    ctx.cov["samples"] += [{"case": cases[i][:300], "impl": (impl[i] if i < len(impl) else None) and impl[i][:300],
                            "model": (model[i] if i < len(model) else None) and model[i][:300]}
                           for i in (0, len(cases) // 2, len(cases) - 1)]

    # whole-library programs
    progs = [("corpus", p) for p in corpus_progs]
    plan = [("mix", 40), ("mix", 90), ("big", 25), ("churn", 400), ("mix", 150), ("mix", 60), ("big", 40)] if not ctx.thorough else \
           [("mix", 40), ("mix", 90), ("big", 25), ("churn", 1200), ("mix", 150), ("mix", 300), ("big", 60),
            ("churn", 600), ("mix", 200), ("mix", 120), ("big", 40), ("mix", 60), ("mix", 250), ("churn", 900),
            ("big", 80), ("mix", 180), ("mix", 30), ("mix", 400)]
    for style, nt in plan:
        progs.append((style, gen_program(r, nt, style)))
    for _ in range(3 if not ctx.thorough else 12):
        progs.append(("epoch", gen_epoch_program(r)))
    reps = 2 if not ctx.thorough else 8
    lib_fail, model_rej, runs, nev, ninf = [], [], 0, 0, 0
    dist = {}
    ledger_lines, ledger_meta = [], []
    for style, ops in progs:
        for nw in ((1, 2, 3, 4) if not ops[0].startswith("E") else (0, 0)):   # epoch programs set their own worker counts
            for rep in range(reps):
                if len(lib_fail) >= 2:
                    continue          # enough failing inputs; do not spend the budget on hanging runs
                rc, out, err = run_program(libx, ops, nw)
                t = parse_trace(out)
                runs += 1
                nev += len(t.events)
                for e in t.events:
                    dist[e[1]] = dist.get(e[1], 0) + 1
                ob, toks = lib_oracle(t)
                bad = ob + judge_run(t, rc)
                if bad:
                    lib_fail.append({"ops": ops, "workers": nw, "messages": bad[:12], "events": len(t.events),
                                     "result": t.result, "stderr": err[-400:]})
                ledger_lines.append("ledger %d %s" % (ledger_nw(ops, nw, t), " ".join(toks)))
                ledger_meta.append((ops, nw))
    lres, lrc, lraw = vlib.run_lines([drv], ledger_lines, timeout=900)
    for i, line in enumerate(ledger_lines):
        o = lres[i] if i < len(lres) else "<no output>"
        if not o.startswith("ledger ok"):
            model_rej.append({"ops": ledger_meta[i][0], "workers": ledger_meta[i][1], "model": o[:400]})
        else:
            f = o.split()
            ninf += int(f[5])
    ctx.cov["correspondence"].update({"lib_runs": runs, "lib_programs": len(progs), "lib_events": nev,
                                      "lib_event_distribution": dist, "lib_oracle_failures": len(lib_fail),
                                      "ledger_model_rejections": len(model_rej), "ledger_inferred_switches": ninf,
                                      "workers": [1, 2, 3, 4]})
    ctx.cov["samples"].append({"program": " ".join(progs[-1][1])[:400], "model": lres[-1][:200] if lres else None})

    # the same rules and the same model under the schedule controller
    ctl_cases = gen_ctl_cases(ctx)
    ctl_fail, ctl_rej, ctl_cov = run_controlled(ctx, drv, ctl_cases)
    ctx.cov["correspondence"].update(ctl_cov)

    # the size guard of the public API (sizes above the allocator's range must be rejected cleanly)
    guard_rows, guard_fail = size_guard_probe(ctx, libx, drv)
    ctx.cov["correspondence"]["size_guard_probe"] = guard_rows
    ctx.cov["trusted_base"] += [
        "extraction: ExtrOcamlBasic only; ocaml/driver_C12.ml (mmap oracle = region k at (k+1)*2^40; inference of the context switches that emit no event, each inferred step still has to be enabled in the extracted step function), ocaml/zio.ml",
        "harness/c12_unit.c (mmap intercepted by a macro to name addresses region-relative), harness/c12_lib.c (event callback, stack patterns, poison-on-release; linked -z now because lazy symbol resolution alone overflows a 4 KiB stack)",
        "tools/props/c12.py: mapping of MYTH_VERIF events to ledger events; OS-scheduled runs (harness/c12_lib.c) and controlled runs (harness/lib_interp.c: the stack pointer of a line is derived from its acting thread, block identity / overlap / executing block from the additive b<k> ext= ovl= on= fields)",
        "modelled, not verified: mmap returns fresh regions (oracle hypothesis of C12_blocks_disjoint); pointer arithmetic without 2^64 wrap; the context switch itself (C03/C04)"]

    # verdicts
    if ufail:
        c, o, msg = ufail[0]
        ctx.violation("oracle", msg, {"level": "unit", "case": c, "observed": o, "expected": "see property C12",
                                      "all_failing": ufail[:10]}, found=True)
    crashmsg = lambda f: f["messages"][0].startswith(("the program", "controlled run ended"))
    lib_fail.sort(key=crashmsg)              # a failing run with a message of the oracle first
    ctl_fail.sort(key=crashmsg)
    if lib_fail:
        f = lib_fail[0]
        ctx.violation("oracle", f["messages"][0], {"level": "lib", "case": "prog " + " ".join(f["ops"]), "workers": f["workers"],
                                                   "observed": f["messages"], "expected": "no message (property C12 on the event ledger)",
                                                   "result": f["result"], "others": [x["messages"][0] for x in lib_fail[1:6]]}, found=True)
    if ctl_fail:
        f = ctl_fail[0]
        ctx.violation("oracle", "controlled run: " + f["messages"][0],
                      {"level": "ctl", "case": f["case"], "observed": f["messages"], "verdict": f["verdict"],
                       "expected": "no message (property C12 on the event ledger of a controlled run)",
                       "others": [x["messages"][0] for x in ctl_fail[1:6]]}, found=True)
    if guard_fail:
        f = guard_fail[0]
        ctx.violation("oracle", "stack size %d: %s" % (f["size"], f["messages"][0]),
                      {"level": "lib", "case": "prog O%d" % f["size"], "workers": 1, "observed": f["messages"], "result": f["result"],
                       "expected": "sizes above 2^30: setter EINVAL, attribute unchanged, myth_create_ex EINVAL, no record obtained; 2^30: accepted, the thread runs",
                       "others": ["%d: %s" % (x["size"], x["messages"][0]) for x in guard_fail[1:]]}, found=True)
    if not ufail and not lib_fail and not ctl_fail:
        if ctl_rej:
            m = ctl_rej[0]
            ctx.violation("correspondence", "the ledger model does not accept the event stream of a controlled run: " + m["model"][:300],
                          {"theorem_or_correspondence": "correspondence Alloc/LedgerModel.v <-> src/myth_sched_func.h (controlled event stream)",
                           "level": "ctl", "case": m["case"], "observed": m["model"], "expected": "ledger ok"}, found=False)
        if diffs:
            i, c, a, b = diffs[0]
            extra = search_unit(ctx, unit, drv, c, dsz)
            if extra:
                c2, o2, msg2 = extra
                ctx.violation("oracle", msg2, {"level": "unit", "case": c2, "observed": o2, "expected": "see property C12",
                                               "found_by": "search around the disagreeing case " + c[:200]}, found=True)
            else:
                ctx.violation("correspondence", "model and implementation disagree on %d unit case(s); first: %s" % (len(diffs), c[:200]),
                              {"theorem_or_correspondence": "correspondence Alloc/SizeClassModel.v, FlmallocModel.v, StackModel.v <-> src/myth_misc_func.h, src/myth_sched_func.h",
                               "level": "unit", "case": c, "observed": a, "expected": b,
                               "all": [(x[1][:200], x[2][:200], x[3][:200]) for x in diffs[:10]]}, found=False)
        if model_rej:
            m = model_rej[0]
            ctx.violation("correspondence", "the ledger model does not accept the library's event stream: " + m["model"][:300],
                          {"theorem_or_correspondence": "correspondence Alloc/LedgerModel.v <-> src/myth_sched_func.h (event stream)",
                           "level": "lib", "case": "prog " + " ".join(m["ops"]), "workers": m["workers"], "observed": m["model"],
                           "expected": "ledger ok"}, found=False)
    if broken:
        ctx.violation("proof", "theorem(s) no longer check: " + ", ".join(broken),
                      {"theorem_or_correspondence": ", ".join(broken), "log": getattr(ctx, "proof_log", log[-3000:])}, found=False)
    return ctx.finish(assumptions=[
        "mmap oracle: every region returned is disjoint from all regions returned before (hypothesis of C12_blocks_disjoint; satisfiable: C12_oracle_satisfiable)",
        "allocator requests at most 2^30 bytes (stack sizes whose page-rounded size is <= 1 GiB); beyond that size_class_out_of_range / size_class_truncated describe what the code computes",
        "program contract: each thread is reaped by at most one join/detach (encoded as enabledness of EReap); pointers without 2^64 wrap"])


def search_unit(ctx, unit, drv, case, dsz):
    """a unit disagreement without an oracle failure: look for a failing input near the case"""
    r = ctx.rng
    w = case.split()
    cand = []
    if w[0] == "idx":
        s = int(w[1])
        for d in range(-3, 4):
            for m in (s, py_round(s), s // 2, s * 2):
                if m + d >= 1:
                    cand.append("idx %d" % (m + d))
        cand += ["shist 131072 %d : s0:%d s0:%d s1:%d r1:0 r0:1 s0:%d s1:%d" % (dsz, x, x, x, x, x)
                 for x in {min(max(1, s + d), MAXSZ >> 4) for d in (-1, 0, 1)}]
    else:
        sub = vlib.Ctx(ctx.prop, ctx.tier, ctx.seed + 7919)
        cand = gen_unit(sub, 60) + gen_shist(sub, 120, dsz)
    impl, _, _ = vlib.run_lines([unit], cand, timeout=300)
    for i, c in enumerate(cand):
        o = impl[i].strip() if i < len(impl) else "<no output>"
        msg = unit_oracle(c, o)
        if msg:
            return c, o, msg
    return None


def replay(ctx, path):
    body = json.load(open(path))
    unit, libx, drv = build(ctx)
    case = body.get("case", "")
    if body.get("level") == "ctl":
        exe = trace.build_interp()
        for rep in range(2):
            r = dc.safe_run_case(exe, case, os.path.join(ctx.dir, "ctl"), "replay", timeout=60)
            t = ctl_to_trace(case, r["events"])
            bad, toks = lib_oracle(t)
            res, _, _ = vlib.run_lines([drv], ["ledger %d %s" % (t.header["nw"], " ".join(toks))])
            print("run %d: verdict %s events %d trace %s" % (rep, r["verdict"], len(r["events"]), r["trace_path"]))
            print("  oracle:", (t.extra_bad + bad + ctl_join_values(case, r["events"]))[:5] or "holds")
            print("  model: ", res[0][:300] if res else None)
        return 0
    if body.get("level") == "lib" or case.startswith("prog "):
        ops = case.split()[1:]
        nw = int(body.get("workers", 2))
        for rep in range(5):
            rc, out, err = run_program(libx, ops, nw)
            t = parse_trace(out)
            bad = judge_run(t, rc)
            ob, toks = lib_oracle(t)
            res, _, _ = vlib.run_lines([drv], ["ledger %d %s" % (ledger_nw(ops, nw, t), " ".join(toks))])
            print("run %d: workers %d events %d result %s" % (rep, nw, len(t.events), t.result))
            print("  oracle:", (bad + ob)[:5] or "holds")
            print("  model: ", res[0][:300] if res else None)
        return 0
    impl, _, _ = vlib.run_lines([unit], [case])
    model, _, _ = vlib.run_lines([drv], [case])
    print("case:  ", case)
    print("impl:  ", impl[0] if impl else None)
    print("model: ", model[0] if model else None)
    print("oracle:", unit_oracle(case, impl[0].strip() if impl else "<no output>"))
    return 0
