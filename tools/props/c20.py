"""C20 — sleeping and timed waits respect their deadlines (DESIGN.md section 4, C20)."""
import os, json
import vlib

NS = 1000000000
VF = ["Time/TimeModel.v", "Time/TimeProofs.v"]


def build(ctx):
    lib = vlib.build_lib()
    exe = vlib.cc(os.path.join(ctx.dir, "c20_unit"), [os.path.join(vlib.VERIF, "harness", "c20_unit.c")],
                  flags=vlib.lib_cflags() + ["-O0", "-g"], libs=[lib, "-lpthread", "-ldl", "-lrt"])
    drv = vlib.build_driver("C20", "Extract_C20.v", "driver_C20.ml", VF)
    return exe, drv


def ts_norm(t):
    return (t // NS, t % NS)


def clock_script(rng, start, deadline, n_before, overshoot):
    """readings: start, then n_before readings <= deadline (non-decreasing, some exactly at the
    deadline), then a reading at deadline+overshoot"""
    rd = [start]
    cur = start
    for i in range(n_before):
        if deadline > cur:
            cur = rng.choice([cur, deadline, rng.rng(cur, deadline), deadline - 1 if deadline - 1 >= cur else cur])
        rd.append(cur)
    rd.append(max(cur, deadline + overshoot))
    rd.append(max(cur, deadline + overshoot) + 5)
    return rd


def fmt_clock(rd):
    return "%d %s" % (len(rd), " ".join("%d %d" % ts_norm(t) for t in rd))


def gen_cases(ctx, n):
    r = ctx.rng
    cases = []
    nsb = [0, 1, 2, 499999999, 500000000, 500000001, 999999998, 999999999]
    secs = [0, 1, 2, 59, 1 << 31, 10 ** 12]
    # arithmetic, valid operands: all pairs of boundary nsec values (exhaustive over the boundary set)
    for an in nsb:
        for bn in nsb:
            a_s, b_s = r.choice(secs), r.choice(secs)
            cases.append("add %d %d %d %d" % (a_s, an, b_s, bn))
            cases.append("gt %d %d %d %d" % (a_s, an, b_s, bn))
            cases.append("gt %d %d %d %d" % (a_s, an, a_s, bn))
    # malformed stream for the arithmetic (negative / too large nsec, negative sec): the C
    # operators truncate toward zero, the model says the same
    for _ in range(n // 4):
        cases.append("%s %d %d %d %d" % (r.choice(["add", "gt"]), r.rng(-5, 5), r.rng(-2 * NS, 3 * NS),
                                        r.rng(-5, 5), r.rng(-2 * NS, 3 * NS)))
    # nanosleep: valid and malformed requests
    reqs = [(0, 0), (0, 1), (0, 999999999), (1, 0), (1, 999999999), (0, 500000000), (3, 1)]
    bad = [(-1, 0), (0, -1), (0, 1000000000), (0, 1000000001), (-1, -1), (5, 2000000000), (0, -999999999),
           (-(1 << 40), 5)]
    for i in range(n):
        if r.chance(1, 4):
            rs, rn = r.choice(bad)
        elif r.chance(1, 2):
            rs, rn = r.choice(reqs)
        else:
            rs, rn = r.rng(0, 3), r.choice(nsb)
        start = r.choice([0, 999999999, NS, 5 * NS + 999999999, 1700000000 * NS + r.rng(0, NS - 1)])
        dl = start + rs * NS + rn
        rd = clock_script(r, start, dl, r.rng(0, 6), r.choice([1, 1, 2, NS, 7]))
        cases.append("nsleep %d %d %s" % (rs, rn, fmt_clock(rd)))
    for i in range(n // 2):
        us = r.choice([0, 1, 999, 1000, 999999, 1000000, 1000001, 1999999, 2000000, 4294967295, r.rng(0, 5000000)])
        start = r.choice([0, 999999999, 7 * NS + 999999000])
        dl = start + us * 1000
        cases.append("usleep %d %s" % (us, fmt_clock(clock_script(r, start, dl, r.rng(0, 5), r.choice([1, 2, 1000])))))
        s = r.choice([0, 1, 2, 3, 4294967295])
        dl = start + s * NS
        cases.append("sleep %d %s" % (s, fmt_clock(clock_script(r, start, dl, r.rng(0, 5), r.choice([1, 2, NS])))))
    # timed lock / join
    # far-away deadlines (hundreds of years and up to the end of the representable range): arithmetic on the
    # remaining time must not wrap; the resource becomes available after a few attempts, long before the deadline
    for sec in (10 ** 10, 2 ** 40, 2 ** 62, 2 ** 63 - 1):
        for op in ("tlock", "tjoin"):
            for F in (2, 4):
                rd = [1700000000 * NS + 10 * k for k in range(F + 3)]
                cases.append("%s %d %d %d %s" % (op, sec, 999999999 if sec == 2 ** 63 - 1 else 5, F, fmt_clock(rd)))
    for i in range(n):
        op = r.choice(["tlock", "tjoin"])
        d = r.choice([0, 999999999, 3 * NS, 5 * NS + 999999999, 1700000000 * NS + 17])
        F = r.choice([-1, 0, 2, 3, 4, 6])
        kind = r.below(4)
        if kind == 0:      # deadline already past at the first reading
            rd = [d + 1, d + 2]
        elif kind == 1:    # first reading exactly at the deadline
            rd = [d] * r.rng(1, 5) + [d + 1, d + 2]
        else:
            start = max(0, d - r.rng(0, 3 * NS))
            rd = clock_script(r, start, d, r.rng(0, 6), r.choice([1, 2, NS]))
        cases.append("%s %d %d %d %s" % (op, d // NS, d % NS, F, fmt_clock(rd)))
    return cases


def oracle(case, out):
    """independent statement of the property on one implementation result; returns None if the
    property holds on this case, else a message"""
    w = case.split()
    o = out.split()
    try:
        if w[0] == "add":
            a_s, an, bs, bn = map(int, w[1:5])
            if not (0 <= an < NS and 0 <= bn < NS):
                return None
            return None   # internal helper: judged through the API-level cases below
        if w[0] == "gt":
            a_s, an, bs, bn = map(int, w[1:5])
            if not (0 <= an < NS and 0 <= bn < NS):
                return None
            return None   # internal helper (strict vs non-strict at equality is not observable as "early")
        if o[0] != "ret":
            return "call did not complete: " + out
        ret, reads, yields = int(o[1]), int(o[3]), int(o[5])
        if w[0] in ("nsleep", "usleep", "sleep"):
            if w[0] == "nsleep":
                rs, rn = int(w[1]), int(w[2]); k = 3
            elif w[0] == "usleep":
                rs, rn = int(w[1]) // 1000000, (int(w[1]) % 1000000) * 1000; k = 2
            else:
                rs, rn = int(w[1]), 0; k = 2
            K = int(w[k]); cl = [int(w[k + 1 + 2 * i]) * NS + int(w[k + 2 + 2 * i]) for i in range(K)]
            badreq = rs < 0 or rn < 0 or rn > 999999999
            if badreq:
                return None if ret == 22 else "malformed duration not rejected with EINVAL"
            if ret != 0:
                return "valid duration rejected (%d)" % ret
            last = cl[min(reads, K) - 1] if reads >= 1 else None
            if reads < 2 or last < cl[0] + rs * NS + rn:
                return "sleep returned early: last clock reading %s, deadline %d" % (last, cl[0] + rs * NS + rn)
            if yields != reads - 2:
                return "sleeper did not yield between polls (reads %d, yields %d)" % (reads, yields)
            return None
        if w[0] in ("tlock", "tjoin"):
            d = int(w[1]) * NS + int(w[2]); F = int(w[3]); K = int(w[4])
            cl = [int(w[5 + 2 * i]) * NS + int(w[6 + 2 * i]) for i in range(K)]
            to = 110 if w[0] == "tlock" else 16
            rdg = lambda j: cl[min(j, K - 1)]
            if ret == to:
                if reads < 1 or rdg(reads - 1) < d:
                    return "timeout reported before the deadline had passed"
                if F >= 0 and F < reads and all(rdg(j) <= d for j in range(max(0, F - 1))) and F == 0:
                    return "timeout although the resource was available at the first attempt"
                # attempts made: 0 .. reads-1 ; resource free from attempt F on
                if F >= 0 and F <= reads - 1:
                    return "timeout although attempt %d (before the deadline was seen passed) found the resource available" % F
                return None
            if ret == 0:
                if F < 0:
                    return "success although the resource was never available"
                return None
            return "unexpected return value %d" % ret
    except (IndexError, ValueError) as e:
        return "unparsable output %r (%s)" % (out, e)
    return None


def run(ctx):
    broken, log = ctx.prove("Properties_C20.v", "Properties_C20")
    exe, drv = build(ctx)
    n = 400 if not ctx.thorough else 6000
    corpus = []
    cp = os.path.join(vlib.VERIF, "corpus", "C20", "cases.txt")
    if os.path.exists(cp):
        corpus = [l.strip() for l in open(cp) if l.strip() and not l.startswith("#")]
    cases = corpus + gen_cases(ctx, n)
    return judge(ctx, cases, exe, drv, broken, log)


def judge(ctx, cases, exe, drv, broken, log):
    impl, rc1, raw1 = vlib.run_lines([exe], cases, env=dict(os.environ, MYTH_NUM_WORKERS="1"))
    model, rc2, raw2 = vlib.run_lines([drv], cases)
    diffs = vlib.diff_lines(cases, impl, model)
    kinds = {}
    for c in cases:
        kinds[c.split()[0]] = kinds.get(c.split()[0], 0) + 1
    outs = {}
    for l in impl:
        k = l.split()[0] if l.split() and l.split()[0] in ("add",) else " ".join(l.split()[:2])
        outs[k] = outs.get(k, 0) + 1
    # property oracle on every implementation result (independent of the model)
    failing = []
    for i, c in enumerate(cases):
        msg = oracle(c, impl[i] if i < len(impl) else "<no output>")
        if msg:
            failing.append((c, impl[i] if i < len(impl) else "<no output>", msg))
    ctx.cov["correspondence"] = {"cases": len(cases), "disagreements": len(diffs),
                                 "input_distribution": kinds, "impl_result_distribution": outs,
                                 "oracle_failures": len(failing), "impl_exit": rc1, "model_exit": rc2}
    ctx.cov["samples"] += [{"case": cases[i], "impl": impl[i] if i < len(impl) else None,
                            "model": model[i] if i < len(model) else None} for i in (0, len(cases) // 2, len(cases) - 1)]
    ctx.cov["trusted_base"] += ["extraction: ExtrOcamlBasic only (no Extract Constant/Inductive of ours); ocaml/driver_C20.ml, ocaml/zio.ml",
                                "harness/c20_unit.c (scripted virtual clock through the MYTH_VERIF hook in hr_gettime; yield counter through the yield.enter event)",
                                "modelled, not verified: clock_gettime itself; the one-worker schedule used to make attempt outcomes deterministic"]
    if failing:
        c, o, msg = failing[0]
        ctx.violation("oracle", msg, {"case": c, "observed": o, "expected": "see property C20",
                                      "level": "library", "all_failing": failing[:20]}, found=True)
    elif diffs:
        i, c, a, b = diffs[0]
        ctx.violation("correspondence", "model and implementation disagree on %d case(s); first: %s" % (len(diffs), c),
                      {"theorem_or_correspondence": "correspondence Time/TimeModel.v <-> src/myth_sched_func.h, src/myth_sync_func.h",
                       "case": c, "observed": a, "expected": b, "all": diffs[:20]}, found=False)
    if broken:
        ctx.violation("proof", "theorem(s) no longer check: " + ", ".join(broken),
                      {"theorem_or_correspondence": ", ".join(broken), "log": getattr(ctx, "proof_log", log[-3000:])}, found=False)
    return ctx.finish(assumptions=["valid timespec operands without 64-bit overflow (signed overflow is UB in C and not modelled)",
                                   "clock oracle: the k-th reading of the call is clk k, any valid values"])


def replay(ctx, path):
    body = json.load(open(path))
    exe, drv = build(ctx)
    cases = [body["case"]] if "case" in body else []
    for c in cases:
        impl, _, _ = vlib.run_lines([exe], [c])
        model, _, _ = vlib.run_lines([drv], [c])
        print("case:  ", c)
        print("impl:  ", impl[0] if impl else None)
        print("model: ", model[0] if model else None)
        print("oracle:", oracle(c, impl[0] if impl else "<no output>"))
    return 0
